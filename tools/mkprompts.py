#!/usr/bin/env python3
"""tools/mkprompts.py <round-dir>: write one prompt per property for a round of seeded changes made by
fresh sub-agents: the property text, the rules, and the titles of all earlier seeds of that property
(to avoid). The agents get nothing else from /verif."""
import json, os, sys, glob
rd = sys.argv[1]
props = {}
for l in open('/verif/properties.jsonl'):
    p = json.loads(l); props[p['id']] = p
GENERIC = ("scratch buffers or pads hoisted to package scope, shared preallocated slices or caches, process-wide tables filled by one decoder and read by another, "
 "padding computed with `8 - n%8`, values kept as sub-slices of the input buffer, length fields cached at add/construction time, integer wrap-around in a narrow type, "
 "Go operator-precedence slips, net.IP.To4() on 16-byte addresses, all-ones masks treated as exact matches, receiver mutation inside a getter or an encoder, "
 "append() into a caller's spare capacity, trimming trailing zero bytes, map iteration order, loop-variable aliasing, `break`/`continue` confusion, off-by-one at an exact fit, "
 "deadlines/timeouts on the connection, zero-length reads, decoding more protocols than before, error values lost through a shadowed `err`, loops bounded by a new constant, "
 "zero-value structs that lack a constructor default, by-value struct copies sharing a slice, in-place filtering over the caller's slice, encoders that keep an unread remainder, "
 "unsigned-to-int conversions in a guard, errors from Close(), buffers returned to a pool before their last use, constructors that read a counter without advancing it, "
 "decoders that stop after the first record, ninth bits of packed lengths")
THINK = ("behaviour that depends on the ORDER of two independent calls or list elements; values exactly at a 2^k boundary of a multi-byte field (255/256, 4095/4096, 65535); "
 "a receiver or builder used again after an operation on it FAILED half-way; a zero that is taken to mean 'use the default'; de-duplication, sorting or merging of list elements; "
 "lazy initialisation behind a nil check; special handling of the LAST element or of trailing padding; parallel arrays or tables indexed by the wrong key; a `switch` whose `default` "
 "or a missing case silently does something; `len(x) > 0` versus `x != nil`; integer division that rounds the wrong way; two arguments of the same type swapped; a constant of the "
 "neighbouring kind (copy-and-paste); partial success (an error after some output was already produced); an early return that skips a later clean-up or restore step")
os.makedirs(rd, exist_ok=True)
for pid, p in sorted(props.items()):
    titles = []
    for m in sorted(glob.glob('/verif/seeded/%s-*/meta.json' % pid)):
        try: t = json.load(open(m)).get('title', '')
        except Exception: t = ''
        if t: titles.append(t)
    wt = '%s/agent_%s' % (rd, pid)
    txt = f"""You are helping test a verification effort by planting realistic defects. You work ONLY inside the git worktree {wt} (a checkout of the Go library libOpenflow, module path github.com/contiv/libOpenflow: OpenFlow 1.3 message codecs in openflow13/, common/, packet headers in protocol/, stream in util/, ofbase/). Do not read or write anything under /verif or /repo. No network. Every shell command needs: export GOFLAGS=-mod=mod GOPROXY=off GOSUMDB=off GOTOOLCHAIN=local

The library is supposed to satisfy this property:

Property {pid} — {p['title']}

Statement: {p['statement']}

Quantified over: {p['quantifier']['text']}


Your job: produce TWO different, independent source changes to the library (each a small, realistic edit that a plausible refactoring/optimisation/bug-fix commit could contain) that each BREAK this property while
 (a) the code still compiles (go build ./...), and
 (b) the library's existing tests still pass: go test -vet=off -count=1 ./openflow13/... ./protocol/... ./common/... ./util/... ./ofbase/...   (the root-package TestMessageStream fails on the pristine tree already; ignore it)
and for each change a demonstration: a Go test file in a new package directory (e.g. {wt}/seeddemo1/demo_test.go, package seeddemo, using only the library's public API) that FAILS with the change applied and PASSES on the pristine tree. The demonstration must be deterministic.

Earlier rounds already produced the following changes for this property, so AVOID these and anything close to them, and find different mechanisms in different functions:
""" + "".join(" - %s\n" % t for t in titles) + f"""Also avoid these generic mechanisms, used many times already: {GENERIC}. Think instead about: {THINK}.
Important: prefer changes that need something SPECIFIC to manifest - a particular interleaving, a fault at a particular point, a multi-step sequence of operations, an unusual input/size/value, or two cooperating sites that each look fine alone - NOT changes that ordinary use would expose at once. Avoid trivial mutations such as flipping a constant that every use hits. The change must really violate the property as stated (not merely some stricter reading of it), for inputs inside the set the property quantifies over. The two changes should exercise different mechanisms and different files if possible.

Deliverables, for i in 1,2: directory {wt}/_seed/i/ containing
  patch.diff   - output of `git diff` for the library change only (apply-able with `git apply` on the pristine worktree; do not include the demo or _seed files)
  demo_test.go - the demonstration test (package seeddemo)
  NOTES.md     - first line: a one-line title of the change ("# ..."); then what was changed and why it looks plausible; why it breaks the property; exactly what it needs in order to manifest; the commands you ran and their outcomes (build, existing tests with the change, demo with the change = FAIL, demo without = PASS)
Work one change at a time: make the edit, verify (a),(b), write and run the demo, save `git diff -- . ':(exclude)_seed' ':(exclude)seeddemo*' > _seed/i/patch.diff`, then `git checkout -- .` (keep _seed and seeddemo dirs untracked) and verify the demo passes on the pristine tree, before starting the next change. At the end leave the worktree's tracked files pristine (git status shows only untracked _seed/ and seeddemo*/). Report briefly what the two changes are.
"""
    open('%s/prompt_%s.txt' % (rd, pid), 'w').write(txt)
print("prompts written to", rd)
