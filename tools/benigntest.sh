#!/bin/bash
# tools/benigntest.sh <dir-with-patch.diff> <check-id>... : run checks against a scratch copy of /repo's working
# tree with a behaviour-preserving change applied. Every check must stay silent (exit 0, no VIOLATION line).
set -u
D=$1; shift
S=$(mktemp -d /tmp/benignrepo.XXXXXX)
trap 'rm -rf "$S"' EXIT
rsync -a --exclude .git /repo/ "$S"/
( cd "$S" && git init -q . >/dev/null 2>&1; git apply "$D/patch.diff" ) || { echo "PATCH DOES NOT APPLY: $D"; exit 9; }
cd /verif
for c in "$@"; do
  VERIF_REPO="$S" VERIF_OUT_DIR="$S/out" ./check "$c" quick > "$S/log.$c" 2>&1
  rc=$?
  echo "$D $c: exit=$rc violations=$(grep -c '^VIOLATION' "$S/log.$c") $(grep -A1 '^VIOLATION' "$S/log.$c" | grep -m1 'sig=' | cut -c1-260) $(grep -m1 'HARNESS-ERROR' "$S/log.$c" | cut -c1-200)"
done
