#!/bin/bash
# tools/seedtest.sh <seeded-dir> [tier] : apply the seeded change to /repo, run the property's check, undo.
set -u
D=$1; TIER=${2:-quick}
PROP=$(basename "$D" | cut -d- -f1)
cd /repo || exit 9
if [ -n "$(git status --porcelain)" ]; then echo "REPO DIRTY"; exit 9; fi
git apply "/verif/$D/patch.diff" || { echo "PATCH DOES NOT APPLY: $D"; exit 9; }
cd /verif
./check "$PROP" "$TIER" > /tmp/seedtest.$$.log 2>&1
rc=$?
git -C /repo checkout -- . 
nv=$(grep -c '^VIOLATION' /tmp/seedtest.$$.log)
echo "$D: exit=$rc violations=$nv $(grep -m1 'sig=' /tmp/seedtest.$$.log | cut -c1-200)"
tail -1 /tmp/seedtest.$$.log
rm -f /tmp/seedtest.$$.log
rm -rf /verif/replays/$PROP
