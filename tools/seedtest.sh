#!/bin/bash
# tools/seedtest.sh <seeded-dir> [tier] [check-id] : run the property's check against a scratch copy of /repo's
# working tree with the seeded change applied (VERIF_REPO; /repo itself is not touched).
set -u
D=$1; TIER=${2:-quick}
PROP=${3:-$(basename "$D" | cut -d- -f1)}
S=$(mktemp -d /tmp/seedrepo.XXXXXX)
trap 'rm -rf "$S" /tmp/seedtest.$$.log' EXIT
rsync -a --exclude .git /repo/ "$S"/
( cd "$S" && git init -q . >/dev/null 2>&1; git apply "/verif/$D/patch.diff" ) || { echo "PATCH DOES NOT APPLY: $D"; exit 9; }
cd /verif
VERIF_REPO="$S" VERIF_OUT_DIR="$S/out" ./check "$PROP" "$TIER" > /tmp/seedtest.$$.log 2>&1
rc=$?
nv=$(grep -c '^VIOLATION' /tmp/seedtest.$$.log)
echo "$D: exit=$rc violations=$nv $(grep -A1 '^VIOLATION' /tmp/seedtest.$$.log | grep -m1 'sig=' | cut -c1-200)"
tail -1 /tmp/seedtest.$$.log
