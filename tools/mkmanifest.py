#!/usr/bin/env python3
"""Regenerates MANIFEST.json from the table below (kept in one place so that it stays valid)."""
import json, sys
CHECKS = {
 # id: (level category, technique, level text, level note, design ref)
 "C16": ("model_checking", "complete enumeration of both finite domains against a big-integer reference",
         "All 528 ranges inside a 32-bit register and all 1024x64 (offset,width) pairs are enumerated, each through every exported constructor/helper, and compared with masks computed by math/big and the word formula ofs<<6|(nbits-1). Complete, so the claim is 'for every range' and not a sample.",
         "Trusted: math/big; the word layout transcribed from OVS nicira-ext.h (DESIGN Appendix A). Unexported helpers are reached through an overlay-generated accessor file.", "4/C16"),
 "C18": ("model_checking", "explicit-state breadth-first search to closure over the real builder methods, against a tri-state reference model",
         "BFS from NewCTStates() over the 16 real setter methods, states keyed by the complete printed builder struct; the run requires the closure to be exactly the 3^8=6561 states of the reference model and evaluates the encoded ct_state match (header, value, mask) in every state and on every transition; plus all call sequences <=4 from the initial state and <=2 from every state as a guard against an incomplete state key.",
         "Trusted: the reference (last call per flag wins), the NXM header 00 01 d3 08 for masked ct_state. Builders are rebuilt by replaying the shortest path, never copied.", "4/C18"),
 "C19": ("model_checking", "bounded-exhaustive enumeration of operation sequences and slicing geometries on the real encoder/decoder",
         "All sequences of typed writes over an 8-letter alphabet (8/16/32/64/128-bit, 1- and 3-byte raw writes, alignment skips) up to length 5 (quick) / 7 (thorough) are encoded and read back with the matching reads, checking values, per-operation offset advance and alignment targets; all slicing geometries prefix 0..16 x length 0..24 x rewind x inner offset at nesting depth 1..3, with alignment measured from the start of the message; Header.Decode on every truncation 0..12 for fresh, advanced and sliced decoders.",
         "Values come from a position-dependent pattern with five boundary variants on the last operation (the primitives only move bytes). Longer sequences rest on the offset being the only state of the encoder/decoder, which ranges over all residues mod 8 within the bound.", "4/C19"),
 "C01": ("model_checking", "bounded-exhaustive enumeration of builder-operation histories on the real constructors/encoders (shape explorer)",
         "Every controller-originated message kind and command/type variant is built through the public constructors and adders over the shape corpus (every single action of an extended alphabet incl. all 64 NAT presence subsets, all learn-spec forms x 12 bit counts, note lengths of every residue; all ordered pairs of the 25 buildable action kinds in 5 containers; match-field, instruction and bucket pairs; bundle-add nesting depth 2; payloads up to the 65528/65535 boundary; thorough adds all triples over residue-complete subsets), each under up to 7 builder histories (append/prepend pivots, interleavings, size queries between steps, alternative constructors). Oracle needs no reference: version byte 4, type code of the kind, header length = bytes produced = Len() before and after, recursively for the message embedded in a bundle-add; results handed out earlier must not change when later messages are encoded.",
         "Compositional reduction (DESIGN 3.3): containers use children only through Len() and bytes, so list arithmetic depends on children only through their size; the instrumenter reports any type switch inside an encoder. Field values other than those affecting size are C03's subject.", "4/C01"),
 "C02": ("model_checking", "bounded-exhaustive enumeration of builder histories, each encoding walked by an independent TLV walker of the OF1.3/Nicira grammar",
         "Same state space as C01 (shape corpus x builder histories). Every encoding is walked by engine/wire's strict decoder, which uses only declared lengths and the code tables of DESIGN Appendix A: every match, OXM TLV, instruction, standard/Nicira action (also nested in conntrack), bucket, hello element, learn spec, TLV map and bundled message must declare exactly its extent, be 8-aligned where required, be zero padded, carry a defined code with the length that code requires, and the walk must end at the header length; the walker must visit exactly the elements that were added.",
         "The walker is written from the specification text (Appendix A), not from the library; its own tests (round trip over 20k corpus trees, byte vectors in OVS format) run in setup. OXM fields 41-43 (OpenFlow 1.4/1.5 numbers OVS accepts on 1.3) are accepted.", "4/C02"),
 "C03": ("model_checking", "bounded-exhaustive enumeration of shapes and one-field-off-base values, library encoding compared byte for byte with an independent reference encoder",
         "For every tree of the shape corpus under all builder histories, and for every scalar/fixed-width byte field of ~150 base messages varied alone over its whole value alphabet (0, 1, all-ones, top bit, pattern, every single bit, two seed-derived values; Appendix B), the bytes produced by the library for the value built through the API must equal the reference encoding of the same model tree (transaction ids masked); the reference field map names the first differing field.",
         "Bit-independence argument (encoders only move bits) for simultaneous values in several fields; delete flow-mods/group-mods carry no instructions/buckets as the library's Len() defines. Reference encoder: engine/wire, from Appendix A.", "4/C03"),
 "C06": ("model_checking", "bounded-exhaustive enumeration of shapes; sizes and child embedding checked on the real encoders at every nesting level",
         "Every element of every tree of the shape corpus is built standalone: Len() before and after encoding equals the bytes produced; every container's bytes must contain its children's standalone encodings contiguously, in order, followed only by the specified zero padding (flow-mod: match+instructions; instruction/bucket/conntrack/packet-out: actions (+payload); match: fields; OXM TLV: header+value+mask payloads; learn action: specs; learn spec: header+source+destination; set-field/reg-load2: field; bundle-add: embedded message); earlier results must not change when later values are encoded. Packet-header kinds are sized over the packet corpus.",
         "No reference encoder is involved: children are encoded by the library standalone and searched for in the parent.", "4/C06"),
 "C13": ("model_checking", "exhaustive enumeration of operation sequences over {Len, Marshal, wrap, decode} on fresh instances (history-independence oracle)",
         "For every standalone element of the extended alphabets and every message of the corpus, every sequence up to length 3 (quick) / 4 (thorough) over {L=Len(), M=MarshalBinary(), W=size+encode through an enclosing wrapper (bundle-add, instruction, match, flow-mod, group-mod), D=encode+decode into a fresh receiver+dump} runs on a fresh instance rebuilt from its builder recipe; every observation must equal what the same operation yields first on a fresh instance. The full message corpus runs at depth 2.",
         "A write-back is acceptable exactly when it is invisible to these observations. Transaction ids are masked (each instance draws its own).", "4/C13"),
 "C04": ("model_checking", "bounded-exhaustive enumeration of switch-originated shapes, one-field-off-base values and two-step parse histories; frames written by an independent reference encoder, parsed by the real Parse and compared field by field",
         "Every tree of the switch-originated corpus (every kind Parse has a type for; hello 0..3 elements x 1..3 bitmaps; all error types x 3 data sizes; packet-in x reasons x 9 payload kinds; stats replies with 0..3 records; every decodable match field unmasked and masked in flow-removed, packet-in and flow-stats; every action and instruction kind and all ordered pairs of the 32 action kinds inside flow-stats records; match-field pairs/triples; Nicira TLV-table and bundle replies) and every scalar/fixed-width field of one base message per kind varied alone over its whole value alphabet is serialised by engine/wire, parsed by openflow13.Parse, read back through exported fields and diffed against the tree. All ordered pairs of base messages run as two-step histories (parse A, parse B, read A again), and the last 8 parsed messages are re-read after every parse.",
         "Match fields the library has no decoder for at the pinned commit (a fixed list in checks/c04.go) are outside 'supported match-field kinds' and are not generated. Failing trees are minimised (delta debugging on the model tree) so that the signature names the element kind at fault.", "4/C04"),
 "C05": ("model_checking", "bounded-exhaustive enumeration of values built through the real API (shape corpus, extended element alphabets, one-field-off-base values) x decode routes x followers; encode/decode/re-encode on the real codecs",
         "Every standalone action of the extended alphabet, every decodable match field (unmasked and masked), every instruction kind x residue actions, buckets, and every stats record / request body type is encoded and decoded through the category's dispatcher and directly into a receiver of the same type, alone and followed by {8 zero bytes, 8 0xff bytes, a copy of itself, one encoding per size residue}; every message of the controller- and switch-originated corpora (incl. all ordered action pairs, bundle nesting, values obtained from the parser for kinds without constructors) and every field of one base message per kind over its value alphabet goes through Parse (or the constructor-made receiver for packet-out, group-mod, port-mod). Oracle: decode succeeds, same dynamic type, equal exported field values, reported extent = bytes encoded, re-encoding reproduces the bytes.",
         "Observable values = exported fields without derived length fields and transaction ids; a match-field payload compares through its encoding (generic and typed payload representations are the same value); a note compares modulo the zero bytes the wire pads it with. Bundle-adds around kinds Parse does not decode, packet-in without payload and match fields without decoder are not two-way values (counted in the evidence).", "4/C05"),
 "C07": ("fault_enumeration", "exhaustive enumeration of all inputs within a deviation bound of reference-encoded frames (plus all very short inputs and all type/length headers), each executed on the real Parse under a deterministic step budget and an allocation measurement",
         "Seeds: reference encodings (engine/wire) of one message per distinct (kind, element-kind set) of the switch- and controller-originated corpora (about 2500 seeds quick). Bound 1, complete: every truncation (raw, and with the header length rewritten to the truncated size), every byte x all 256 values for seeds <= 256 bytes (boundary values above), every length/count/type/constant field of the reference field map x a boundary alphabet (0..10, powers of two, correct+-1/2/4/8, bytes-remaining+-1/2/4/8, 0x3fff, 0x4000, 0x7fff, 0x8000, max-7, max-1, max), trailing bytes; seed-independent: every input of length 0..2, all 256 type codes x 20 boundary lengths x 4 versions x 0..8 filler bytes, all types with 8..64-byte bodies. Thorough adds bound 2 (structural x structural, structural x truncation). About 5*10^7 executions quick on 16 worker processes. Outcome must be message-or-error; panic, (nil,nil), more than 64*len+4096 instrumented steps, more than 64*len+256 KiB allocated, or death of the worker process is a violation attributed to the exact input.",
         "Instrumentation R1 (a tick at every function entry and loop body of the five packages) is regenerated from the working tree on every run; a budget overrun is raised again every 256 steps so that the library's own recover() cannot swallow it. Inputs more than two deviations away from every seed are not covered: the claim is 'no input in these sets'.", "4/C07"),
 "C08": ("fault_enumeration", "exhaustive enumeration of all inputs within a deviation bound of reference-encoded packets, each executed on the real decoder under a deterministic step budget and an allocation measurement",
         "One entry point per decoder (Ethernet, VLAN, ARP, IPv4, IPv6, IPv6 option, hop-by-hop, routing, fragment, ICMP, TCP, UDP, IGMPv1/2, IGMPv3 query, group record, membership report, DHCP.Write, DHCPParseOptions, the three LLDP TLVs, LLDP.Write) plus Parse of a packet-in carrying each frame. Seeds: reference encodings (engine/pkt) of the packet corpus (all payload kinds, 16 extension-header chains x 5 final headers, option/source/record counts 0..3, DHCP option lists <= 3). Bound 1, complete: every truncation, every byte x all 256 values (all headers are short, so IHL/version, HEL, option length, hardware/protocol length, aux length are covered over their whole range), every length/count/type field x boundary alphabet incl. 16383/16384/32767/32768/65535, trailing bytes, every input of length 0..2. Thorough: bound 2 over length-like fields and truncations, jumbo seeds. Violations: panic, more than 64*len+4096 steps, more than 64*len+256 KiB allocated, process death.",
         "Seeds do not depend on the library's encoders. The step budget is counted by instrumentation regenerated from the working tree (R1).", "4/C08"),
}
ORDER = ["C%02d" % i for i in range(1, 20)]
NA = {}
def main():
    checks = []
    for pid in ORDER:
        if pid not in CHECKS:
            NA.setdefault(pid, "check not built yet in this session (work in progress; see DESIGN.md section 4/%s for the planned model-checking design)" % pid)
            continue
        cat, tech, text, note, ref = CHECKS[pid]
        checks.append({
            "property_id": pid,
            "quick_cmd": "./check %s quick" % pid,
            "thorough_cmd": "./check %s thorough" % pid,
            "evidence_file": "/verif/evidence/%s.json" % pid,
            "replay_cmd_template": "./check %s quick --replay {path}" % pid,
            "engine": "vcheck",
            "level_claimed": {"category": cat, "text": text, "design_ref": "DESIGN.md section " + ref},
            "level_note": note,
            "technique": tech,
        })
    m = {
        "version": 1,
        "setup_cmd": "./setup.sh",
        "hooks": {
            "guard": "verif",
            "enable": "no hook is committed to /repo: ./check regenerates an instrumented copy of the five library packages from /repo's working tree on every run (engine/cmd/inst: step ticks, scheduling points, accessor files, all carrying //go:build verif) and builds the harness with `go build -tags verif -overlay <generated overlay.json>`",
            "baseline_off_cmd": "cd /repo && GOFLAGS=-mod=mod GOPROXY=off GOSUMDB=off GOTOOLCHAIN=local go test -vet=off -count=1 ./openflow13/... ./protocol/... ./common/... ./util/... ./ofbase/...",
            "source_commits": [],
            "add_only": True,
        },
        "engines": [
            {"name": "vcheck", "path": "/verif/engine", "serves_properties": [c["property_id"] for c in checks],
             "kind_free_text": "hand-written Go explorer: explicit-state / bounded-exhaustive enumeration over the real library (sequential properties), deviation-bounded enumeration of malformed inputs with deterministic step budgets (totality properties), cooperative scheduler with depth-first schedule enumeration over a source-rewritten copy of the library (concurrency properties)"},
        ],
        "checks": checks,
        "not_applicable": [{"property_id": k, "reason": v} for k, v in sorted(NA.items())],
        "notes": "Every check rebuilds from /repo's current working tree. Exit 0 = held on everything explored (KNOWN-FINDING lines for entries of KNOWN_FINDINGS.txt), exit 1 = VIOLATION line, exit 3 = harness error. Genuine defects repaired by fix: commits are listed as fixed: lines in KNOWN_FINDINGS.txt.",
    }
    json.dump(m, open("/verif/MANIFEST.json", "w"), indent=1)
    print("checks:", len(checks), "not_applicable:", len(NA))
main()
