#!/bin/bash
# tools/confirm_seed.sh <seeded-dir> : confirm in a scratch worktree of /repo HEAD that the seeded change
# (1) applies and builds, (2) leaves the existing tests green, (3) makes its demonstration fail, and that
# (4) the demonstration passes without it. Prints one summary line; writes <dir>/confirm.log.
set -u
export GOFLAGS=-mod=mod GOPROXY=off GOSUMDB=off GOTOOLCHAIN=local
D=$(cd "$1" && pwd)
WT=$(mktemp -d /tmp/confirm.XXXXXX)
trap 'git -C /repo worktree remove --force "$WT" >/dev/null 2>&1; rm -rf "$WT"' EXIT
git -C /repo worktree add --detach "$WT" HEAD >/dev/null 2>&1 || { echo "$1: cannot create worktree"; exit 9; }
cd "$WT"
mkdir -p seeddemo && cp "$D"/demo_test.go seeddemo/
{
echo "== demo without change"; timeout 600 go test -vet=off -count=1 ./seeddemo/ ; base=$?
echo "== apply"; git apply "$D/patch.diff"; ap=$?
echo "== build"; go build ./... ; bd=$?
echo "== existing tests with change"; timeout 900 go test -vet=off -count=1 ./openflow13/... ./protocol/... ./common/... ./util/... ./ofbase/... ; ts=$?
echo "== demo with change"; timeout 600 go test -vet=off -count=1 ./seeddemo/ ; dm=$?
echo "base=$base apply=$ap build=$bd tests=$ts demo_with_change=$dm"
} > "$D/confirm.log" 2>&1
tail -1 "$D/confirm.log" | sed "s|^|$1: |"
