#!/bin/bash
# tools/allthorough.sh : run every check's thorough tier against a snapshot of /repo (for `vp run --with-repo`);
# results land under ./out (evidence/ and replays/), one log per check under ./out/logs.
set -u
export VERIF_REPO=${VP_RUN_REPO:-/repo} VERIF_OUT_DIR=$PWD/out
mkdir -p out/logs
for i in ${@:-C01 C02 C03 C04 C05 C06 C07 C08 C09 C10 C11 C12 C13 C14 C15 C16 C17 C18 C19}; do
  s=$(date +%s)
  ./check $i thorough > out/logs/$i.log 2>&1
  echo "$i exit=$? wall=$(( $(date +%s) - s ))s violations=$(grep -c '^VIOLATION' out/logs/$i.log) known=$(grep -c '^KNOWN-FINDING' out/logs/$i.log) :: $(tail -1 out/logs/$i.log | cut -c1-200)"
done
