#!/usr/bin/env python3
"""tools/importseeds.py <round-dir> [origin-text]: copy the deliverables of sub-agent worktrees
<round-dir>/agent_<PROP>/_seed/<i>/ into seeded/<PROP>-<next>/ (patch.diff, demo_test.go, NOTES.md)."""
import os, sys, shutil, json, re
rd = sys.argv[1]; origin = sys.argv[2] if len(sys.argv) > 2 else ""
for a in sorted(os.listdir(rd)):
    if not a.startswith("agent_"): continue
    prop = a[len("agent_"):]
    for i in sorted(os.listdir(os.path.join(rd, a, "_seed"))) if os.path.isdir(os.path.join(rd, a, "_seed")) else []:
        src = os.path.join(rd, a, "_seed", i)
        if not os.path.exists(os.path.join(src, "patch.diff")): continue
        mark = os.path.join(src, ".imported")
        if os.path.exists(mark): continue
        have = [int(x.split("-")[1]) for x in os.listdir("/verif/seeded") if x.startswith(prop + "-")]
        # C09-2 was retired: never reuse a number
        nxt = max(have + ([2] if prop == "C09" else [0])) + 1
        dst = "/verif/seeded/%s-%d" % (prop, nxt)
        os.makedirs(dst)
        for f in ("patch.diff", "demo_test.go", "NOTES.md"):
            if os.path.exists(os.path.join(src, f)): shutil.copy(os.path.join(src, f), dst)
        if origin:
            json.dump({"origin": origin}, open(os.path.join(dst, "meta.json"), "w"))
        open(mark, "w").write(dst)
        print(src, "->", dst)
