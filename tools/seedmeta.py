#!/usr/bin/env python3
"""Runs every seeded change against its property's check (quick tier, scratch copy of /repo) and
(re)writes seeded/<id>/meta.json. Usage: tools/seedmeta.py [ids...]"""
import json, os, re, subprocess, sys, concurrent.futures
ROOT = "/verif"
def needs_of(notes):
    # text of the section whose heading mentions "needs" / "manifest"
    sec, take = [], False
    for line in notes.splitlines():
        if line.startswith("#"):
            if take and sec: break
            take = bool(re.search(r"needs|manifest", line, re.I))
            continue
        if take: sec.append(line)
    t = " ".join(x.strip() for x in sec if x.strip())
    return t[:900]
def title_of(notes):
    for line in notes.splitlines():
        if line.startswith("#"): return line.lstrip("# ").strip()
    return ""
def one(sid):
    d = os.path.join(ROOT, "seeded", sid)
    notes = open(os.path.join(d, "NOTES.md")).read() if os.path.exists(os.path.join(d, "NOTES.md")) else ""
    # checks.txt (optional) names the checks expected to catch the change when it is not (only) the
    # property's own: e.g. a cross-talk defect filed under an encoding property is C14's to catch
    checks = [sid.split("-")[0]]
    cf = os.path.join(d, "checks.txt")
    if os.path.exists(cf):
        checks = open(cf).read().split()
    rc, nv, first, results = -1, 0, "", []
    for chk in checks:
        out = subprocess.run([os.path.join(ROOT, "tools/seedtest.sh"), "seeded/" + sid, "quick", chk], capture_output=True, text=True).stdout
        m = re.search(r"exit=(\d+) violations=(\d+)\s*(.*)", out)
        r1, n1, f1 = (int(m.group(1)), int(m.group(2)), m.group(3).strip()) if m else (-1, 0, "")
        results.append({"check": chk, "exit": r1, "violation_lines": n1, "first_signature": f1[:300]})
        if r1 == 1 and n1 > 0 and not (rc == 1 and nv > 0):
            rc, nv, first = r1, n1, f1
    conf = ""
    cl = os.path.join(d, "confirm.log")
    if os.path.exists(cl):
        conf = open(cl).read().strip().splitlines()[-1]
    prev = {}
    mp = os.path.join(d, "meta.json")
    if os.path.exists(mp):
        try: prev = json.load(open(mp))
        except Exception: prev = {}
    meta = {
        "id": sid,
        "property": sid.split("-")[0],
        "title": prev.get("title") or title_of(notes),
        "needs_to_manifest": prev.get("needs_to_manifest") or needs_of(notes),
        "files": sorted(f for f in os.listdir(d) if f not in ("meta.json",)),
        "confirmed": {
            "how": "tools/confirm_seed.sh in a scratch git worktree of /repo HEAD: demo without the change, apply, go build ./..., the repository's own tests with the change, demo with the change",
            "result": conf,
            "meaning": "base=0: demonstration passes without the change; tests=0: the existing tests still pass with it; demo_with_change=1: the demonstration fails with it",
        },
        "check": {
            "command": "tools/seedtest.sh seeded/%s (./check %s quick against a scratch copy of /repo with the change applied)" % (sid, sid.split("-")[0]),
            "exit": rc, "violation_lines": nv, "first_signature": first[:300],
            "caught": rc == 1 and nv > 0, "per_check": results,
        },
    }
    if prev.get("origin"): meta["origin"] = prev["origin"]
    json.dump(meta, open(mp, "w"), indent=1)
    return sid, rc, nv, first[:120]
ids = sys.argv[1:] or sorted(os.listdir(os.path.join(ROOT, "seeded")))
with concurrent.futures.ThreadPoolExecutor(max_workers=2) as ex:
    for sid, rc, nv, first in ex.map(one, ids):
        print(sid, "exit=%d violations=%d" % (rc, nv), first, flush=True)
