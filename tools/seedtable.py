#!/usr/bin/env python3
"""Rewrites the seeded-change table of DESIGN.md (between the seedtable markers) from seeded/*/meta.json."""
import json, os, re
rows = []
for sid in sorted(os.listdir('/verif/seeded')):
    mp = os.path.join('/verif/seeded', sid, 'meta.json')
    if not os.path.exists(mp): continue
    m = json.load(open(mp))
    chk = m.get('check', {})
    per = chk.get('per_check', [])
    caught = [p['check'] for p in per if p.get('exit') == 1 and p.get('violation_lines', 0) > 0]
    sig = ''
    for p in per:
        if p.get('exit') == 1 and p.get('violation_lines', 0) > 0:
            mm = re.search(r'sig=(\S+)', p.get('first_signature', ''))
            sig = mm.group(1) if mm else ''
            break
    title = re.sub(r'^(Seed(ed)?\s*(change|defect)?\s*[\w/ -]*?[:-]\s*)', '', m.get('title', ''), flags=re.I)[:90]
    rows.append('| %s | %s | %s | %s |' % (sid, title.replace('|', '/'), ', '.join(caught) or '**not caught**', ('`' + sig[:70] + '`') if sig else ''))
table = '| seed | change | caught by (quick) | first signature |\n|---|---|---|---|\n' + '\n'.join(rows)
p = '/verif/DESIGN.md'
s = open(p).read()
b, e = '<!-- seedtable:begin -->', '<!-- seedtable:end -->'
if b in s:
    s = s[:s.index(b) + len(b)] + '\n' + table + '\n' + s[s.index(e):]
else:
    s = s.replace('SEEDTABLE', b + '\n' + table + '\n' + e)
open(p, 'w').write(s)
print(len(rows), 'rows')
