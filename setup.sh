#!/bin/bash
# Builds the framework from files on disk only and warms the Go build cache (offline).
set -eu
export GOFLAGS=-mod=mod GOPROXY=off GOSUMDB=off GOTOOLCHAIN=local
ROOT=$(cd "$(dirname "$0")" && pwd)
mkdir -p "$ROOT/.bin" "$ROOT/evidence"
cd "$ROOT/engine"
go build -o "$ROOT/.bin/inst" ./cmd/inst
W=$(mktemp -d /tmp/verif.setup.XXXXXX)
trap 'rm -rf "$W"' EXIT
"$ROOT/.bin/inst" -repo "${VERIF_REPO:-/repo}" -out "$W" -rt "$ROOT/engine/rt"
go build -tags verif -overlay "$W/overlay.json" -o "$W/vcheck" ./cmd/vcheck
echo setup ok
