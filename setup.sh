#!/bin/bash
# Builds the framework from files on disk only and warms the Go build cache (offline).
set -eu
export GOFLAGS=-mod=mod GOPROXY=off GOSUMDB=off GOTOOLCHAIN=local
ROOT=$(cd "$(dirname "$0")" && pwd)
mkdir -p "$ROOT/.bin" "$ROOT/evidence"
cd "$ROOT/engine"
go build -o "$ROOT/.bin/inst" ./cmd/inst
W=$(mktemp -d /tmp/verif.setup.XXXXXX)
trap 'rm -rf "$W"' EXIT
"$ROOT/.bin/inst" -repo "${VERIF_REPO:-/repo}" -out "$W" -rt "$ROOT/engine/rt"
go build -tags verif -overlay "$W/overlay.json" -o "$W/vcheck" ./cmd/vcheck
# warm the -race build used by the free-running monitor of C14/C15
mkdir -p "$W/plain"
"$ROOT/.bin/inst" -plain -repo "${VERIF_REPO:-/repo}" -out "$W/plain" -rt "$ROOT/engine/rt" > /dev/null
go build -race -tags verif -overlay "$W/plain/overlay.json" -o "$W/vcheck.race" ./cmd/vcheck
# known-answer self-test of the controlled scheduler (rendezvous, buffered channels, close, select, mutex, condition variable, access points)
VERIF_WORK="$W" VERIF_ROOT="$ROOT" VERIF_OUT_DIR="$W/selfout" "$W/vcheck" SELF quick > "$W/self.log" 2>&1 || true
if grep -q "HARNESS-ERROR" "$W/self.log" || ! grep -q "SELF quick: exit=0" "$W/self.log"; then cat "$W/self.log"; echo "scheduler self-test failed"; exit 1; fi
# the reference models' own tests (round trip over the corpus, byte vectors)
go test -count=1 ./wire/ > "$W/wire_test.log" 2>&1 || { cat "$W/wire_test.log"; echo "reference model self-test failed"; exit 1; }
echo setup ok
