#!/bin/bash
# Builds the framework from files on disk only and warms the Go build cache (offline).
set -eu
export GOFLAGS=-mod=mod GOPROXY=off GOSUMDB=off GOTOOLCHAIN=local
ROOT=$(cd "$(dirname "$0")" && pwd)
mkdir -p "$ROOT/.bin" "$ROOT/evidence"
cd "$ROOT/engine"
go build -o "$ROOT/.bin/inst" ./cmd/inst
W=$(mktemp -d /tmp/verif.setup.XXXXXX)
trap 'rm -rf "$W"' EXIT
"$ROOT/.bin/inst" -repo "${VERIF_REPO:-/repo}" -out "$W" -rt "$ROOT/engine/rt"
go build -tags verif -overlay "$W/overlay.json" -o "$W/vcheck" ./cmd/vcheck
# warm the -race build used by the free-running monitor of C14/C15
mkdir -p "$W/plain"
"$ROOT/.bin/inst" -plain -repo "${VERIF_REPO:-/repo}" -out "$W/plain" -rt "$ROOT/engine/rt" > /dev/null
go build -race -tags verif -overlay "$W/plain/overlay.json" -o "$W/vcheck.race" ./cmd/vcheck
# the reference models' own tests (round trip over the corpus, byte vectors)
go test -count=1 ./wire/ > "$W/wire_test.log" 2>&1 || { cat "$W/wire_test.log"; echo "reference model self-test failed"; exit 1; }
echo setup ok
