//go:build verif

package bind

import (
	"fmt"
	"net"

	"github.com/contiv/libOpenflow/protocol"
	"github.com/contiv/libOpenflow/util"

	"verif/wire"
)

// Packet binding: model tree (kinds of engine/pkt) -> library value of package protocol, built the
// way a user of the library builds packets (constructors where they exist, exported fields).

func ipOf(b []byte) net.IP { return net.IP(cp(b)) }

// BuildPkt returns the library value for a packet tree.
func BuildPkt(n *wire.N) (any, error) {
	if n == nil {
		return nil, nil
	}
	switch n.K {
	case "opaque":
		return util.NewBuffer(cp(n.B["Data"])), nil
	case "eth":
		e := protocol.NewEthernet()
		e.HWDst = net.HardwareAddr(cp(n.B["HWDst"]))
		e.HWSrc = net.HardwareAddr(cp(n.B["HWSrc"]))
		if v := n.S["VLAN"]; v != nil {
			e.VLANID.PCP = uint8(v.U["PCP"])
			e.VLANID.DEI = uint8(v.U["DEI"])
			e.VLANID.VID = uint16(v.U["VID"])
		}
		e.Ethertype = uint16(n.U["Ethertype"])
		if d := n.S["Data"]; d != nil {
			p, err := BuildPkt(d)
			if err != nil {
				return nil, err
			}
			e.Data = p.(util.Message)
		}
		return e, nil
	case "vlan":
		v := protocol.NewVLAN()
		v.TPID = uint16(n.U["TPID"])
		v.PCP, v.DEI, v.VID = uint8(n.U["PCP"]), uint8(n.U["DEI"]), uint16(n.U["VID"])
		return v, nil
	case "arp":
		a, err := protocol.NewARP(int(n.U["Operation"]))
		if err != nil {
			a = new(protocol.ARP)
			a.Operation = uint16(n.U["Operation"])
		}
		a.HWType, a.ProtoType = uint16(n.U["HWType"]), uint16(n.U["ProtoType"])
		a.HWLength, a.ProtoLength = uint8(n.U["HWLength"]), uint8(n.U["ProtoLength"])
		a.HWSrc, a.HWDst = net.HardwareAddr(cp(n.B["HWSrc"])), net.HardwareAddr(cp(n.B["HWDst"]))
		a.IPSrc, a.IPDst = ipOf(n.B["IPSrc"]), ipOf(n.B["IPDst"])
		return a, nil
	case "ipv4":
		i := protocol.NewIPv4()
		i.Version, i.IHL, i.DSCP, i.ECN = uint8(n.U["Version"]), uint8(n.U["IHL"]), uint8(n.U["DSCP"]), uint8(n.U["ECN"])
		i.Length, i.Id, i.Flags, i.FragmentOffset = uint16(n.U["Length"]), uint16(n.U["Id"]), uint16(n.U["Flags"]), uint16(n.U["FragmentOffset"])
		i.TTL, i.Protocol, i.Checksum = uint8(n.U["TTL"]), uint8(n.U["Protocol"]), uint16(n.U["Checksum"])
		i.NWSrc, i.NWDst = ipOf(n.B["NWSrc"]), ipOf(n.B["NWDst"])
		if o := n.B["Options"]; len(o) > 0 {
			i.Options = *util.NewBuffer(cp(o))
		}
		if d := n.S["Data"]; d != nil {
			p, err := BuildPkt(d)
			if err != nil {
				return nil, err
			}
			i.Data = p.(util.Message)
		}
		return i, nil
	case "ipv6":
		i := new(protocol.IPv6)
		i.Version, i.TrafficClass, i.FlowLabel = uint8(n.U["Version"]), uint8(n.U["TrafficClass"]), uint32(n.U["FlowLabel"])
		i.Length, i.NextHeader, i.HopLimit = uint16(n.U["Length"]), uint8(n.U["NextHeader"]), uint8(n.U["HopLimit"])
		i.NWSrc, i.NWDst = ipOf(n.B["NWSrc"]), ipOf(n.B["NWDst"])
		for _, x := range n.L["Ext"] {
			p, err := BuildPkt(x)
			if err != nil {
				return nil, err
			}
			switch h := p.(type) {
			case *protocol.HopByHopHeader:
				i.HbhHeader = h
			case *protocol.RoutingHeader:
				i.RoutingHeader = h
			case *protocol.FragmentHeader:
				i.FragmentHeader = h
			}
		}
		if d := n.S["Data"]; d != nil {
			p, err := BuildPkt(d)
			if err != nil {
				return nil, err
			}
			i.Data = p.(util.Message)
		}
		return i, nil
	case "hbh":
		h := protocol.NewHopByHopHeader()
		h.NextHeader, h.HEL = uint8(n.U["NextHeader"]), uint8(n.U["HEL"])
		for _, o := range n.L["Options"] {
			p, _ := BuildPkt(o)
			h.Options = append(h.Options, p.(*protocol.Option))
		}
		return h, nil
	case "option":
		return &protocol.Option{Type: uint8(n.U["Type"]), Length: uint8(n.U["Length"]), Data: cp(n.B["Data"])}, nil
	case "routing":
		h := protocol.NewRoutingHeader()
		h.NextHeader, h.HEL, h.RoutingType, h.SegmentsLeft = uint8(n.U["NextHeader"]), uint8(n.U["HEL"]), uint8(n.U["RoutingType"]), uint8(n.U["SegmentsLeft"])
		h.Data = util.NewBuffer(cp(n.B["Data"]))
		return h, nil
	case "fragment":
		h := protocol.NewFragmentHeader()
		h.NextHeader, h.Reserved = uint8(n.U["NextHeader"]), uint8(n.U["Reserved"])
		h.FragmentOffset, h.MoreFragments, h.Identification = uint16(n.U["FragmentOffset"]), n.U["MoreFragments"] != 0, uint32(n.U["Identification"])
		return h, nil
	case "icmp":
		i := protocol.NewICMP()
		i.Type, i.Code, i.Checksum = uint8(n.U["Type"]), uint8(n.U["Code"]), uint16(n.U["Checksum"])
		i.Data = cp(n.B["Data"])
		return i, nil
	case "tcp":
		t := protocol.NewTCP()
		t.PortSrc, t.PortDst, t.SeqNum, t.AckNum = uint16(n.U["PortSrc"]), uint16(n.U["PortDst"]), uint32(n.U["SeqNum"]), uint32(n.U["AckNum"])
		t.HdrLen, t.Code, t.WinSize, t.Checksum, t.UrgFlag = uint8(n.U["HdrLen"]), uint8(n.U["Code"]), uint16(n.U["WinSize"]), uint16(n.U["Checksum"]), uint16(n.U["UrgFlag"])
		t.Data = cp(n.B["Data"])
		return t, nil
	case "udp":
		u := protocol.NewUDP()
		u.PortSrc, u.PortDst, u.Length, u.Checksum = uint16(n.U["PortSrc"]), uint16(n.U["PortDst"]), uint16(n.U["Length"]), uint16(n.U["Checksum"])
		u.Data = cp(n.B["Data"])
		return u, nil
	case "igmp12":
		return &protocol.IGMPv1or2{Type: uint8(n.U["Type"]), MaxResponseTime: uint8(n.U["MaxResponseTime"]), Checksum: uint16(n.U["Checksum"]), GroupAddress: ipOf(n.B["GroupAddress"])}, nil
	case "igmp3q":
		var src []net.IP
		for _, s := range n.L["SourceAddresses"] {
			src = append(src, ipOf(s.B["IP"]))
		}
		q := protocol.NewIGMPv3Query(ipOf(n.B["GroupAddress"]), uint8(n.U["MaxResponseTime"]), uint8(n.U["IntervalTime"]), src)
		q.Type, q.Checksum = uint8(n.U["Type"]), uint16(n.U["Checksum"])
		q.SuppressRouterProcessing, q.RobustnessValue = n.U["SuppressRouterProcessing"] != 0, uint8(n.U["RobustnessValue"])
		q.NumberOfSources = uint16(n.U["NumberOfSources"])
		return q, nil
	case "grouprec":
		var src []net.IP
		for _, s := range n.L["SourceAddresses"] {
			src = append(src, ipOf(s.B["IP"]))
		}
		g := protocol.NewGroupRecord(uint8(n.U["Type"]), ipOf(n.B["MulticastAddress"]), src)
		g.NumberOfSources, g.AuxDataLen = uint16(n.U["NumberOfSources"]), uint8(n.U["AuxDataLen"])
		for b := n.B["AuxData"]; len(b) >= 4; b = b[4:] {
			g.AuxData = append(g.AuxData, uint32(b[0])<<24|uint32(b[1])<<16|uint32(b[2])<<8|uint32(b[3]))
		}
		return &g, nil
	case "igmp3r":
		var recs []protocol.IGMPv3GroupRecord
		for _, r := range n.L["GroupRecords"] {
			p, _ := BuildPkt(r)
			recs = append(recs, *p.(*protocol.IGMPv3GroupRecord))
		}
		m := protocol.NewIGMPv3Report(recs)
		m.Type, m.Checksum, m.NumberOfGroups = uint8(n.U["Type"]), uint16(n.U["Checksum"]), uint16(n.U["NumberOfGroups"])
		return m, nil
	case "dhcp":
		xid := uint32(n.U["Xid"])
		if xid == 0 {
			xid = 1
		}
		d, err := protocol.NewDHCP(xid, protocol.DHCPOperation(n.U["Operation"]), protocol.DHCP_HW_ETHERNET)
		if err != nil {
			return nil, err
		}
		d.Xid = uint32(n.U["Xid"])
		d.HardwareType, d.HardwareLen, d.HardwareOpts = byte(n.U["HardwareType"]), uint8(n.U["HardwareLen"]), uint8(n.U["HardwareOpts"])
		d.Secs, d.Flags = uint16(n.U["Secs"]), uint16(n.U["Flags"])
		d.ClientIP, d.YourIP, d.ServerIP, d.GatewayIP = ipOf(n.B["ClientIP"]), ipOf(n.B["YourIP"]), ipOf(n.B["ServerIP"]), ipOf(n.B["GatewayIP"])
		hw := cp(n.B["ClientHWAddr"])
		if int(d.HardwareLen) <= len(hw) {
			hw = hw[:d.HardwareLen]
		}
		d.ClientHWAddr = net.HardwareAddr(hw)
		copy(d.ServerName[:], n.B["ServerName"])
		copy(d.File[:], n.B["File"])
		for _, o := range n.L["Options"] {
			d.Options = append(d.Options, protocol.DHCPNewOption(byte(o.U["Tag"]), cp(o.B["Data"])))
		}
		return d, nil
	case "lldp":
		l := new(protocol.LLDP)
		c, p, t := n.S["Chassis"], n.S["Port"], n.S["TTL"]
		l.Chassis = protocol.ChassisTLV{Type: uint8(c.U["Type"]), Length: uint16(1 + len(c.B["Data"])), Subtype: uint8(c.U["Subtype"]), Data: cp(c.B["Data"])}
		l.Port = protocol.PortTLV{Type: uint8(p.U["Type"]), Length: uint16(1 + len(p.B["Data"])), Subtype: uint8(p.U["Subtype"]), Data: cp(p.B["Data"])}
		l.TTL = protocol.TTLTLV{Type: uint8(t.U["Type"]), Length: 2, Seconds: uint16(t.U["Seconds"])}
		return l, nil
	}
	return nil, fmt.Errorf("no packet binding for kind %s", n.K)
}

// PktCodec gives uniform encode/decode/size access to a packet value: MarshalBinary/UnmarshalBinary
// for most kinds, Read/Write for DHCP and LLDP.
type PktCodec struct {
	Len    func() int
	Encode func() ([]byte, error)
	// Decode decodes b into a fresh value of the same kind and returns it.
	Decode func(b []byte) (any, error)
}

type rw interface {
	Read([]byte) (int, error)
	Write([]byte) (int, error)
	Len() uint16
}

// CodecOf returns the codec of a library packet value.
func CodecOf(v any, fresh func() any) PktCodec {
	if x, ok := v.(util.Message); ok {
		return PktCodec{
			Len:    func() int { return int(x.Len()) },
			Encode: x.MarshalBinary,
			Decode: func(b []byte) (any, error) {
				f := fresh().(util.Message)
				err := f.UnmarshalBinary(b)
				return f, err
			},
		}
	}
	if x, ok := v.(rw); ok {
		return PktCodec{
			Len: func() int { return int(x.Len()) },
			Encode: func() ([]byte, error) {
				buf := make([]byte, 4096)
				n, err := x.Read(buf)
				return buf[:n], err
			},
			Decode: func(b []byte) (any, error) {
				f := fresh().(rw)
				_, err := f.Write(b)
				return f, err
			},
		}
	}
	return PktCodec{}
}

// FreshPkt returns the receiver the library itself (or a user, through the constructor) would
// decode a header of the given kind into.
func FreshPkt(kind string) any {
	switch kind {
	case "opaque":
		return new(util.Buffer)
	case "eth":
		return new(protocol.Ethernet)
	case "vlan":
		return new(protocol.VLAN)
	case "arp":
		return new(protocol.ARP)
	case "ipv4":
		return new(protocol.IPv4)
	case "ipv6":
		return new(protocol.IPv6)
	case "hbh":
		return protocol.NewHopByHopHeader()
	case "option":
		return new(protocol.Option)
	case "routing":
		return protocol.NewRoutingHeader()
	case "fragment":
		return protocol.NewFragmentHeader()
	case "icmp":
		return protocol.NewICMP()
	case "tcp":
		return protocol.NewTCP()
	case "udp":
		return protocol.NewUDP()
	case "igmp12":
		return new(protocol.IGMPv1or2)
	case "igmp3q":
		return new(protocol.IGMPv3Query)
	case "grouprec":
		return new(protocol.IGMPv3GroupRecord)
	case "igmp3r":
		return new(protocol.IGMPv3MembershipReport)
	case "dhcp":
		return new(protocol.DHCP)
	case "lldp":
		return new(protocol.LLDP)
	}
	return nil
}
