//go:build verif

package bind

import (
	"fmt"
	"net"
	"reflect"

	of "github.com/contiv/libOpenflow/openflow13"

	"verif/wire"
)

// Hist selects one of the builder histories that lead to the same final list order:
// Pivot p means children p.. are appended in order and children p-1..0 are prepended (where the
// container has a prepend operation); Alt interleaves appends and prepends instead of doing all
// appends first. Variant selects among several constructors for the same match field.
type Hist struct {
	Pivot   int
	Alt     bool
	Variant int
	late    *lateState // per-call state of the nested-late history (Variant 3)
	// LenBetween calls Len() on the value under construction between builder steps (a size query
	// on an incomplete value must not disturb the completed one).
	LenBetween bool
	// LateGrow: a conntrack action is attached to its packet-out first and receives its nested
	// actions afterwards (the container must size and embed the child as it is when encoded).
	LateGrow bool
}

func u(n *wire.N, k string) uint64 { return n.U[k] }

func learnHeader(s *wire.N) (*of.NXLearnSpecHeader, error) {
	nb := uint16(u(s, "Nbits"))
	switch [2]uint64{u(s, "Src"), u(s, "Dst")} {
	case [2]uint64{1, 0}:
		return of.NewLearnHeaderMatchFromValue(nb), nil
	case [2]uint64{0, 0}:
		return of.NewLearnHeaderMatchFromField(nb), nil
	case [2]uint64{1, 1}:
		return of.NewLearnHeaderLoadFromValue(nb), nil
	case [2]uint64{0, 1}:
		return of.NewLearnHeaderLoadFromField(nb), nil
	case [2]uint64{0, 2}:
		return of.NewLearnHeaderOutputFromField(nb), nil
	}
	return nil, ErrNoAPI
}

// BuildAction builds a library action through its constructor.
func BuildAction(n *wire.N, h Hist) (of.Action, error) {
	if h.Variant != 3 {
		return buildAction(n, h)
	}
	top := h.late == nil
	if top {
		h.late = &lateState{}
	}
	h.late.depth++
	a, err := buildAction(n, h)
	h.late.depth--
	if top {
		h.late.drain()
	}
	return a, err
}

// Variant 3 is the "nested late" history: an action nested in a conntrack action is completed only
// after it was nested (NAT ranges set, inner conntrack actions added, after the outer AddAction), the
// way a caller does who builds top-down. lateState (one per top-level BuildAction call) holds the
// completions not yet made.
type lateState struct {
	depth int
	work  []func()
}

func (l *lateState) drain() {
	for len(l.work) > 0 {
		w := l.work
		l.work = nil
		for _, f := range w {
			f()
		}
	}
}

func buildAction(n *wire.N, h Hist) (of.Action, error) {
	switch n.K {
	case "act_output":
		a := of.NewActionOutput(uint32(u(n, "Port")))
		a.MaxLen = uint16(u(n, "MaxLen"))
		return a, nil
	case "act_set_queue":
		return of.NewActionSetQueue(uint32(u(n, "QueueId"))), nil
	case "act_group":
		return of.NewActionGroup(uint32(u(n, "GroupId"))), nil
	case "act_dec_nw_ttl":
		return of.NewActionDecNwTtl(), nil
	case "act_push_vlan":
		return of.NewActionPushVlan(uint16(u(n, "EtherType"))), nil
	case "act_push_mpls":
		return of.NewActionPushMpls(uint16(u(n, "EtherType"))), nil
	case "act_pop_vlan":
		return of.NewActionPopVlan(), nil
	case "act_pop_mpls":
		return of.NewActionPopMpls(uint16(u(n, "EtherType"))), nil
	case "act_copy_ttl_out", "act_copy_ttl_in", "act_dec_mpls_ttl", "act_pop_pbb":
		// no constructor: built as a literal of the exported type, the way a caller has to
		return &of.ActionHeaderOnly{ActionHeader: of.ActionHeader{Type: uint16(wire.ActionCodes.ByKind[n.K]), Length: 8}}, nil
	case "act_set_mpls_ttl":
		return &of.ActionMplsTtl{ActionHeader: of.ActionHeader{Type: of.ActionType_SetMplsTtl, Length: 8}, MplsTtl: uint8(u(n, "MplsTtl"))}, nil
	case "act_set_nw_ttl":
		return &of.ActionNwTtl{ActionHeader: of.ActionHeader{Type: of.ActionType_SetNwTtl, Length: 8}, NwTtl: uint8(u(n, "NwTtl"))}, nil
	case "act_push_pbb":
		return &of.ActionPush{ActionHeader: of.ActionHeader{Type: of.ActionType_PushPbb, Length: 8}, EtherType: uint16(u(n, "EtherType"))}, nil
	case "act_set_field":
		f, _, err := BuildOxm(n.S["Field"], h.Variant)
		if err == ErrNoAPI && h.Variant != 0 {
			f, _, err = BuildOxm(n.S["Field"], 0)
		}
		if err != nil {
			return nil, err
		}
		return of.NewActionSetField(*f), nil
	case "nx_resubmit":
		return of.NewNXActionResubmit(uint16(u(n, "InPort"))), nil
	case "nx_resubmit_table":
		return of.NewNXActionResubmitTableAction(uint16(u(n, "InPort")), uint8(u(n, "TableID"))), nil
	case "nx_ct_resubmit":
		if u(n, "InPort") == 0xfff8 && h.Variant == 1 {
			return of.NewNXActionResubmitTableCTNoInPort(uint8(u(n, "TableID"))), nil
		}
		return of.NewNXActionResubmitTableCT(uint16(u(n, "InPort")), uint8(u(n, "TableID"))), nil
	case "nx_reg_move":
		s, err := HeaderField(u(n, "SrcField"))
		if err != nil {
			return nil, err
		}
		d, err := HeaderField(u(n, "DstField"))
		if err != nil {
			return nil, err
		}
		return of.NewNXActionRegMove(uint16(u(n, "Nbits")), uint16(u(n, "SrcOfs")), uint16(u(n, "DstOfs")), s, d), nil
	case "nx_reg_load":
		d, err := HeaderField(u(n, "DstReg"))
		if err != nil {
			return nil, err
		}
		return of.NewNXActionRegLoad(uint16(u(n, "OfsNbits")), d, u(n, "Value")), nil
	case "nx_note":
		a := of.NewNXActionNote()
		a.Note = cp(n.B["Note"])
		return a, nil
	case "nx_output_reg":
		s, err := HeaderField(u(n, "SrcField"))
		if err != nil {
			return nil, err
		}
		if u(n, "MaxLen") == 0xffff && h.Variant == 0 {
			return of.NewOutputFromField(s, uint16(u(n, "OfsNbits"))), nil
		}
		return of.NewOutputFromFieldWithMaxLen(s, uint16(u(n, "OfsNbits")), uint16(u(n, "MaxLen"))), nil
	case "nx_learn":
		a := of.NewNXActionLearn()
		if err := setScalars(a, n); err != nil {
			return nil, err
		}
		for _, s := range n.L["LearnSpecs"] {
			hd, err := learnHeader(s)
			if err != nil {
				return nil, err
			}
			sp := &of.NXLearnSpec{Header: hd}
			if u(s, "Src") == 1 {
				sp.SrcValue = cp(s.B["SrcValue"])
			} else {
				f, err := HeaderField(u(s, "SrcField"))
				if err != nil {
					return nil, err
				}
				sp.SrcField = &of.NXLearnSpecField{Field: f, Ofs: uint16(u(s, "SrcOfs"))}
			}
			if u(s, "Dst") != 2 {
				f, err := HeaderField(u(s, "DstField"))
				if err != nil {
					return nil, err
				}
				sp.DstField = &of.NXLearnSpecField{Field: f, Ofs: uint16(u(s, "DstOfs"))}
			}
			a.LearnSpecs = append(a.LearnSpecs, sp)
		}
		return a, nil
	case "nx_dec_ttl":
		return of.NewNXActionDecTTL(), nil
	case "nx_ct_clear":
		return of.NewNXActionCTClear(), nil
	case "nx_controller":
		a := of.NewNXActionController(uint16(u(n, "ControllerID")))
		a.MaxLen = uint16(u(n, "MaxLen"))
		a.Reason = uint8(u(n, "Reason"))
		return a, nil
	case "nx_dec_ttl_cnt_ids":
		ids := n.B["cntIDs"]
		var l []uint16
		for i := 0; i+1 < len(ids); i += 2 {
			l = append(l, uint16(ids[i])<<8|uint16(ids[i+1]))
		}
		return of.NewNXActionDecTTLCntIDs(uint16(u(n, "controllers")), l...), nil
	case "nx_reg_load2":
		f, _, err := BuildOxm(n.S["DstField"], h.Variant)
		if err == ErrNoAPI && h.Variant != 0 {
			f, _, err = BuildOxm(n.S["DstField"], 0)
		}
		if err != nil {
			return nil, err
		}
		return of.NewNXActionRegLoad2(f), nil
	case "nx_conjunction":
		return of.NewNXActionConjunction(uint8(u(n, "Clause")), uint8(u(n, "NClause")), uint32(u(n, "ID"))), nil
	case "nx_ct":
		a := of.NewNXActionConnTrack()
		fl := u(n, "Flags")
		if fl&1 != 0 {
			a.Commit()
		}
		if fl&2 != 0 {
			a.Force()
		}
		if fl&^3 != 0 {
			a.Flags = uint16(fl)
		}
		a.Table(uint8(u(n, "RecircTable")))
		if h.Variant == 1 {
			// a zone given one way and then the other way: the later call decides
			if u(n, "ZoneSrc") == 0 {
				if f, err := HeaderField(0x00010204); err == nil {
					a.ZoneRange(f, of.NewNXRangeByOfsNBits(0, 16))
				}
			} else {
				a.ZoneImm(0x1234)
			}
		}
		if u(n, "ZoneSrc") == 0 {
			a.ZoneImm(uint16(u(n, "ZoneOfsNbits")))
		} else {
			f, err := HeaderField(u(n, "ZoneSrc"))
			if err != nil {
				return nil, err
			}
			w := u(n, "ZoneOfsNbits")
			a.ZoneRange(f, of.NewNXRangeByOfsNBits(int(w>>6), int(w&0x3f)+1))
		}
		a.Alg = uint16(u(n, "Alg"))
		var kids []of.Action
		for _, c := range n.L["Actions"] {
			ca, err := BuildAction(c, h)
			if err != nil {
				return nil, err
			}
			kids = append(kids, ca)
		}
		addKids := func() {
			if h.Alt {
				a.AddAction(kids...) // one variadic call
			} else {
				for _, ca := range kids {
					if h.LenBetween {
						a.Len()
					}
					a.AddAction(ca)
				}
			}
		}
		if h.Variant == 3 && h.late != nil && h.late.depth > 1 {
			// nested in another conntrack action: receives its own actions after it was nested
			h.late.work = append(h.late.work, addKids)
			return a, nil
		}
		addKids()
		if h.Variant == 3 && h.late != nil {
			h.late.drain() // the nested actions are completed now that they are nested
		}
		return a, nil
	case "nx_nat":
		a := of.NewNXActionCTNAT()
		fl := u(n, "Flags")
		if fl&1 != 0 {
			a.SetSNAT()
		}
		if fl&2 != 0 {
			a.SetDNAT()
		}
		if fl&4 != 0 {
			a.SetPersistent()
		}
		if fl&8 != 0 {
			a.SetProtoHash()
		}
		if fl&16 != 0 {
			a.SetRandom()
		}
		if uint64(a.Flags) != fl {
			a.Flags = uint16(fl)
		}
		if h.Variant == 1 {
			// the calls the API refuses (the counterpart of an accepted exclusive flag) are made as
			// well, their error ignored the way a caller that only logs it would: a refused call must
			// leave no trace in the value
			if fl&1 != 0 && fl&2 == 0 {
				a.SetDNAT()
			}
			if fl&2 != 0 && fl&1 == 0 {
				a.SetSNAT()
			}
			if fl&8 != 0 && fl&16 == 0 {
				a.SetRandom()
			}
			if fl&16 != 0 && fl&8 == 0 {
				a.SetProtoHash()
			}
		}
		// the six range setters, in the order given by the history (the result must not depend on it)
		type st struct {
			bit uint64
			f   func()
		}
		sets := []st{
			{1, func() { a.SetRangeIPv4Min(net.IP(cp(n.B["IPv4Min"]))) }},
			{2, func() { a.SetRangeIPv4Max(net.IP(cp(n.B["IPv4Max"]))) }},
			{4, func() { a.SetRangeIPv6Min(net.IP(cp(n.B["IPv6Min"]))) }},
			{8, func() { a.SetRangeIPv6Max(net.IP(cp(n.B["IPv6Max"]))) }},
			{16, func() { v := uint16(u(n, "ProtoMin")); a.SetRangeProtoMin(&v) }},
			{32, func() { v := uint16(u(n, "ProtoMax")); a.SetRangeProtoMax(&v) }},
		}
		var present []st
		for _, s := range sets {
			if u(n, "RangePresent")&s.bit != 0 {
				present = append(present, s)
			}
		}
		if h.Alt { // reverse order of setter calls
			for i, j := 0, len(present)-1; i < j; i, j = i+1, j-1 {
				present[i], present[j] = present[j], present[i]
			}
		}
		if k := len(present); k > 1 && h.Pivot > 0 { // rotate
			r := h.Pivot % k
			present = append(present[r:], present[:r]...)
		}
		if h.Variant == 3 && h.late != nil && h.late.depth > 1 {
			ranges := present
			h.late.work = append(h.late.work, func() {
				for _, s := range ranges {
					s.f()
				}
			})
			return a, nil
		}
		for _, s := range present {
			s.f()
			if h.LenBetween {
				a.Len() // a container the action is already attached to asks for its size between two setter calls
			}
			if h.Variant == 2 {
				s.f() // a range that is set again replaces the earlier one
			}
		}
		return a, nil
	}
	return nil, ErrNoAPI
}

// addList adds children to a container according to the history; prepend may be nil.
func addList[T any](kids []T, h Hist, appendF func(T), prependF func(T), between func()) {
	p := h.Pivot
	if prependF == nil || p > len(kids) {
		p = 0
	}
	if p > len(kids) {
		p = len(kids)
	}
	apps := kids[p:]
	var pres []T
	for i := p - 1; i >= 0; i-- {
		pres = append(pres, kids[i])
	}
	step := func(f func(T), x T) {
		f(x)
		if between != nil {
			between()
		}
	}
	if !h.Alt {
		for _, k := range apps {
			step(appendF, k)
		}
		for _, k := range pres {
			step(prependF, k)
		}
		return
	}
	for len(apps) > 0 || len(pres) > 0 {
		if len(pres) > 0 {
			step(prependF, pres[0])
			pres = pres[1:]
		}
		if len(apps) > 0 {
			step(appendF, apps[0])
			apps = apps[1:]
		}
	}
}

// BuildInstr builds a library instruction.
func BuildInstr(n *wire.N, h Hist) (of.Instruction, error) {
	switch n.K {
	case "instr_goto_table":
		return of.NewInstrGotoTable(uint8(u(n, "TableId"))), nil
	case "instr_write_metadata":
		return of.NewInstrWriteMetadata(u(n, "Metadata"), u(n, "MetadataMask")), nil
	case "instr_meter":
		// no constructor: built as a literal of the exported type
		return &of.InstrMeter{InstrHeader: of.InstrHeader{Type: of.InstrType_METER, Length: 8}, MeterId: uint32(u(n, "MeterId"))}, nil
	case "instr_write_actions", "instr_apply_actions", "instr_clear_actions":
		var in *of.InstrActions
		switch n.K {
		case "instr_write_actions":
			in = of.NewInstrWriteActions()
		case "instr_apply_actions":
			in = of.NewInstrApplyActions()
		default:
			// no constructor: the action-list instruction type with the clear-actions code
			in = of.NewInstrWriteActions()
			in.Type = of.InstrType_CLEAR_ACTIONS
		}
		if h.LateGrow {
			// every conntrack action that is followed by another action is attached bare, receives
			// its nested actions afterwards, and the remaining actions are added after that
			kids := n.L["Actions"]
			for i, c := range kids {
				if c.K == "nx_ct" && len(c.L["Actions"]) > 0 && i < len(kids)-1 {
					bare := c.Clone()
					delete(bare.L, "Actions")
					a, err := BuildAction(bare, Hist{})
					if err != nil {
						return nil, err
					}
					in.AddAction(a, false)
					ct := a.(*of.NXActionConnTrack)
					for _, k := range c.L["Actions"] {
						ka, err := BuildAction(k, Hist{})
						if err != nil {
							return nil, err
						}
						ct.AddAction(ka)
					}
					continue
				}
				a, err := BuildAction(c, Hist{})
				if err != nil {
					return nil, err
				}
				in.AddAction(a, false)
			}
			return in, nil
		}
		var acts []of.Action
		for _, c := range n.L["Actions"] {
			a, err := BuildAction(c, h)
			if err != nil {
				return nil, err
			}
			acts = append(acts, a)
		}
		var between func()
		if h.LenBetween {
			between = func() { in.Len() }
		}
		addList(acts, h, func(a of.Action) { in.AddAction(a, false) }, func(a of.Action) { in.AddAction(a, true) }, between)
		return in, nil
	}
	return nil, ErrNoAPI
}

// BuildBucket builds a library bucket.
func BuildBucket(n *wire.N, h Hist) (*of.Bucket, error) {
	b := of.NewBucket()
	b.Weight = uint16(u(n, "Weight"))
	b.WatchPort = uint32(u(n, "WatchPort"))
	b.WatchGroup = uint32(u(n, "WatchGroup"))
	for _, c := range n.L["Actions"] {
		a, err := BuildAction(c, h)
		if err != nil {
			return nil, err
		}
		if h.LenBetween {
			b.Len()
		}
		b.AddAction(a)
	}
	return b, nil
}

// ---- extraction ------------------------------------------------------------------------------

var actionKindByType = map[string]string{}

// ExtractAction reads a library action into the model vocabulary. The kind is decided by the
// dynamic Go type and, where one Go type serves several codes, by the type/subtype it carries.
func ExtractAction(a of.Action) (*wire.N, error) {
	if a == nil || reflect.ValueOf(a).IsNil() {
		return nil, fmt.Errorf("action is nil")
	}
	hdr := a.Header()
	codeKind := func() string { return wire.ActionCodes.ByCode[uint64(hdr.Type)] }
	n := wire.New("")
	switch v := a.(type) {
	case *of.ActionOutput:
		n.K = "act_output"
		n.Set("Port", uint64(v.Port)).Set("MaxLen", uint64(v.MaxLen))
	case *of.ActionHeader:
		n.K = codeKind()
	case *of.ActionHeaderOnly:
		switch k := codeKind(); k {
		case "act_copy_ttl_out", "act_copy_ttl_in", "act_dec_mpls_ttl", "act_pop_pbb":
			n.K = k
		default:
			return nil, fmt.Errorf("header-only action type carries code %d", hdr.Type)
		}
	case *of.ActionSetqueue:
		n.K = "act_set_queue"
		n.Set("QueueId", uint64(v.QueueId))
	case *of.ActionGroup:
		n.K = "act_group"
		n.Set("GroupId", uint64(v.GroupId))
	case *of.ActionMplsTtl:
		n.K = "act_set_mpls_ttl"
		n.Set("MplsTtl", uint64(v.MplsTtl))
	case *of.ActionNwTtl:
		n.K = "act_set_nw_ttl"
		n.Set("NwTtl", uint64(v.NwTtl))
	case *of.ActionDecNwTtl:
		n.K = "act_dec_nw_ttl"
	case *of.ActionPush:
		n.K = codeKind()
		n.Set("EtherType", uint64(v.EtherType))
	case *of.ActionPopVlan:
		n.K = "act_pop_vlan"
	case *of.ActionPopMpls:
		n.K = "act_pop_mpls"
		n.Set("EtherType", uint64(v.EtherType))
	case *of.ActionSetField:
		n.K = "act_set_field"
		f, err := ExtractOxm(&v.Field)
		if err != nil {
			return nil, err
		}
		n.SetS("Field", f)
	case *of.NXActionResubmit:
		n.K = "nx_resubmit"
		n.Set("InPort", uint64(v.InPort))
	case *of.NXActionResubmitTable:
		n.K = "nx_resubmit_table"
		if v.IsCT() {
			n.K = "nx_ct_resubmit"
		}
		n.Set("InPort", uint64(v.InPort)).Set("TableID", uint64(v.TableID))
	case *of.NXActionRegMove:
		n.K = "nx_reg_move"
		n.Set("Nbits", uint64(v.Nbits)).Set("SrcOfs", uint64(v.SrcOfs)).Set("DstOfs", uint64(v.DstOfs))
		n.Set("SrcField", HeaderWordOf(v.SrcField)).Set("DstField", HeaderWordOf(v.DstField))
	case *of.NXActionRegLoad:
		n.K = "nx_reg_load"
		n.Set("OfsNbits", uint64(v.OfsNbits)).Set("DstReg", HeaderWordOf(v.DstReg)).Set("Value", v.Value)
	case *of.NXActionNote:
		n.K = "nx_note"
		n.SetB("Note", v.Note)
	case *of.NXActionOutputReg:
		n.K = "nx_output_reg"
		n.Set("OfsNbits", uint64(v.OfsNbits)).Set("SrcField", HeaderWordOf(v.SrcField)).Set("MaxLen", uint64(v.MaxLen))
	case *of.NXActionLearn:
		n.K = "nx_learn"
		n.Set("IdleTimeout", uint64(v.IdleTimeout)).Set("HardTimeout", uint64(v.HardTimeout)).Set("Priority", uint64(v.Priority)).
			Set("Cookie", v.Cookie).Set("Flags", uint64(v.Flags)).Set("TableID", uint64(v.TableID)).
			Set("FinIdleTimeout", uint64(v.FinIdleTimeout)).Set("FinHardTimeout", uint64(v.FinHardTimeout))
		for _, s := range v.LearnSpecs {
			sn := wire.New("learn_spec")
			h := s.Header
			b2u := func(name string) uint64 {
				if field(h, name).Bool() {
					return 1
				}
				return 0
			}
			sn.Set("Nbits", field(h, "nBits").Uint()).Set("Src", b2u("src"))
			dst := b2u("dst")
			if b2u("output") == 1 {
				dst = 2
			}
			sn.Set("Dst", dst)
			if sn.U["Src"] == 1 {
				sn.SetB("SrcValue", s.SrcValue)
			} else if s.SrcField != nil {
				sn.Set("SrcField", HeaderWordOf(s.SrcField.Field)).Set("SrcOfs", uint64(s.SrcField.Ofs))
			}
			if dst != 2 && s.DstField != nil {
				sn.Set("DstField", HeaderWordOf(s.DstField.Field)).Set("DstOfs", uint64(s.DstField.Ofs))
			}
			n.Add("LearnSpecs", sn)
		}
	case *of.NXActionDecTTL:
		n.K = "nx_dec_ttl"
	case *of.NXActionCTClear:
		n.K = "nx_ct_clear"
	case *of.NXActionController:
		n.K = "nx_controller"
		n.Set("MaxLen", uint64(v.MaxLen)).Set("ControllerID", uint64(v.ControllerID)).Set("Reason", uint64(v.Reason))
	case *of.NXActionDecTTLCntIDs:
		n.K = "nx_dec_ttl_cnt_ids"
		n.Set("controllers", field(v, "controllers").Uint())
		ids := field(v, "cntIDs")
		var b []byte
		for i := 0; i < ids.Len(); i++ {
			b = append(b, be(ids.Index(i).Uint(), 2)...)
		}
		n.SetB("cntIDs", b)
	case *of.NXActionRegLoad2:
		n.K = "nx_reg_load2"
		if v.DstField == nil {
			return nil, fmt.Errorf("reg_load2 without field")
		}
		f, err := ExtractOxm(v.DstField)
		if err != nil {
			return nil, err
		}
		n.SetS("DstField", f)
	case *of.NXActionConjunction:
		n.K = "nx_conjunction"
		n.Set("Clause", uint64(v.Clause)).Set("NClause", uint64(v.NClause)).Set("ID", uint64(v.ID))
	case *of.NXActionConnTrack:
		n.K = "nx_ct"
		n.Set("Flags", uint64(v.Flags)).Set("ZoneSrc", uint64(v.ZoneSrc)).Set("ZoneOfsNbits", uint64(v.ZoneOfsNbits)).
			Set("RecircTable", uint64(v.RecircTable)).Set("Alg", uint64(v.Alg))
		acts := field(v, "actions")
		for i := 0; i < acts.Len(); i++ {
			ai, ok := unexportedIface(acts.Index(i)).(of.Action)
			if !ok {
				return nil, fmt.Errorf("conntrack nested action %d is not an action", i)
			}
			c, err := ExtractAction(ai)
			if err != nil {
				return nil, err
			}
			n.Add("Actions", c)
		}
	case *of.NXActionCTNAT:
		n.K = "nx_nat"
		n.Set("Flags", uint64(v.Flags)).Set("RangePresent", field(v, "rangePresent").Uint())
		for _, p := range [][2]string{{"rangeIPv4Min", "IPv4Min"}, {"rangeIPv4Max", "IPv4Max"}, {"rangeIPv6Min", "IPv6Min"}, {"rangeIPv6Max", "IPv6Max"}} {
			f := field(v, p[0])
			if f.Len() > 0 {
				w := 16
				if p[1][3] == '4' {
					w = 4
				}
				b, _ := valueBytes(f, w)
				n.SetB(p[1], b)
			}
		}
		for _, p := range [][2]string{{"rangeProtoMin", "ProtoMin"}, {"rangeProtoMax", "ProtoMax"}} {
			f := field(v, p[0])
			if !f.IsNil() {
				n.Set(p[1], f.Elem().Uint())
			}
		}
	default:
		return nil, fmt.Errorf("no extractor for action type %T", a)
	}
	if n.K == "" {
		return nil, fmt.Errorf("action %T carries undefined type code %#x", a, hdr.Type)
	}
	return n, nil
}

// ExtractInstr reads a library instruction.
func ExtractInstr(in of.Instruction) (*wire.N, error) {
	if in == nil || reflect.ValueOf(in).IsNil() {
		return nil, fmt.Errorf("instruction is nil")
	}
	n := wire.New("")
	switch v := in.(type) {
	case *of.InstrGotoTable:
		n.K = "instr_goto_table"
		n.Set("TableId", uint64(v.TableId))
	case *of.InstrWriteMetadata:
		n.K = "instr_write_metadata"
		n.Set("Metadata", v.Metadata).Set("MetadataMask", v.MetadataMask)
	case *of.InstrActions:
		n.K = wire.InstrCodes.ByCode[uint64(v.Type)]
		for i, a := range v.Actions {
			c, err := ExtractAction(a)
			if err != nil {
				return nil, fmt.Errorf("action %d: %v", i, err)
			}
			n.Add("Actions", c)
		}
	case *of.InstrMeter:
		n.K = "instr_meter"
		n.Set("MeterId", uint64(v.MeterId))
	default:
		return nil, fmt.Errorf("no extractor for instruction type %T", in)
	}
	if n.K == "" {
		return nil, fmt.Errorf("instruction %T carries an undefined type code", in)
	}
	return n, nil
}

// ExtractBucket reads a library bucket.
func ExtractBucket(b *of.Bucket) (*wire.N, error) {
	n := wire.New("bucket")
	n.Set("Weight", uint64(b.Weight)).Set("WatchPort", uint64(b.WatchPort)).Set("WatchGroup", uint64(b.WatchGroup))
	for i, a := range b.Actions {
		c, err := ExtractAction(a)
		if err != nil {
			return nil, fmt.Errorf("action %d: %v", i, err)
		}
		n.Add("Actions", c)
	}
	return n, nil
}
