//go:build verif

package bind

import (
	"reflect"
	"unsafe"
)

// unexportedIface returns the interface value held in an unexported field (read-only use).
func unexportedIface(v reflect.Value) any {
	if v.CanInterface() {
		return v.Interface()
	}
	if !v.CanAddr() {
		c := reflect.New(v.Type()).Elem()
		// reflect refuses Set from an unexported value; copy through unsafe
		return reflect.NewAt(v.Type(), unsafe.Pointer(reflect.ValueOf(&c).Elem().UnsafeAddr())).Elem().Interface()
	}
	return reflect.NewAt(v.Type(), unsafe.Pointer(v.UnsafeAddr())).Elem().Interface()
}
