//go:build verif

package bind

import (
	"bytes"
	"encoding/binary"
	"fmt"
	"reflect"

	"github.com/contiv/libOpenflow/common"
	of "github.com/contiv/libOpenflow/openflow13"
	"github.com/contiv/libOpenflow/util"

	"verif/wire"
)

func plainHeader(t uint8) *common.Header {
	h := of.NewOfp13Header()
	h.Type = t
	return &h
}

// BuildMsg builds a top-level message through the public API. The transaction id comes from the
// library's generator (the model's Xid is ignored on this path).
func BuildMsg(n *wire.N, h Hist) (util.Message, error) {
	switch n.K {
	case "hello":
		m, err := common.NewHello(4)
		if err != nil {
			return nil, err
		}
		// the API has no adder for hello elements: anything but the default element list is set
		// through the exported fields, the way NewHelloElemVersionBitmap itself fills them
		els, isDefault := n.L["Elements"], false
		if len(els) == 1 && els[0].K == "hello_elem_versionbitmap" && bytes.Equal(els[0].B["Bitmaps"], []byte{0, 0, 0, 0x12}) {
			isDefault = true
		}
		if !isDefault {
			m.Elements = m.Elements[:0]
			for _, e := range els {
				if e.K != "hello_elem_versionbitmap" {
					return nil, ErrNoAPI
				}
				el := common.NewHelloElemVersionBitmap()
				el.Bitmaps = el.Bitmaps[:0]
				bm := e.B["Bitmaps"]
				for i := 0; i+4 <= len(bm); i += 4 {
					el.Bitmaps = append(el.Bitmaps, binary.BigEndian.Uint32(bm[i:]))
				}
				el.Length = 4 + uint16(4*len(el.Bitmaps))
				m.Elements = append(m.Elements, el)
			}
		}
		return m, nil
	case "echo_request":
		return of.NewEchoRequest(), nil
	case "echo_reply":
		return of.NewEchoReply(), nil
	case "features_request":
		return of.NewFeaturesRequest(), nil
	case "get_config_request":
		return of.NewConfigRequest(), nil
	case "barrier_request":
		return plainHeader(of.Type_BarrierRequest), nil
	case "set_config":
		m := of.NewSetConfig()
		m.Flags = uint16(u(n, "Flags"))
		m.MissSendLen = uint16(u(n, "MissSendLen"))
		return m, nil
	case "flow_mod":
		m := of.NewFlowMod()
		if err := setScalars(m, n); err != nil {
			return nil, err
		}
		if h.Variant == 1 {
			// the command is decided last (a flow-mod built as an add and then sent as a modify or a
			// delete): the adders see the constructor's command
			m.Command = of.NewFlowMod().Command
			defer func() { m.Command = uint8(u(n, "Command")) }()
		}
		if h.LenBetween {
			m.Len()
		}
		if err := BuildMatchInto(&m.Match, n.S["Match"], h.Variant); err != nil {
			return nil, err
		}
		for _, c := range n.L["Instructions"] {
			in, err := BuildInstr(c, h)
			if err != nil {
				return nil, err
			}
			if h.LenBetween {
				m.Len()
			}
			m.AddInstruction(in)
		}
		return m, nil
	case "group_mod":
		m := of.NewGroupMod()
		if err := setScalars(m, n); err != nil {
			return nil, err
		}
		if h.Variant == 1 {
			// command and type are decided last: the adders see the constructor's values
			fresh := of.NewGroupMod()
			m.Command, m.Type = fresh.Command, fresh.Type
			defer func() { m.Command, m.Type = uint16(u(n, "Command")), uint8(u(n, "Type")) }()
		}
		for _, c := range n.L["Buckets"] {
			b, err := BuildBucket(c, h)
			if err != nil {
				return nil, err
			}
			if h.LenBetween {
				m.Len()
			}
			m.AddBucket(*b)
		}
		return m, nil
	case "packet_out":
		m := of.NewPacketOut()
		m.BufferId = uint32(u(n, "BufferId"))
		m.InPort = uint32(u(n, "InPort"))
		setData := func() {
			if d, ok := n.B["Data"]; ok {
				m.SetData(cp(d))
			}
		}
		if !h.Alt {
			setData()
		}
		for _, c := range n.L["Actions"] {
			if h.LateGrow && c.K == "nx_ct" && len(c.L["Actions"]) > 0 {
				bare := c.Clone()
				delete(bare.L, "Actions")
				a, err := BuildAction(bare, h)
				if err != nil {
					return nil, err
				}
				m.AddAction(a)
				ct := a.(*of.NXActionConnTrack)
				for _, k := range c.L["Actions"] {
					ka, err := BuildAction(k, h)
					if err != nil {
						return nil, err
					}
					ct.AddAction(ka)
				}
				continue
			}
			a, err := BuildAction(c, h)
			if err != nil {
				return nil, err
			}
			if h.LenBetween {
				m.Len()
			}
			m.AddAction(a)
		}
		if h.Alt {
			setData()
		}
		return m, nil
	case "port_mod":
		m := of.NewPortMod(int(u(n, "PortNo")))
		if err := setScalars(m, n, "PortNo"); err != nil {
			return nil, err
		}
		return m, nil
	case "multipart_request":
		m := &of.MultipartRequest{Header: of.NewOfp13Header(), Type: uint16(u(n, "Type")), Flags: uint16(u(n, "Flags"))}
		m.Header.Type = of.Type_MultiPartRequest
		b := n.S["Body"]
		switch u(n, "Type") {
		case 1:
			r := of.NewFlowStatsRequest()
			if b != nil {
				if err := setScalars(r, b); err != nil {
					return nil, err
				}
				if err := BuildMatchInto(&r.Match, b.S["Match"], h.Variant); err != nil {
					return nil, err
				}
			}
			m.Body = r
		case 2:
			r := of.NewAggregateStatsRequest()
			if b != nil {
				if err := setScalars(r, b); err != nil {
					return nil, err
				}
				if err := BuildMatchInto(&r.Match, b.S["Match"], h.Variant); err != nil {
					return nil, err
				}
			}
			m.Body = r
		case 4:
			r := of.NewPortStatsRequest()
			if b != nil {
				if err := setScalars(r, b); err != nil {
					return nil, err
				}
			}
			m.Body = r
		case 5:
			r := of.NewQueueStatsRequest()
			if b != nil {
				if err := setScalars(r, b); err != nil {
					return nil, err
				}
			}
			m.Body = r
		}
		return m, nil
	case "experimenter":
		vd := n.S["VendorData"]
		switch [2]uint64{u(n, "Vendor"), u(n, "ExperimenterType")} {
		case [2]uint64{wire.NXVendor, 20}:
			return of.NewSetControllerID(uint16(u(vd, "ID"))), nil
		case [2]uint64{wire.NXVendor, 24}:
			var maps []*of.TLVTableMap
			for _, t := range vd.L["TlvMaps"] {
				tm := &of.TLVTableMap{}
				if err := setScalars(tm, t); err != nil {
					return nil, err
				}
				maps = append(maps, tm)
			}
			return of.NewTLVTableModMessage(of.NewTLVTableMod(uint16(u(vd, "Command")), maps)), nil
		case [2]uint64{wire.NXVendor, 25}:
			return of.NewTLVTableRequest(), nil
		case [2]uint64{wire.ONFVendor, 2300}:
			if len(vd.L["Properties"]) > 0 {
				return nil, ErrNoAPI
			}
			return of.NewBundleControl(&of.BundleControl{BundleID: uint32(u(vd, "BundleID")), Type: uint16(u(vd, "Type")), Flags: uint16(u(vd, "Flags"))}), nil
		case [2]uint64{wire.ONFVendor, 2301}:
			inner, err := BuildMsg(vd.S["Message"], h)
			if err != nil {
				return nil, err
			}
			ba := &of.BundleAdd{BundleID: uint32(u(vd, "BundleID")), Flags: uint16(u(vd, "Flags")), Message: inner}
			if h.Variant == 1 && len(vd.L["Properties"]) == 0 {
				ba.Properties = []of.BundlePropertyExperimenter{} // a property list that is empty but not nil
			}
			for _, pr := range vd.L["Properties"] {
				if len(pr.B["Data"]) > 0 {
					return nil, ErrNoAPI // the property's data has no exported field or setter
				}
				p := of.NewBundlePropertyExperimenter()
				p.ExperimenterID, p.ExperimenterType = uint32(u(pr, "ExperimenterID")), uint32(u(pr, "ExperimenterType"))
				p.Length = p.Len()
				ba.Properties = append(ba.Properties, *p)
			}
			return of.NewBundleAdd(ba), nil
		}
	// switch-originated kinds the library also has constructors for (used by the round-trip checks)
	case "features_reply":
		m := of.NewFeaturesReply()
		if err := setScalars(m, n); err != nil {
			return nil, err
		}
		return m, nil
	case "get_config_reply":
		m := of.NewSetConfig()
		m.Header.Type = of.Type_GetConfigReply
		m.Flags = uint16(u(n, "Flags"))
		m.MissSendLen = uint16(u(n, "MissSendLen"))
		return m, nil
	case "flow_removed":
		m := of.NewFlowRemoved()
		m.Header.Type = of.Type_FlowRemoved
		if err := setScalars(m, n); err != nil {
			return nil, err
		}
		if err := BuildMatchInto(&m.Match, n.S["Match"], h.Variant); err != nil {
			return nil, err
		}
		return m, nil
	case "port_status":
		m := of.NewPortStatus()
		m.Header.Type = of.Type_PortStatus
		m.Reason = uint8(u(n, "Reason"))
		if d := n.S["Desc"]; d != nil {
			if err := setScalars(&m.Desc, d); err != nil {
				return nil, err
			}
		}
		return m, nil
	case "error":
		m := of.NewErrorMsg()
		m.Header = of.NewOfp13Header()
		m.Header.Type = of.Type_Error
		m.Type = uint16(u(n, "Type"))
		m.Code = uint16(u(n, "Code"))
		m.Data = *util.NewBuffer(cp(n.B["Data"]))
		return m, nil
	case "error_exp":
		m := of.NewBundleError()
		m.Header.Type = of.Type_Error
		m.Code = uint16(u(n, "Code"))
		m.ExperimenterID = uint32(u(n, "ExperimenterID"))
		m.Data = *util.NewBuffer(cp(n.B["Data"]))
		return m, nil
	case "packet_in":
		m := of.NewPacketIn()
		if err := setScalars(m, n, "Data"); err != nil {
			return nil, err
		}
		if err := BuildMatchInto(&m.Match, n.S["Match"], h.Variant); err != nil {
			return nil, err
		}
		if d := n.B["Data"]; len(d) > 0 {
			if err := m.Data.UnmarshalBinary(cp(d)); err != nil {
				return nil, ErrNoAPI
			}
		}
		return m, nil
	}
	return nil, ErrNoAPI
}

// ---- extraction of parsed messages -----------------------------------------------------------

func hdrOf(m util.Message) *common.Header {
	v := reflect.ValueOf(m)
	for v.Kind() == reflect.Ptr {
		if v.IsNil() {
			return nil
		}
		v = v.Elem()
	}
	if v.Type() == reflect.TypeOf(common.Header{}) {
		return v.Addr().Interface().(*common.Header)
	}
	if v.Kind() != reflect.Struct {
		return nil
	}
	f := v.FieldByName("Header")
	if f.IsValid() && f.Type() == reflect.TypeOf(common.Header{}) && f.CanAddr() {
		return f.Addr().Interface().(*common.Header)
	}
	if e := v.FieldByName("ErrorMsg"); e.IsValid() && e.Kind() == reflect.Ptr && !e.IsNil() {
		return &e.Interface().(*of.ErrorMsg).Header
	}
	return nil
}

// HeaderOf returns the OpenFlow header of a top-level library message (nil if it has none).
func HeaderOf(m util.Message) *common.Header { return hdrOf(m) }

func extractMatchInto(n *wire.N, m *of.Match) error {
	mn, err := ExtractMatch(m)
	if err != nil {
		return err
	}
	n.SetS("Match", mn)
	return nil
}

// ExtractMsg reads a parsed top-level message into the model vocabulary (through exported
// fields). The kind is derived from the dynamic Go type and the header type code.
func ExtractMsg(m util.Message) (*wire.N, error) {
	if m == nil || (reflect.ValueOf(m).Kind() == reflect.Ptr && reflect.ValueOf(m).IsNil()) {
		return nil, fmt.Errorf("message is nil")
	}
	hd := hdrOf(m)
	if hd == nil {
		return nil, fmt.Errorf("message %T has no header", m)
	}
	kind := wire.MsgCodes.ByCode[uint64(hd.Type)]
	n := wire.New(kind)
	n.Set("Xid", uint64(hd.Xid))
	if hd.Version != 4 {
		n.Set("Version", uint64(hd.Version))
	}
	wrong := func() (*wire.N, error) {
		return nil, fmt.Errorf("header type %d (%s) was parsed into a %T", hd.Type, kind, m)
	}
	switch v := m.(type) {
	case *common.Header:
		switch kind {
		case "echo_request", "echo_reply", "features_request", "get_config_request", "barrier_request", "barrier_reply":
		default:
			return wrong()
		}
	case *common.Hello:
		if kind != "hello" {
			return wrong()
		}
		for _, e := range v.Elements {
			switch ev := e.(type) {
			case *common.HelloElemVersionBitmap:
				en := wire.New("hello_elem_versionbitmap")
				en.Set("Type", uint64(ev.Type))
				var b []byte
				for _, w := range ev.Bitmaps {
					b = append(b, be(uint64(w), 4)...)
				}
				en.SetB("Bitmaps", b)
				n.Add("Elements", en)
			default:
				return nil, fmt.Errorf("hello element %T", e)
			}
		}
	case *of.ErrorMsg:
		if kind != "error" {
			return wrong()
		}
		n.Set("Type", uint64(v.Type)).Set("Code", uint64(v.Code))
		n.SetB("Data", bufBytes(reflect.ValueOf(&v.Data).Elem()))
	case *of.VendorError:
		if kind != "error" {
			return wrong()
		}
		n.K = "error_exp"
		n.Set("Type", uint64(v.Type)).Set("Code", uint64(v.Code)).Set("ExperimenterID", uint64(v.ExperimenterID))
		n.SetB("Data", bufBytes(reflect.ValueOf(&v.Data).Elem()))
	case *of.SwitchFeatures:
		if kind != "features_reply" {
			return wrong()
		}
		getScalars(v, n)
	case *of.SwitchConfig:
		if kind != "get_config_reply" && kind != "set_config" {
			return wrong()
		}
		getScalars(v, n)
	case *of.PacketIn:
		if kind != "packet_in" {
			return wrong()
		}
		getScalars(v, n)
		if err := extractMatchInto(n, &v.Match); err != nil {
			return nil, err
		}
		// the payload is compared as bytes: re-encoded by the library's packet encoder (C09's subject)
		d, err := safeMarshal(&v.Data)
		if err != nil {
			return nil, fmt.Errorf("payload: %v", err)
		}
		if v.Data.HWDst == nil && v.Data.Data == nil {
			d = nil
		}
		n.SetB("Data", d)
	case *of.FlowRemoved:
		if kind != "flow_removed" {
			return wrong()
		}
		getScalars(v, n)
		if err := extractMatchInto(n, &v.Match); err != nil {
			return nil, err
		}
	case *of.PortStatus:
		if kind != "port_status" {
			return wrong()
		}
		n.Set("Reason", uint64(v.Reason))
		d := wire.New("port")
		getScalars(&v.Desc, d)
		n.SetS("Desc", d)
	case *of.FlowMod:
		if kind != "flow_mod" {
			return wrong()
		}
		getScalars(v, n)
		if err := extractMatchInto(n, &v.Match); err != nil {
			return nil, err
		}
		for i, in := range v.Instructions {
			c, err := ExtractInstr(in)
			if err != nil {
				return nil, fmt.Errorf("instruction %d: %v", i, err)
			}
			n.Add("Instructions", c)
		}
	case *of.MultipartRequest:
		if kind != "multipart_request" {
			return wrong()
		}
		n.Set("Type", uint64(v.Type)).Set("Flags", uint64(v.Flags))
	case *of.MultipartReply:
		if kind != "multipart_reply" {
			return wrong()
		}
		n.Set("Type", uint64(v.Type)).Set("Flags", uint64(v.Flags))
		for i, r := range v.Body {
			c, err := extractStats(r)
			if err != nil {
				return nil, fmt.Errorf("record %d: %v", i, err)
			}
			n.Add("Body", c)
		}
	case *of.VendorHeader:
		if kind != "experimenter" {
			return wrong()
		}
		n.Set("Vendor", uint64(v.Vendor)).Set("ExperimenterType", uint64(v.ExperimenterType))
		if v.VendorData != nil {
			c, err := extractVendor(v.VendorData)
			if err != nil {
				return nil, err
			}
			n.SetS("VendorData", c)
		}
	default:
		return nil, fmt.Errorf("no extractor for message type %T", m)
	}
	return n, nil
}

func SafeMarshal(m util.Message) ([]byte, error) { return safeMarshal(m) }

func safeMarshal(m util.Message) (b []byte, err error) {
	defer func() {
		if r := recover(); r != nil {
			err = fmt.Errorf("encoder panicked: %v", r)
		}
	}()
	return m.MarshalBinary()
}

func extractStats(r util.Message) (*wire.N, error) {
	if r == nil || reflect.ValueOf(r).IsNil() {
		return nil, fmt.Errorf("record is nil")
	}
	n := wire.New("")
	switch v := r.(type) {
	case *of.DescStats:
		n.K = "desc_stats"
		getScalars(v, n)
	case *of.FlowStats:
		n.K = "flow_stats"
		getScalars(v, n, "Length")
		if err := extractMatchInto(n, &v.Match); err != nil {
			return nil, err
		}
		for i, in := range v.Instructions {
			c, err := ExtractInstr(in)
			if err != nil {
				return nil, fmt.Errorf("instruction %d: %v", i, err)
			}
			n.Add("Instructions", c)
		}
	case *of.AggregateStats:
		n.K = "aggregate_stats"
		getScalars(v, n)
	case *of.TableStats:
		n.K = "table_stats"
		getScalars(v, n)
	case *of.PortStats:
		n.K = "port_stats"
		getScalars(v, n)
	case *of.QueueStats:
		n.K = "queue_stats"
		getScalars(v, n)
	default:
		return nil, fmt.Errorf("no extractor for stats record %T", r)
	}
	return n, nil
}

func extractVendor(d util.Message) (*wire.N, error) {
	n := wire.New("")
	switch v := d.(type) {
	case *of.ControllerID:
		n.K = "nx_set_controller_id"
		n.Set("ID", uint64(v.ID))
	case *of.TLVTableMod:
		n.K = "nx_tlv_table_mod"
		n.Set("Command", uint64(v.Command))
		for _, t := range v.TlvMaps {
			c := wire.New("tlv_map")
			getScalars(t, c)
			n.Add("TlvMaps", c)
		}
	case *of.TLVTableReply:
		n.K = "nx_tlv_table_reply"
		n.Set("MaxSpace", uint64(v.MaxSpace)).Set("MaxFields", uint64(v.MaxFields))
		for _, t := range v.TlvMaps {
			c := wire.New("tlv_map")
			getScalars(t, c)
			n.Add("TlvMaps", c)
		}
	case *of.BundleControl:
		n.K = "bundle_ctrl"
		getScalars(v, n)
	case *of.BundleAdd:
		n.K = "bundle_add"
		n.Set("BundleID", uint64(v.BundleID)).Set("Flags", uint64(v.Flags))
		if v.Message != nil {
			c, err := ExtractMsg(v.Message)
			if err != nil {
				return nil, fmt.Errorf("bundled message: %v", err)
			}
			n.SetS("Message", c)
		}
		for i := range v.Properties {
			p := &v.Properties[i]
			c := wire.New("bundle_prop_experimenter")
			c.Set("ExperimenterID", uint64(p.ExperimenterID)).Set("ExperimenterType", uint64(p.ExperimenterType))
			b, _ := valueBytes(field(p, "data"), 0)
			c.SetB("Data", b)
			n.Add("Properties", c)
		}
	default:
		return nil, fmt.Errorf("no extractor for vendor payload %T", d)
	}
	return n, nil
}
