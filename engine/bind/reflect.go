//go:build verif

// Package bind is the only place that knows both vocabularies: it builds library values from
// model trees through the library's exported constructors, adder methods and exported fields
// (the way controllers such as ofnet/everoute use it), and reads library values back into model
// trees through exported fields (unexported ones through reflection, read-only).
package bind

import (
	"bytes"
	"errors"
	"fmt"
	"net"
	"reflect"

	"github.com/contiv/libOpenflow/util"

	"verif/wire"
)

// ErrNoAPI means the kind cannot be produced through the public constructors/adders.
var ErrNoAPI = errors.New("not constructible through the public API")

var (
	tBuffer  = reflect.TypeOf(util.Buffer{})
	tBufferP = reflect.TypeOf(&util.Buffer{})
	tBytesB  = reflect.TypeOf(bytes.Buffer{})
)

func be(v uint64, w int) []byte {
	b := make([]byte, w)
	for i := 0; i < w; i++ {
		b[w-1-i] = byte(v >> (8 * uint(i)))
	}
	return b
}

func fromBE(b []byte) uint64 {
	var v uint64
	for _, c := range b {
		v = v<<8 | uint64(c)
	}
	return v
}

// setScalars copies n.U / n.B into the exported fields of the same name of struct *p. Fields named
// in skip are left alone (the constructor consumed them). Unknown model fields are reported.
func setScalars(p any, n *wire.N, skip ...string) error {
	v := reflect.ValueOf(p).Elem()
	sk := map[string]bool{}
	for _, s := range skip {
		sk[s] = true
	}
	for name, u := range n.U {
		if sk[name] {
			continue
		}
		f := v.FieldByName(name)
		if !f.IsValid() || !f.CanSet() {
			if name == "Xid" {
				continue
			}
			return fmt.Errorf("library type %s has no settable field %s", v.Type(), name)
		}
		switch f.Kind() {
		case reflect.Uint8, reflect.Uint16, reflect.Uint32, reflect.Uint64:
			// a field narrower than the specification's (the OpenFlow 1.0 16-bit port numbers) takes the
			// low bits: the discrepancy then shows where it belongs, in the byte comparison of C03
			f.SetUint(u & (1<<(8*uint(f.Type().Size())) - 1))
		case reflect.Bool:
			f.SetBool(u != 0)
		default:
			return fmt.Errorf("field %s.%s has kind %s", v.Type(), name, f.Kind())
		}
	}
	for name, b := range n.B {
		if sk[name] {
			continue
		}
		f := v.FieldByName(name)
		if !f.IsValid() || !f.CanSet() {
			return fmt.Errorf("library type %s has no settable field %s", v.Type(), name)
		}
		switch {
		case f.Kind() == reflect.Slice && f.Type().Elem().Kind() == reflect.Uint8:
			f.SetBytes(append([]byte{}, b...))
		case f.Type() == tBuffer:
			f.Set(reflect.ValueOf(*util.NewBuffer(append([]byte{}, b...))))
		case f.Type() == tBufferP:
			f.Set(reflect.ValueOf(util.NewBuffer(append([]byte{}, b...))))
		case f.Kind() == reflect.Interface:
			f.Set(reflect.ValueOf(util.NewBuffer(append([]byte{}, b...))))
		default:
			return fmt.Errorf("field %s.%s cannot take bytes (%s)", v.Type(), name, f.Type())
		}
	}
	return nil
}

// valueBytes reads a field value as bytes (w = expected width for IP addresses, 0 = as is).
func valueBytes(f reflect.Value, w int) ([]byte, bool) {
	switch {
	case f.Kind() == reflect.Slice && f.Type().Elem().Kind() == reflect.Uint8:
		b := make([]byte, f.Len())
		for i := range b {
			b[i] = byte(f.Index(i).Uint())
		}
		if w == 4 && len(b) == 16 {
			if ip4 := net.IP(b).To4(); ip4 != nil {
				return []byte(ip4), true
			}
		}
		return b, true
	case f.Kind() == reflect.Array && f.Type().Elem().Kind() == reflect.Uint8:
		b := make([]byte, f.Len())
		for i := range b {
			b[i] = byte(f.Index(i).Uint())
		}
		return b, true
	case f.Type() == tBuffer:
		return bufBytes(f), true
	case f.Type() == tBufferP:
		if f.IsNil() {
			return nil, true
		}
		return bufBytes(f.Elem()), true
	}
	return nil, false
}

// bufBytes reads the unread portion of a util.Buffer without calling any of its methods.
func bufBytes(f reflect.Value) []byte {
	bb := f.FieldByName("Buffer")
	buf := bb.FieldByName("buf")
	off := int(bb.FieldByName("off").Int())
	b := make([]byte, buf.Len()-off)
	for i := range b {
		b[i] = byte(buf.Index(off + i).Uint())
	}
	return b
}

// getScalars reads every exported scalar/byte field of struct *p into n (names as in the struct).
// only, when non-empty, restricts to those names; skip excludes names.
func getScalars(p any, n *wire.N, skip ...string) {
	v := reflect.ValueOf(p)
	if v.Kind() == reflect.Ptr {
		v = v.Elem()
	}
	sk := map[string]bool{}
	for _, s := range skip {
		sk[s] = true
	}
	t := v.Type()
	for i := 0; i < t.NumField(); i++ {
		sf := t.Field(i)
		if sf.PkgPath != "" || sk[sf.Name] || sf.Anonymous {
			continue
		}
		f := v.Field(i)
		switch f.Kind() {
		case reflect.Uint8, reflect.Uint16, reflect.Uint32, reflect.Uint64:
			n.Set(sf.Name, f.Uint())
		case reflect.Bool:
			if f.Bool() {
				n.Set(sf.Name, 1)
			} else {
				n.Set(sf.Name, 0)
			}
		default:
			if b, ok := valueBytes(f, 0); ok {
				n.SetB(sf.Name, b)
			}
		}
	}
}

// field reads a possibly unexported field by name.
func field(p any, name string) reflect.Value {
	v := reflect.ValueOf(p)
	for v.Kind() == reflect.Ptr || v.Kind() == reflect.Interface {
		v = v.Elem()
	}
	return v.FieldByName(name)
}
