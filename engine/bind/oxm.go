//go:build verif

package bind

import (
	"bytes"
	"fmt"
	"net"
	"reflect"

	of "github.com/contiv/libOpenflow/openflow13"
	"github.com/contiv/libOpenflow/util"

	"verif/wire"
)

type oxmCtor struct {
	name string
	// f builds the field from value and (possibly nil) mask bytes; nil result = this
	// constructor cannot express the request (e.g. it has no mask parameter).
	f func(val, mask []byte) *of.MatchField
}

var oxmCtors = map[[2]uint16][]oxmCtor{}

func reg(class uint16, field uint8, name string, f func(val, mask []byte) *of.MatchField) {
	k := [2]uint16{class, uint16(field)}
	oxmCtors[k] = append(oxmCtors[k], oxmCtor{name, f})
}

func macP(b []byte) *net.HardwareAddr {
	if b == nil {
		return nil
	}
	m := net.HardwareAddr(append([]byte{}, b...))
	return &m
}
func ipP(b []byte) *net.IP {
	if b == nil {
		return nil
	}
	m := net.IP(append([]byte{}, b...))
	return &m
}
func u16P(b []byte) *uint16 {
	if b == nil {
		return nil
	}
	v := uint16(fromBE(b))
	return &v
}
func u32P(b []byte) *uint32 {
	if b == nil {
		return nil
	}
	v := uint32(fromBE(b))
	return &v
}
func u64P(b []byte) *uint64 {
	if b == nil {
		return nil
	}
	v := fromBE(b)
	return &v
}
// cp copies a byte-string argument for the library. With the guard on, the copy is handed over as a
// slice with eight spare bytes of capacity behind it, filled with a sentinel - the way a caller hands
// over a sub-slice of a larger buffer whose following bytes belong to something else. GuardCheck
// reports an argument whose own bytes or whose neighbouring bytes were written.
func cp(b []byte) []byte {
	if !guardOn {
		return append([]byte{}, b...)
	}
	buf := make([]byte, len(b)+8)
	copy(buf, b)
	for i := len(b); i < len(buf); i++ {
		buf[i] = guardByte
	}
	guards = append(guards, guardReg{buf: buf, n: len(b), want: append([]byte{}, b...)})
	return buf[:len(b):len(buf)]
}

const guardByte = 0xA5

type guardReg struct {
	buf  []byte
	n    int
	want []byte
}

var (
	guardOn bool
	guards  []guardReg
)

// GuardReset switches the argument guard on (or off) and forgets the arguments registered so far.
func GuardReset(on bool) { guardOn, guards = on, nil }

// GuardCheck returns a description of the first byte-string argument that was modified, or whose
// spare capacity was written to, since GuardReset ("" if none).
func GuardCheck() string {
	for _, g := range guards {
		for i := g.n; i < len(g.buf); i++ {
			if g.buf[i] != guardByte {
				return fmt.Sprintf("the %d bytes behind a %d-byte argument %x (its spare capacity, which belongs to the caller) were overwritten: now %x", len(g.buf)-g.n, g.n, g.want, g.buf[g.n:])
			}
		}
		if !bytes.Equal(g.buf[:g.n], g.want) {
			return fmt.Sprintf("a byte-string argument was modified: %x became %x", g.want, g.buf[:g.n])
		}
	}
	return ""
}

func noMask(f func(val []byte) *of.MatchField) func(val, mask []byte) *of.MatchField {
	return func(val, mask []byte) *of.MatchField {
		if mask != nil {
			return nil
		}
		return f(val)
	}
}

func init() {
	B := uint16(0x8000)
	reg(B, 0, "NewInPortField", noMask(func(v []byte) *of.MatchField { return of.NewInPortField(uint32(fromBE(v))) }))
	reg(B, 2, "NewMetadataField", func(v, m []byte) *of.MatchField { return of.NewMetadataField(fromBE(v), u64P(m)) })
	reg(B, 3, "NewEthDstField", func(v, m []byte) *of.MatchField { return of.NewEthDstField(cp(v), macP(m)) })
	reg(B, 4, "NewEthSrcField", func(v, m []byte) *of.MatchField { return of.NewEthSrcField(cp(v), macP(m)) })
	reg(B, 5, "NewEthTypeField", noMask(func(v []byte) *of.MatchField { return of.NewEthTypeField(uint16(fromBE(v))) }))
	reg(B, 6, "NewVlanIdField", func(v, m []byte) *of.MatchField {
		// the constructor takes the VLAN id and adds the "present" bit itself
		x := uint16(fromBE(v))
		if x&0x1000 == 0 {
			return nil
		}
		return of.NewVlanIdField(x&^0x1000, u16P(m))
	})
	reg(B, 8, "NewIpDscpField", noMask(func(v []byte) *of.MatchField { return of.NewIpDscpField(v[0]) }))
	reg(B, 10, "NewIpProtoField", noMask(func(v []byte) *of.MatchField { return of.NewIpProtoField(v[0]) }))
	reg(B, 11, "NewIpv4SrcField", func(v, m []byte) *of.MatchField { return of.NewIpv4SrcField(cp(v), ipP(m)) })
	reg(B, 12, "NewIpv4DstField", func(v, m []byte) *of.MatchField { return of.NewIpv4DstField(cp(v), ipP(m)) })
	reg(B, 13, "NewTcpSrcField", noMask(func(v []byte) *of.MatchField { return of.NewTcpSrcField(uint16(fromBE(v))) }))
	reg(B, 14, "NewTcpDstField", noMask(func(v []byte) *of.MatchField { return of.NewTcpDstField(uint16(fromBE(v))) }))
	reg(B, 15, "NewUdpSrcField", noMask(func(v []byte) *of.MatchField { return of.NewUdpSrcField(uint16(fromBE(v))) }))
	reg(B, 16, "NewUdpDstField", noMask(func(v []byte) *of.MatchField { return of.NewUdpDstField(uint16(fromBE(v))) }))
	reg(B, 17, "NewSctpSrcField", noMask(func(v []byte) *of.MatchField { return of.NewSctpSrcField(uint16(fromBE(v))) }))
	reg(B, 18, "NewSctpDstField", noMask(func(v []byte) *of.MatchField { return of.NewSctpDstField(uint16(fromBE(v))) }))
	reg(B, 19, "NewIcmpTypeField", noMask(func(v []byte) *of.MatchField { return of.NewIcmpTypeField(v[0]) }))
	reg(B, 20, "NewIcmpCodeField", noMask(func(v []byte) *of.MatchField { return of.NewIcmpCodeField(v[0]) }))
	reg(B, 21, "NewArpOperField", noMask(func(v []byte) *of.MatchField { return of.NewArpOperField(uint16(fromBE(v))) }))
	reg(B, 22, "NewArpSpaField", noMask(func(v []byte) *of.MatchField { return of.NewArpSpaField(cp(v)) }))
	reg(B, 23, "NewArpTpaField", noMask(func(v []byte) *of.MatchField { return of.NewArpTpaField(cp(v)) }))
	reg(B, 24, "NewArpShaField", noMask(func(v []byte) *of.MatchField { return of.NewArpShaField(cp(v)) }))
	reg(B, 25, "NewArpThaField", noMask(func(v []byte) *of.MatchField { return of.NewArpThaField(cp(v)) }))
	reg(B, 26, "NewIpv6SrcField", func(v, m []byte) *of.MatchField { return of.NewIpv6SrcField(cp(v), ipP(m)) })
	reg(B, 27, "NewIpv6DstField", func(v, m []byte) *of.MatchField { return of.NewIpv6DstField(cp(v), ipP(m)) })
	reg(B, 28, "NewIPV6FlowLabelField", func(v, m []byte) *of.MatchField { return of.NewIPV6FlowLabelField(uint32(fromBE(v)), u32P(m)) })
	reg(B, 34, "NewMplsLabelField", noMask(func(v []byte) *of.MatchField { return of.NewMplsLabelField(uint32(fromBE(v))) }))
	reg(B, 36, "NewMplsBosField", noMask(func(v []byte) *of.MatchField { return of.NewMplsBosField(v[0]) }))
	reg(B, 38, "NewTunnelIdField", noMask(func(v []byte) *of.MatchField { return of.NewTunnelIdField(fromBE(v)) }))
	reg(B, 42, "NewTcpFlagsField", func(v, m []byte) *of.MatchField { return of.NewTcpFlagsField(uint16(fromBE(v)), u16P(m)) })
	reg(B, 43, "NewActsetOutputField", noMask(func(v []byte) *of.MatchField { return of.NewActsetOutputField(uint32(fromBE(v))) }))
	N1 := uint16(1)
	for i := 0; i < 16; i++ {
		idx := i
		reg(N1, uint8(i), "NewRegMatchField", func(v, m []byte) *of.MatchField {
			if m == nil {
				return of.NewRegMatchField(idx, uint32(fromBE(v)), nil)
			}
			// the constructor takes a bit range: only contiguous masks are expressible
			mk := uint32(fromBE(m))
			lo, hi := -1, -1
			for b := 0; b < 32; b++ {
				if mk>>uint(b)&1 == 1 {
					if lo < 0 {
						lo = b
					}
					hi = b
				}
			}
			if lo < 0 {
				return nil
			}
			var want uint32
			for b := lo; b <= hi; b++ {
				want |= 1 << uint(b)
			}
			if want != mk {
				return nil
			}
			return of.NewRegMatchField(idx, uint32(fromBE(v)), of.NewNXRange(lo, hi))
		})
	}
	reg(N1, 17, "NewNxARPShaMatchField", func(v, m []byte) *of.MatchField { return of.NewNxARPShaMatchField(cp(v), hw(m)) })
	reg(N1, 18, "NewNxARPThaMatchField", func(v, m []byte) *of.MatchField { return of.NewNxARPThaMatchField(cp(v), hw(m)) })
	reg(0, 16, "NewNxARPSpaMatchField", func(v, m []byte) *of.MatchField { return of.NewNxARPSpaMatchField(cp(v), ip(m)) })
	reg(0, 17, "NewNxARPTpaMatchField", func(v, m []byte) *of.MatchField { return of.NewNxARPTpaMatchField(cp(v), ip(m)) })
	reg(N1, 31, "NewTunnelIpv4SrcField", func(v, m []byte) *of.MatchField { return of.NewTunnelIpv4SrcField(cp(v), ipP(m)) })
	reg(N1, 32, "NewTunnelIpv4DstField", func(v, m []byte) *of.MatchField { return of.NewTunnelIpv4DstField(cp(v), ipP(m)) })
	reg(N1, 37, "NewConjIDMatchField", noMask(func(v []byte) *of.MatchField { return of.NewConjIDMatchField(uint32(fromBE(v))) }))
	for i := 0; i < 8; i++ {
		idx := i
		reg(N1, uint8(40+i), "NewTunMetadataField", func(v, m []byte) *of.MatchField { return of.NewTunMetadataField(idx, cp(v), cp(m)) })
	}
	reg(N1, 106, "NewCTZoneMatchField", noMask(func(v []byte) *of.MatchField { return of.NewCTZoneMatchField(uint16(fromBE(v))) }))
	reg(N1, 107, "NewCTMarkMatchField", func(v, m []byte) *of.MatchField { return of.NewCTMarkMatchField(uint32(fromBE(v)), u32P(m)) })
	reg(N1, 108, "NewCTLabelMatchField", func(v, m []byte) *of.MatchField {
		var a [16]byte
		copy(a[:], v)
		if m == nil {
			return of.NewCTLabelMatchField(a, nil)
		}
		var b [16]byte
		copy(b[:], m)
		return of.NewCTLabelMatchField(a, &b)
	})
	// the generic builder reaches every registered name (unmasked form here; windows are C17's subject)
	for _, info := range wire.OxmTable {
		in := info
		if in.Width == 0 {
			continue
		}
		reg(in.Class, in.Field, "NewMatchField["+in.Name+"]", func(v, m []byte) *of.MatchField {
			if m != nil {
				return nil
			}
			if _, err := of.FindFieldHeaderByName(in.Name, false); err != nil {
				return nil
			}
			f, err := of.NewMatchField[[]byte, int](in.Name, cp(v))
			if err != nil {
				return nil
			}
			return f
		})
	}
}

func hw(b []byte) net.HardwareAddr {
	if b == nil {
		return nil
	}
	return net.HardwareAddr(cp(b))
}
func ip(b []byte) net.IP {
	if b == nil {
		return nil
	}
	return net.IP(cp(b))
}

// OxmCtorNames lists the constructors registered for a (class, field).
func OxmCtorNames(class uint16, field uint8) []string {
	var out []string
	for _, c := range oxmCtors[[2]uint16{class, uint16(field)}] {
		out = append(out, c.name)
	}
	return out
}

// BuildOxm builds a match field with the variant-th applicable constructor.
func BuildOxm(n *wire.N, variant int) (*of.MatchField, string, error) {
	cs := oxmCtors[[2]uint16{uint16(n.U["Class"]), uint16(n.U["Field"])}]
	var mask []byte
	if n.U["HasMask"] == 1 {
		mask = n.B["Mask"]
		if mask == nil {
			mask = []byte{}
		}
	}
	k := 0
	for _, c := range cs {
		f := c.f(n.B["Value"], mask)
		if f == nil {
			continue
		}
		if k == variant {
			return f, c.name, nil
		}
		k++
	}
	return nil, "", ErrNoAPI
}

// payloadBytes reads a match-field payload (value or mask) without using its encoder.
func payloadBytes(m util.Message, w int) ([]byte, error) {
	if m == nil {
		return nil, fmt.Errorf("payload is nil")
	}
	v := reflect.ValueOf(m)
	for v.Kind() == reflect.Ptr {
		if v.IsNil() {
			return nil, fmt.Errorf("payload is a nil %s", v.Type())
		}
		v = v.Elem()
	}
	if v.Kind() != reflect.Struct {
		return nil, fmt.Errorf("payload %s is not a struct", v.Type())
	}
	if v.Type().Name() == "ByteArrayField" {
		b, _ := valueBytes(v.FieldByName("Data"), 0)
		return b, nil
	}
	if v.NumField() != 1 {
		return nil, fmt.Errorf("payload %s has %d fields", v.Type(), v.NumField())
	}
	f := v.Field(0)
	switch f.Kind() {
	case reflect.Uint8:
		return be(f.Uint(), 1), nil
	case reflect.Uint16:
		return be(f.Uint(), 2), nil
	case reflect.Uint32:
		return be(f.Uint(), 4), nil
	case reflect.Uint64:
		return be(f.Uint(), 8), nil
	}
	if b, ok := valueBytes(f, w); ok {
		return b, nil
	}
	return nil, fmt.Errorf("payload %s: unsupported field kind %s", v.Type(), f.Kind())
}

// ExtractOxm reads a library match field into the model vocabulary.
func ExtractOxm(f *of.MatchField) (*wire.N, error) {
	n := wire.New("oxm")
	n.Set("Class", uint64(f.Class)).Set("Field", uint64(f.Field))
	if f.HasMask {
		n.Set("HasMask", 1)
	} else {
		n.Set("HasMask", 0)
	}
	if f.Class == 0xffff || f.ExperimenterID != 0 {
		n.Set("ExperimenterID", uint64(f.ExperimenterID))
	}
	w := 0
	cls := f.Class
	if cls == 0xffff {
		cls = 0x8000
	}
	if info := wire.OxmTable[[2]uint16{cls, uint16(f.Field)}]; info != nil {
		w = info.Width
	}
	b, err := payloadBytes(f.Value, w)
	if err != nil {
		return nil, fmt.Errorf("value: %v", err)
	}
	n.SetB("Value", b)
	if f.HasMask {
		b, err := payloadBytes(f.Mask, w)
		if err != nil {
			return nil, fmt.Errorf("mask: %v", err)
		}
		n.SetB("Mask", b)
	}
	return n, nil
}

// ExtractMatch reads a library match.
func ExtractMatch(m *of.Match) (*wire.N, error) {
	n := wire.New("match")
	for i := range m.Fields {
		f, err := ExtractOxm(&m.Fields[i])
		if err != nil {
			return nil, fmt.Errorf("match field %d: %v", i, err)
		}
		n.Add("Fields", f)
	}
	return n, nil
}

// BuildMatchInto adds the model's fields to a library match through AddField.
func BuildMatchInto(m *of.Match, n *wire.N, variant int) error {
	if n == nil {
		return nil
	}
	for _, fn := range n.L["Fields"] {
		f, _, err := BuildOxm(fn, variant)
		if err == ErrNoAPI && variant != 0 {
			f, _, err = BuildOxm(fn, 0)
		}
		if err != nil {
			return err
		}
		m.AddField(*f)
	}
	return nil
}

// HeaderField returns the library header value for a 32-bit NXM header word, through the registry.
func HeaderField(word uint64) (*of.MatchField, error) {
	info := wire.OxmTable[[2]uint16{uint16(word >> 16), uint16(word >> 9 & 0x7f)}]
	if info == nil {
		return nil, fmt.Errorf("header word %#x names no known field", word)
	}
	f, err := of.FindFieldHeaderByName(info.Name, word>>8&1 == 1)
	if err != nil {
		return nil, ErrNoAPI
	}
	return f, nil
}

// HeaderWordOf is the model's packing of a library header (class, field, mask flag, length).
func HeaderWordOf(f *of.MatchField) uint64 {
	if f == nil {
		return 0
	}
	return wire.HeaderWord(f.Class, f.Field, f.HasMask, f.Length)
}
