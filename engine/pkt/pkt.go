// Package pkt is the reference model of the packet headers libOpenflow encodes and decodes
// (Ethernet/802.1Q, ARP, IPv4, IPv6 and its hop-by-hop, routing and fragment headers, ICMP, TCP,
// UDP, IGMP v1-v3, DHCP, LLDP), written from the RFC layouts transcribed in DESIGN.md Appendix A.
// It imports nothing from libOpenflow. Packets are wire.N trees; Encode yields the bytes and a
// field map (offset, width, role) used by the deviation explorer and by diagnostics.
package pkt

import (
	"fmt"
	"strings"

	"verif/wire"
)

type enc struct {
	buf   []byte
	marks []wire.Mark
	path  []string
}

func (e *enc) mark(n *wire.N, name string, w int, role string) {
	e.marks = append(e.marks, wire.Mark{Path: strings.Join(e.path, "/") + "." + name, Off: len(e.buf), W: w, Role: role, Node: n, Name: name})
}

func (e *enc) u(n *wire.N, name string, w int, role string) {
	e.mark(n, name, w, role)
	e.raw(n.U[name], w)
}

func (e *enc) raw(v uint64, w int) {
	for i := w - 1; i >= 0; i-- {
		e.buf = append(e.buf, byte(v>>(8*uint(i))))
	}
}

// packed writes several sub-byte fields into w bytes: fields are (name, bits) from the most
// significant bit down; every sub-field gets its own mark with the shared offset.
func (e *enc) packed(n *wire.N, w int, role string, fields ...any) {
	var v uint64
	total := 0
	for i := 0; i < len(fields); i += 2 {
		total += fields[i+1].(int)
	}
	if total != 8*w {
		panic(fmt.Sprintf("pkt: packed group of %d bits in %d bytes", total, w))
	}
	for i := 0; i < len(fields); i += 2 {
		name, bits := fields[i].(string), uint(fields[i+1].(int))
		if name != "" {
			e.marks = append(e.marks, wire.Mark{Path: strings.Join(e.path, "/") + "." + name, Off: len(e.buf), W: w, Role: "packed:" + role, Node: n, Name: name})
		}
		v = v<<bits | (n.U[name] & (1<<bits - 1))
	}
	e.raw(v, w)
}

func (e *enc) b(n *wire.N, name string, w int) {
	v := n.B[name]
	e.mark(n, name, w, "bytes")
	out := make([]byte, w)
	copy(out, v)
	e.buf = append(e.buf, out...)
}

func (e *enc) rest(n *wire.N, name string) {
	v := n.B[name]
	e.mark(n, name, len(v), "payload")
	e.buf = append(e.buf, v...)
}

func (e *enc) sub(name string, c *wire.N) {
	if c == nil {
		return
	}
	e.path = append(e.path, name)
	e.elem(c)
	e.path = e.path[:len(e.path)-1]
}

// Encode serialises a packet tree.
func Encode(n *wire.N) ([]byte, []wire.Mark) {
	e := &enc{}
	e.path = []string{n.K}
	e.elem(n)
	return e.buf, e.marks
}

func (e *enc) elem(n *wire.N) {
	switch n.K {
	case "opaque":
		e.rest(n, "Data")
	case "eth":
		e.b(n, "HWDst", 6)
		e.b(n, "HWSrc", 6)
		if v := n.S["VLAN"]; v != nil {
			e.mark(v, "TPID", 2, "type")
			e.raw(0x8100, 2)
			e.path = append(e.path, "VLAN")
			e.packed(v, 2, "value", "PCP", 3, "DEI", 1, "VID", 12)
			e.path = e.path[:len(e.path)-1]
		}
		e.u(n, "Ethertype", 2, "type")
		e.sub("Data", n.S["Data"])
	case "vlan": // standalone 802.1Q tag as the library's VLAN type encodes it: TPID + TCI
		e.u(n, "TPID", 2, "type")
		e.packed(n, 2, "value", "PCP", 3, "DEI", 1, "VID", 12)
	case "arp":
		e.u(n, "HWType", 2, "value")
		e.u(n, "ProtoType", 2, "value")
		e.u(n, "HWLength", 1, "length")
		e.u(n, "ProtoLength", 1, "length")
		e.u(n, "Operation", 2, "value")
		hl, pl := int(n.U["HWLength"]), int(n.U["ProtoLength"])
		e.b(n, "HWSrc", hl)
		e.b(n, "IPSrc", pl)
		e.b(n, "HWDst", hl)
		e.b(n, "IPDst", pl)
	case "ipv4":
		e.packed(n, 1, "length", "Version", 4, "IHL", 4)
		e.packed(n, 1, "value", "DSCP", 6, "ECN", 2)
		e.u(n, "Length", 2, "length")
		e.u(n, "Id", 2, "value")
		e.packed(n, 2, "value", "Flags", 3, "FragmentOffset", 13)
		e.u(n, "TTL", 1, "value")
		e.u(n, "Protocol", 1, "type")
		e.u(n, "Checksum", 2, "value")
		e.b(n, "NWSrc", 4)
		e.b(n, "NWDst", 4)
		e.rest(n, "Options")
		e.sub("Data", n.S["Data"])
	case "ipv6":
		e.packed(n, 4, "value", "Version", 4, "TrafficClass", 8, "FlowLabel", 20)
		e.u(n, "Length", 2, "length")
		e.u(n, "NextHeader", 1, "type")
		e.u(n, "HopLimit", 1, "value")
		e.b(n, "NWSrc", 16)
		e.b(n, "NWDst", 16)
		for i, x := range n.L["Ext"] {
			e.sub(fmt.Sprintf("Ext[%d]", i), x)
		}
		e.sub("Data", n.S["Data"])
	case "hbh":
		start := len(e.buf)
		e.u(n, "NextHeader", 1, "type")
		e.u(n, "HEL", 1, "length")
		for i, o := range n.L["Options"] {
			e.sub(fmt.Sprintf("Options[%d]", i), o)
		}
		// the header occupies 8*(HEL+1) bytes; the corpus keeps options within it
		for len(e.buf)-start < 8*(int(n.U["HEL"])+1) {
			e.buf = append(e.buf, 0)
		}
	case "option":
		e.u(n, "Type", 1, "type")
		e.u(n, "Length", 1, "length")
		e.b(n, "Data", int(n.U["Length"]))
	case "routing":
		start := len(e.buf)
		e.u(n, "NextHeader", 1, "type")
		e.u(n, "HEL", 1, "length")
		e.u(n, "RoutingType", 1, "value")
		e.u(n, "SegmentsLeft", 1, "value")
		e.rest(n, "Data")
		for len(e.buf)-start < 8*(int(n.U["HEL"])+1) {
			e.buf = append(e.buf, 0)
		}
	case "fragment":
		e.u(n, "NextHeader", 1, "type")
		e.u(n, "Reserved", 1, "value")
		e.packed(n, 2, "value", "FragmentOffset", 13, "", 2, "MoreFragments", 1)
		e.u(n, "Identification", 4, "value")
	case "icmp":
		e.u(n, "Type", 1, "value")
		e.u(n, "Code", 1, "value")
		e.u(n, "Checksum", 2, "value")
		e.rest(n, "Data")
	case "tcp":
		e.u(n, "PortSrc", 2, "value")
		e.u(n, "PortDst", 2, "value")
		e.u(n, "SeqNum", 4, "value")
		e.u(n, "AckNum", 4, "value")
		e.packed(n, 2, "length", "HdrLen", 4, "", 6, "Code", 6)
		e.u(n, "WinSize", 2, "value")
		e.u(n, "Checksum", 2, "value")
		e.u(n, "UrgFlag", 2, "value")
		e.rest(n, "Data")
	case "udp":
		e.u(n, "PortSrc", 2, "value")
		e.u(n, "PortDst", 2, "value")
		e.u(n, "Length", 2, "length")
		e.u(n, "Checksum", 2, "value")
		e.rest(n, "Data")
	case "igmp12":
		e.u(n, "Type", 1, "type")
		e.u(n, "MaxResponseTime", 1, "value")
		e.u(n, "Checksum", 2, "value")
		e.b(n, "GroupAddress", 4)
	case "igmp3q":
		e.u(n, "Type", 1, "type")
		e.u(n, "MaxResponseTime", 1, "value")
		e.u(n, "Checksum", 2, "value")
		e.b(n, "GroupAddress", 4)
		e.packed(n, 1, "value", "", 4, "SuppressRouterProcessing", 1, "RobustnessValue", 3)
		e.u(n, "IntervalTime", 1, "value")
		e.u(n, "NumberOfSources", 2, "count")
		for i, s := range n.L["SourceAddresses"] {
			e.path = append(e.path, fmt.Sprintf("SourceAddresses[%d]", i))
			e.b(s, "IP", 4)
			e.path = e.path[:len(e.path)-1]
		}
	case "igmp3r":
		e.u(n, "Type", 1, "type")
		e.raw(0, 1)
		e.u(n, "Checksum", 2, "value")
		e.raw(0, 2)
		e.u(n, "NumberOfGroups", 2, "count")
		for i, g := range n.L["GroupRecords"] {
			e.sub(fmt.Sprintf("GroupRecords[%d]", i), g)
		}
	case "grouprec":
		e.u(n, "Type", 1, "value")
		e.u(n, "AuxDataLen", 1, "length")
		e.u(n, "NumberOfSources", 2, "count")
		e.b(n, "MulticastAddress", 4)
		for i, s := range n.L["SourceAddresses"] {
			e.path = append(e.path, fmt.Sprintf("SourceAddresses[%d]", i))
			e.b(s, "IP", 4)
			e.path = e.path[:len(e.path)-1]
		}
		e.rest(n, "AuxData")
	case "dhcp":
		e.u(n, "Operation", 1, "value")
		e.u(n, "HardwareType", 1, "value")
		e.u(n, "HardwareLen", 1, "length")
		e.u(n, "HardwareOpts", 1, "value")
		e.u(n, "Xid", 4, "value")
		e.u(n, "Secs", 2, "value")
		e.u(n, "Flags", 2, "value")
		e.b(n, "ClientIP", 4)
		e.b(n, "YourIP", 4)
		e.b(n, "ServerIP", 4)
		e.b(n, "GatewayIP", 4)
		// chaddr: hlen bytes of address, zero-padded to 16
		hl := int(n.U["HardwareLen"])
		if hl > 16 {
			hl = 16
		}
		e.b(n, "ClientHWAddr", hl)
		e.buf = append(e.buf, make([]byte, 16-hl)...)
		e.b(n, "ServerName", 64)
		e.b(n, "File", 128)
		e.mark(n, "magic", 4, "const")
		e.raw(0x63825363, 4)
		end := false
		for i, o := range n.L["Options"] {
			e.sub(fmt.Sprintf("Options[%d]", i), o)
			end = end || o.U["Tag"] == 255
		}
		if !end {
			e.buf = append(e.buf, 255)
		}
	case "dhcpopt":
		e.u(n, "Tag", 1, "type")
		if t := n.U["Tag"]; t == 0 || t == 255 {
			return
		}
		e.mark(n, "length", 1, "length")
		e.raw(uint64(len(n.B["Data"])), 1)
		e.rest(n, "Data")
	case "lldp":
		e.sub("Chassis", n.S["Chassis"])
		e.sub("Port", n.S["Port"])
		e.sub("TTL", n.S["TTL"])
	case "lldp_chassis", "lldp_port":
		// TLV header: type (7 bits), length (9 bits) = subtype byte + id bytes
		l := uint64(1 + len(n.B["Data"]))
		e.mark(n, "typelen", 2, "length")
		e.raw(n.U["Type"]<<9|l, 2)
		e.u(n, "Subtype", 1, "value")
		e.rest(n, "Data")
	case "lldp_ttl":
		e.mark(n, "typelen", 2, "length")
		e.raw(n.U["Type"]<<9|2, 2)
		e.u(n, "Seconds", 2, "value")
	default:
		panic("pkt: unknown kind " + n.K)
	}
}
