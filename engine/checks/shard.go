//go:build verif

package checks

// Sharding over worker subprocesses (DESIGN 3.7): the parent starts N copies of the same binary,
// each owning the enumeration indices = i (mod N). Before every execution a worker copies the
// case it is about to run into a memory-mapped file, so that when a worker dies (runtime fatal
// error, stack overflow, out of memory) the parent can attribute the death to that exact case.

import (
	"context"
	"encoding/json"
	"fmt"
	"os"
	"os/exec"
	"path/filepath"
	"runtime"
	"strconv"
	"strings"
	"sync"
	"syscall"
	"time"

	"verif/ev"
)

const markSize = 1 << 17

type Worker struct {
	*ev.Run
	Index, N int
	Args     []string
	resFile  string
	mark     []byte
}

func newWorker(id, tier string, args []string) *Worker {
	if len(args) < 4 {
		fmt.Fprintln(os.Stderr, "worker: bad arguments")
		os.Exit(3)
	}
	w := &Worker{Run: ev.NewRun(id, tier)}
	w.Index, _ = strconv.Atoi(args[0])
	w.N, _ = strconv.Atoi(args[1])
	w.resFile = args[2]
	w.Args = args[4:]
	if dl, err := strconv.ParseInt(os.Getenv("VERIF_WORKER_DEADLINE_UNIX"), 10, 64); err == nil {
		w.Deadline = time.Unix(dl, 0)
	}
	f, err := os.OpenFile(args[3], os.O_RDWR|os.O_CREATE, 0o644)
	if err == nil {
		f.Truncate(markSize)
		w.mark, _ = syscall.Mmap(int(f.Fd()), 0, markSize, syscall.PROT_READ|syscall.PROT_WRITE, syscall.MAP_SHARED)
		f.Close()
	}
	runtime.GOMAXPROCS(1)
	return w
}

// Mine reports whether enumeration index i belongs to this worker.
func (w *Worker) Mine(i int64) bool { return int(i%int64(w.N)) == w.Index }

// Mark records the case about to be executed (label + bytes) in the crash-attribution file.
func (w *Worker) Mark(label string, b []byte) {
	if w.mark == nil {
		return
	}
	m := w.mark
	n := len(label)
	if n > 255 {
		n = 255
	}
	k := len(b)
	if k > markSize-300 {
		k = markSize - 300
	}
	m[0] = byte(n)
	m[1], m[2], m[3] = byte(k>>16), byte(k>>8), byte(k)
	copy(m[4:], label[:n])
	copy(m[4+n:], b[:k])
}

func (w *Worker) finish() {
	b, _ := json.Marshal(w.Export())
	os.WriteFile(w.resFile, b, 0o644)
}

func readMark(path string) (string, []byte) {
	m, err := os.ReadFile(path)
	if err != nil || len(m) < 4 {
		return "", nil
	}
	n := int(m[0])
	k := int(m[1])<<16 | int(m[2])<<8 | int(m[3])
	if 4+n+k > len(m) {
		return "", nil
	}
	return string(m[4 : 4+n]), m[4+n : 4+n+k]
}

// RunSharded starts n workers for the check and merges their results. crashIsViolation says
// whether the death of a worker on a case is itself a violation of the property (totality and
// concurrency-safety properties) or a harness error.
func RunSharded(r *ev.Run, n int, crashIsViolation bool, extra ...string) {
	work := os.Getenv("VERIF_WORK")
	if work == "" {
		work = os.TempDir()
	}
	var wg sync.WaitGroup
	var mu sync.Mutex
	for i := 0; i < n; i++ {
		wg.Add(1)
		go func(i int) {
			defer wg.Done()
			res := filepath.Join(work, fmt.Sprintf("res.%s.%d.json", r.ID, i))
			mark := filepath.Join(work, fmt.Sprintf("mark.%s.%d", r.ID, i))
			errf := filepath.Join(work, fmt.Sprintf("err.%s.%d.txt", r.ID, i))
			os.Remove(res)
			args := append([]string{r.ID, r.Tier, "--worker", strconv.Itoa(i), strconv.Itoa(n), res, mark}, extra...)
			grace := time.Until(r.Deadline) + 90*time.Second
			if grace < 90*time.Second {
				grace = 90 * time.Second
			}
			ctx, cancel := context.WithTimeout(context.Background(), grace)
			defer cancel()
			cmd := exec.CommandContext(ctx, os.Args[0], args...)
			ef, _ := os.Create(errf)
			cmd.Stderr = ef
			cmd.Stdout = ef
			cmd.Env = append(os.Environ(), "VERIF_WORKER_DEADLINE_UNIX="+strconv.FormatInt(r.Deadline.Unix(), 10), "GOMAXPROCS=1", "GOMEMLIMIT=3GiB")
			err := cmd.Run()
			ef.Close()
			mu.Lock()
			defer mu.Unlock()
			if b, rerr := os.ReadFile(res); rerr == nil && err == nil {
				var e ev.Exported
				if json.Unmarshal(b, &e) == nil {
					r.Merge(e)
					return
				}
			}
			// the worker died
			label, data := readMark(mark)
			tail, _ := os.ReadFile(errf)
			first := ""
			if ctx.Err() != nil {
				first = "hang: the worker did not finish and was killed 90 s after the deadline"
			}
			for _, l := range strings.Split(string(tail), "\n") {
				if first != "" {
					break
				}
				if strings.HasPrefix(l, "fatal error:") || strings.HasPrefix(l, "panic:") || strings.HasPrefix(l, "runtime:") {
					first = l
					break
				}
			}
			if len(tail) > 4000 {
				tail = tail[:4000]
			}
			r.Incomplete(fmt.Sprintf("shard %d/%d died", i, n))
			if crashIsViolation && label != "" && !confirmDeath(r, label, data, work, i) {
				// the case the worker had marked runs to completion on its own: the death was not
				// caused by the library on this input (memory pressure from outside, a kill): a
				// harness error, never a VIOLATION
				fmt.Printf("HARNESS-ERROR: worker %d of %s died (%v: %s) but the case it was executing completes when re-run alone\n", i, r.ID, err, first)
				r.Set("harness_error", fmt.Sprintf("worker %d: %v %s (not reproduced)", i, err, first))
				harnessFailed = true
				return
			}
			if crashIsViolation && label != "" {
				r.Violation("process-death:"+sigWords(first), "the process died while executing a case: "+first,
					map[string]any{"label": label, "input_hex": ev.Hex(data), "stderr": string(tail)})
			} else {
				fmt.Printf("HARNESS-ERROR: worker %d of %s exited abnormally (%v): %s\n", i, r.ID, err, first)
				r.Set("harness_error", fmt.Sprintf("worker %d: %v %s", i, err, first))
				harnessFailed = true
			}
		}(i)
	}
	wg.Wait()
}

// confirmDeath re-runs, in a fresh process and alone, the case a dead worker had marked (deviation
// explorer marks: "target|seed|deviation" + the input bytes). It returns true if the case again
// fails to complete normally (the process dies, hangs for two minutes, or reports a violation).
func confirmDeath(r *ev.Run, label string, data []byte, work string, i int) bool {
	parts := strings.SplitN(label, "|", 3)
	if len(parts) != 3 {
		return true // not a case this function knows how to replay: believe the death
	}
	c := map[string]any{"case": devCase{Target: parts[0], Seed: parts[1], Dev: parts[2], Hex: ev.Hex(data), Len: len(data)}}
	b, _ := json.Marshal(c)
	path := filepath.Join(work, fmt.Sprintf("confirm.%s.%d.json", r.ID, i))
	if os.WriteFile(path, b, 0o644) != nil {
		return true
	}
	out := filepath.Join(work, fmt.Sprintf("confirm.%s.%d.out", r.ID, i))
	os.MkdirAll(out, 0o755)
	ctx, cancel := context.WithTimeout(context.Background(), 2*time.Minute)
	defer cancel()
	cmd := exec.CommandContext(ctx, os.Args[0], r.ID, r.Tier, "--replay", path)
	cmd.Env = append(os.Environ(), "VERIF_OUT_DIR="+out, "GOMAXPROCS=1", "GOMEMLIMIT=3GiB")
	o, err := cmd.CombinedOutput()
	if ctx.Err() != nil || strings.Contains(string(o), "VIOLATION") {
		return true
	}
	if ee, ok := err.(*exec.ExitError); ok && ee.ExitCode() > 1 || err != nil && !strings.Contains(string(o), "replay ") {
		return true
	}
	return false
}

var harnessFailed bool

// HarnessFailed reports whether a worker died in a way that is not attributable to the library.
func HarnessFailed() bool { return harnessFailed }

func sigWords(s string) string {
	s = strings.TrimSpace(s)
	if len(s) > 60 {
		s = s[:60]
	}
	return strings.Map(func(c rune) rune {
		if c == ' ' || c == '\t' {
			return '-'
		}
		return c
	}, s)
}

// NumWorkers is the number of worker subprocesses to use.
func NumWorkers() int {
	n := runtime.NumCPU()
	if s := os.Getenv("VERIF_WORKERS"); s != "" {
		if v, err := strconv.Atoi(s); err == nil && v > 0 {
			n = v
		}
	}
	if n > 16 {
		n = 16
	}
	return n
}
