//go:build verif

package checks

import (
	"bytes"
	"fmt"
	"sort"
	"strings"
	"time"

	verifrt "github.com/contiv/libOpenflow/verifrt"

	"verif/ev"
)

// C10: inbound stream. The real MessageStream (reader, 25 parsers, shutdown goroutine, pool of 50
// buffers) runs on a source-rewritten copy of util under the controlled scheduler, over a scripted
// connection. Scenario families:
//   S-A de-framing x chunking: every partition of short byte streams into read chunks, all cut
//       pairs/triples around every length prefix for longer ones (default schedule);
//   S-B interleavings: short frame sequences x 3 chunkings, ALL interleavings (state-cached);
//   S-C buffer recycling: 52 and 60 frames through the 50-buffer pool while the consumer keeps
//       every message, preemption bound 0/1 (thorough 2) under four scheduling policies;
//   S-D failure: a read error after every byte count, all interleavings; local shutdown.
func init() {
	Registry["C10"] = c10
	Workers["C10"] = c10Worker
}

func c10Check(r *ev.Run, alphabet []streamFrame, stats map[string]int64) func(run *streamRun, x *verifrt.Exec) {
	return func(run *streamRun, x *verifrt.Exec) {
		sc := run.sc
		sched := make([]int, len(x.Trace))
		for i, p := range x.Trace {
			sched[i] = p.Chosen
		}
		rep := sc
		rep.Sched = sched
		desc := fmt.Sprintf("[frames %v cuts %v fail_after %d shut_at %d policy %q, %d scheduling points]", sc.Frames, sc.Cuts, sc.FailAfter, sc.ShutAt, sc.Policy, len(sched))
		bad := func(sig, what string) {
			r.Outcome("wrong")
			r.Violation(sig, what+" "+desc, rep)
		}
		for _, e := range x.Events {
			if e.Kind == "livelock" {
				bad("livelock", "the execution did not quiesce within the horizon: "+e.Detail)
			} else {
				bad("event:"+e.Kind, fmt.Sprintf("%s in %s: %s", e.Kind, e.Thread, clip(e.Detail)))
			}
			return
		}
		// which frames were complete before the failure / shutdown point
		complete := 0
		off := 0
		rejected := make([]bool, len(run.frames))
		nrej := 0
		for i, f := range run.frames {
			off += len(f)
			if sc.FailAfter < 0 || off <= sc.FailAfter {
				complete++
				if alphabet[sc.Frames[i]].Rejected {
					nrej++
				}
			}
			rejected[i] = alphabet[sc.Frames[i]].Rejected
		}
		failing := sc.FailAfter >= 0 || sc.ShutAt >= 0
		if run.gotOther > 0 {
			bad("delivered-on-another-connection", fmt.Sprintf("%d message(s) arrived at the consumer of a second stream whose connection carried nothing", run.gotOther))
			return
		}
		// (1) every delivered value is a non-nil message re-encoding to one of the complete frames, each at most once
		used := make([]bool, len(run.frames))
		order := ""
		nils := 0
		for di, d := range run.got {
			if d.enc == nil && d.m == nil && nils < nrej {
				nils++ // the nil the stream publishes for a frame its parser rejected
				continue
			}
			if d.enc == nil {
				bad("delivered-not-a-frame", fmt.Sprintf("delivery %d is nil or cannot be encoded", di))
				return
			}
			found := -1
			for fi := 0; fi < complete; fi++ {
				if !used[fi] && !rejected[fi] && bytes.Equal(run.frames[fi], d.enc) {
					found = fi
					break
				}
			}
			if found < 0 {
				what := "is no frame that was sent (corrupted or merged)"
				for fi := range run.frames {
					if bytes.Equal(run.frames[fi], d.enc) {
						if fi >= complete {
							what = fmt.Sprintf("is frame %d, which was not complete when the connection failed", fi)
						} else {
							what = fmt.Sprintf("is frame %d again (duplicated)", fi)
						}
					}
				}
				for fi := range run.frames {
					if len(d.enc) < len(run.frames[fi]) && bytes.HasPrefix(run.frames[fi], d.enc[:min(len(d.enc), 4)]) && fi >= complete {
						what += fmt.Sprintf(" (it starts like the incomplete frame %d)", fi)
					}
				}
				bad("delivered-not-a-frame", fmt.Sprintf("delivery %d (%d bytes, %x...) %s", di, len(d.enc), head(d.enc, 12), what))
				return
			}
			used[found] = true
			order += fmt.Sprint(found) + ","
		}
		// (3) retained messages unchanged
		for di, d := range run.got {
			if d.m == nil {
				continue
			}
			b, err, pn := safeEncode(d.m)
			if pn != nil || err != nil || !bytes.Equal(b, d.enc) {
				bad("retained-message-changed", fmt.Sprintf("the message delivered as number %d (%d bytes) no longer encodes to the bytes it had at delivery after later frames were received", di, len(d.enc)))
				return
			}
		}
		// error channel
		nerr := 0
		if run.ms != nil {
			nerr = len(run.ms.Error) + run.errs
		}
		if !failing {
			// (2) nothing lost, nobody stuck
			// threads parked somewhere else than the known idle points are reported with the loss they
			// cause, not on their own: where a correct stream parks idle goroutines is its own business
			parked := ""
			if st := stuckThreads(x); len(st) > 0 {
				parked = fmt.Sprintf("; parked outside the known idle points: %v", st)
				stats["executions_with_threads_parked_elsewhere"]++
			}
			if len(run.got)-nils != len(run.frames)-nrej {
				var missing []int
				for fi := range used {
					if !used[fi] && !rejected[fi] {
						missing = append(missing, fi)
					}
				}
				bad("lost", fmt.Sprintf("%d of %d decodable frames were delivered; missing %v%s", len(run.got)-nils, len(run.frames)-nrej, missing, parked))
				return
			}
			if nerr != 0 {
				bad("spurious-error", "an error was published although the connection did not fail")
				return
			}
			stats["order:"+order]++
			r.Outcome("all-delivered")
			return
		}
		if sc.FailAfter >= 0 {
			// (4) the failure is published exactly once
			if nerr != 1 {
				bad("error-not-published-once", fmt.Sprintf("%d errors on the error channel after the connection failed", nerr))
				return
			}
		}
		// a frame that a parser goroutine took from the queue and parsed is the consumer's (the
		// consumer of this harness never stops receiving): only frames still queued when the parsers
		// were told to stop may stay behind
		for pi, pf := range run.parsed {
			if sc.ShutAt >= 0 {
				break // a local shutdown ends the consumer's interest; only the failure clause is checked
			}
			isRejected, delivered := false, false
			for fi := range run.frames {
				if bytes.Equal(run.frames[fi], pf) && rejected[fi] {
					isRejected = true
				}
			}
			for _, d := range run.got {
				if d.enc != nil && bytes.Equal(d.enc, pf) {
					delivered = true
				}
			}
			if !isRejected && !delivered {
				bad("parsed-frame-not-delivered", fmt.Sprintf("frame number %d handed to the parser (%d bytes, %x...) was parsed but never reached the consumer after the connection failed", pi, len(pf), head(pf, 12)))
				return
			}
		}
		stats["undelivered-after-failure"] += int64(complete - nrej - (len(run.got) - nils))
		r.Outcome(fmt.Sprintf("failure:delivered-%d-of-%d-complete", len(run.got)-nils, complete-nrej))
	}
}

func min(a, b int) int {
	if a < b {
		return a
	}
	return b
}

// frame alphabet indices (streamFrames order): 0 echo(8) 1 hello(16) 2 error17(17) 3 packet-in 4 error3012 5 role-reply(24, rejected by the parser)
// The scenarios are generated, not stored (the thorough tier has 2^23 partitions of one byte stream
// alone): yield is called for every scenario of the families whose name heavy accepts, in a fixed
// order; the function returns the number of scenarios per family.
func c10Scenarios(thorough bool, alphabet []streamFrame, heavy func(fam string) bool, yield func(sc streamScenario)) (families map[string]int) {
	families = map[string]int{}
	add := func(fam string, sc streamScenario) {
		if heavy != nil && !heavy(fam) {
			return
		}
		families[fam]++
		if yield != nil {
			sc.Family = fam
			yield(sc)
		}
	}
	size := func(seq []int) int {
		n := 0
		for _, f := range seq {
			n += len(alphabet[f].B)
		}
		return n
	}
	var seqs [][]int
	var rec func(p []int, alpha []int, max int)
	rec = func(p []int, alpha []int, max int) {
		if len(p) > 0 {
			seqs = append(seqs, append([]int{}, p...))
		}
		if len(p) == max {
			return
		}
		for _, a := range alpha {
			rec(append(p, a), alpha, max)
		}
	}
	// ---- S-A: chunking, default schedule
	rec(nil, []int{0, 1, 2, 3}, 3)
	fullLimit := 16
	if thorough {
		fullLimit = 24
	}
	for _, seq := range seqs {
		n := size(seq)
		if n <= fullLimit {
			// every partition: bit i of mask = cut after byte i+1
			for mask := 0; mask < 1<<uint(n-1); mask++ {
				var cuts []int
				for i := 0; i < n-1; i++ {
					if mask>>uint(i)&1 == 1 {
						cuts = append(cuts, i+1)
					}
				}
				add("S-A all partitions", streamScenario{Frames: seq, Cuts: cuts, FailAfter: -1, Bound: 0, ShutAt: -1})
			}
			continue
		}
		// interesting offsets: around every frame start and inside every length prefix
		var offs []int
		start := 0
		for _, f := range seq {
			for _, d := range []int{-1, 0, 1, 2, 3, 4, 5, 7, 8, 9} {
				if o := start + d; o > 0 && o < n {
					offs = append(offs, o)
				}
			}
			start += len(alphabet[f].B)
		}
		if n <= 60 {
			offs = offs[:0]
			for o := 1; o < n; o++ {
				offs = append(offs, o)
			}
		}
		sort.Ints(offs)
		offs = uniq(offs)
		add("S-A cut sets", streamScenario{Frames: seq, FailAfter: -1, Bound: 0, ShutAt: -1})
		for i, a := range offs {
			add("S-A cut sets", streamScenario{Frames: seq, Cuts: []int{a}, FailAfter: -1, Bound: 0, ShutAt: -1})
			for j := i + 1; j < len(offs); j++ {
				b := offs[j]
				add("S-A cut sets", streamScenario{Frames: seq, Cuts: []int{a, b}, FailAfter: -1, Bound: 0, ShutAt: -1})
				if thorough && n <= 60 {
					for _, c := range offs[j+1:] {
						add("S-A cut sets", streamScenario{Frames: seq, Cuts: []int{a, b, c}, FailAfter: -1, Bound: 0, ShutAt: -1})
					}
				}
			}
		}
	}
	// reads that return no bytes and no error, before every chunk: one read per frame, one read for
	// all, and a cut inside every frame's length prefix
	for _, seq := range seqs {
		n := size(seq)
		var perFrame, inPrefix []int
		o := 0
		for _, f := range seq {
			if o+2 < n {
				inPrefix = append(inPrefix, o+2)
			}
			o += len(alphabet[f].B)
			if o < n {
				perFrame = append(perFrame, o)
			}
		}
		add("S-A empty reads", streamScenario{Frames: seq, Cuts: perFrame, ZeroReads: true, FailAfter: -1, Bound: 0, ShutAt: -1})
		add("S-A empty reads", streamScenario{Frames: seq, ZeroReads: true, FailAfter: -1, Bound: 0, ShutAt: -1})
		add("S-A empty reads", streamScenario{Frames: seq, Cuts: inPrefix, ZeroReads: true, FailAfter: -1, Bound: 0, ShutAt: -1})
	}
	// byte-at-a-time delivery of every sequence
	for _, seq := range seqs {
		n := size(seq)
		var cuts []int
		for i := 1; i < n; i++ {
			cuts = append(cuts, i)
		}
		add("S-A one byte per read", streamScenario{Frames: seq, Cuts: cuts, FailAfter: -1, Bound: 0, ShutAt: -1})
	}
	// the 3012-byte frame (larger than the read buffer and the pool buffers' capacity), cut pairs around 2048 and its prefix
	if len(alphabet) > 4 {
		big := len(alphabet[4].B)
		for _, seq := range [][]int{{4}, {0, 4, 1}, {4, 4}} {
			base := 0
			if seq[0] != 4 {
				base = len(alphabet[seq[0]].B)
			}
			var offs []int
			for _, o := range []int{1, 2, 3, 4, 5, 8, 2046, 2047, 2048, 2049, 2050, 2048 + base, 2052, big - 1, big, big + 1, big + 3} {
				if o += 0; o > 0 && o < size(seq) {
					offs = append(offs, o)
				}
			}
			sort.Ints(offs)
			offs = uniq(offs)
			add("S-A 3012-byte frame", streamScenario{Frames: seq, FailAfter: -1, Bound: 0, ShutAt: -1})
			for i, a := range offs {
				add("S-A 3012-byte frame", streamScenario{Frames: seq, Cuts: []int{a}, FailAfter: -1, Bound: 0, ShutAt: -1})
				for _, b := range offs[i+1:] {
					add("S-A 3012-byte frame", streamScenario{Frames: seq, Cuts: []int{a, b}, FailAfter: -1, Bound: 0, ShutAt: -1})
				}
			}
		}
	}
	// ---- S-B: all interleavings
	seqs = nil
	maxB := 3
	if thorough {
		maxB = 4
	}
	rec(nil, []int{0, 1, 3}, maxB)
	for _, seq := range seqs {
		n := size(seq)
		var perFrame []int
		o := 0
		for _, f := range seq[:len(seq)-1] {
			o += len(alphabet[f].B)
			perFrame = append(perFrame, o)
		}
		add("S-B all interleavings", streamScenario{Frames: seq, Cuts: perFrame, FailAfter: -1, Bound: -1, ShutAt: -1}) // one read per frame
		if len(seq) <= 2 {
			add("S-B all interleavings", streamScenario{Frames: seq, Cuts: perFrame, ZeroReads: true, FailAfter: -1, Bound: -1, ShutAt: -1})
		}
		add("S-B all interleavings", streamScenario{Frames: seq, FailAfter: -1, Bound: -1, ShutAt: -1})                 // all in one read
		if len(seq) >= 2 {
			c := len(alphabet[seq[0]].B) + 3 // inside the second frame's length prefix
			if c < n {
				add("S-B all interleavings", streamScenario{Frames: seq, Cuts: []int{c}, FailAfter: -1, Bound: -1, ShutAt: -1})
			}
		}
	}
	// ---- S-C: buffer recycling
	for _, nf := range []int{52, 60} {
		var seq []int
		for i := 0; i < nf; i++ {
			seq = append(seq, []int{0, 1, 2, 3}[i%4])
		}
		var perFrame []int
		o := 0
		for _, f := range seq[:len(seq)-1] {
			o += len(alphabet[f].B)
			perFrame = append(perFrame, o)
		}
		bounds := []int{0, 1}
		if thorough {
			bounds = []int{0, 1, 2}
		}
		for _, pol := range []string{"reader-first", "parsers-first", "consumer-first", "consumer-last"} {
			for _, b := range bounds {
				if nf == 60 && b > 1 {
					continue
				}
				add("S-C recycling", streamScenario{Frames: seq, Cuts: perFrame, FailAfter: -1, Bound: b, Devs: true, Policy: pol, ShutAt: -1})
				if b == 0 {
					add("S-C recycling", streamScenario{Frames: seq, FailAfter: -1, Bound: b, Devs: true, Policy: pol, ShutAt: -1})
				}
			}
		}
	}
	// a parser that takes its time: the frame it was handed is its own until it returns, however many
	// frames arrive meanwhile (the pool goes round while one parser call is still looking at its frame)
	for _, nf := range []int{52, 104} {
		var seq []int
		for i := 0; i < nf; i++ {
			seq = append(seq, []int{0, 1, 2, 3}[i%4])
		}
		var perFrame []int
		o := 0
		for _, f := range seq[:len(seq)-1] {
			o += len(alphabet[f].B)
			perFrame = append(perFrame, o)
		}
		for _, pol := range []string{"reader-first", "consumer-last"} {
			if nf > 52 && pol != "reader-first" {
				continue
			}
			b := 1
			if nf > 52 {
				b = 0
			}
			add("S-C slow parser", streamScenario{Frames: seq, Cuts: perFrame, SlowParser: true, FailAfter: -1, Bound: b, Devs: true, Policy: pol, ShutAt: -1})
			add("S-C slow parser", streamScenario{Frames: seq, SlowParser: true, FailAfter: -1, Bound: b, Devs: true, Policy: pol, ShutAt: -1})
		}
	}
	for _, seq := range [][]int{{0}, {0, 1}} {
		add("S-B all interleavings", streamScenario{Frames: seq, SlowParser: true, FailAfter: -1, Bound: -1, ShutAt: -1})
	}
	// oversize frames through the whole pool: 56 frames larger than a pool buffer's capacity (each
	// grows the buffer it lands in), then small ones; and a frame the parser rejects followed by more
	// frames than the pool has buffers (the buffer that held it comes round again)
	if len(alphabet) > 4 {
		var seq []int
		for i := 0; i < 56; i++ {
			seq = append(seq, 4)
		}
		seq = append(seq, 0, 1, 3, 0)
		var perFrame []int
		o := 0
		for _, f := range seq[:len(seq)-1] {
			o += len(alphabet[f].B)
			perFrame = append(perFrame, o)
		}
		for _, pol := range []string{"reader-first", "consumer-first", "consumer-last"} {
			add("S-C oversize frames through the whole pool", streamScenario{Frames: seq, Cuts: perFrame, FailAfter: -1, Bound: 0, Devs: true, Policy: pol, ShutAt: -1})
		}
		add("S-C oversize frames through the whole pool", streamScenario{Frames: seq, FailAfter: -1, Bound: 0, Devs: true, Policy: "parsers-first", ShutAt: -1})
	}
	if len(alphabet) > 5 && alphabet[5].Rejected {
		for _, at := range []int{0, 3} {
			var seq []int
			for i := 0; i < 58; i++ {
				if i == at || i == at+1 && at > 0 {
					seq = append(seq, 5)
				}
				seq = append(seq, []int{0, 1, 2, 3}[i%4])
			}
			var perFrame []int
			o := 0
			for _, f := range seq[:len(seq)-1] {
				o += len(alphabet[f].B)
				perFrame = append(perFrame, o)
			}
			for _, pol := range []string{"reader-first", "parsers-first", "consumer-first", "consumer-last"} {
				b := 0
				if at == 0 && (pol == "reader-first" || pol == "consumer-last") {
					b = 1
				}
				add("S-C rejected frame, then the pool goes round", streamScenario{Frames: seq, Cuts: perFrame, FailAfter: -1, Bound: b, Devs: true, Policy: pol, ShutAt: -1})
				add("S-C rejected frame, then the pool goes round", streamScenario{Frames: seq, FailAfter: -1, Bound: 0, Devs: true, Policy: pol, ShutAt: -1})
			}
		}
		// more rejected frames than the pool has buffers (55 of them, alternating with frames that parse):
		// a buffer that is not given back for a rejected frame is missed only when the pool runs dry
		{
			var seq []int
			for i := 0; i < 55; i++ {
				seq = append(seq, 5, []int{0, 1, 3}[i%3])
			}
			var perFrame []int
			o := 0
			for _, f := range seq[:len(seq)-1] {
				o += len(alphabet[f].B)
				perFrame = append(perFrame, o)
			}
			for _, pol := range []string{"reader-first", "consumer-last"} {
				add("S-C more rejected frames than pool buffers", streamScenario{Frames: seq, Cuts: perFrame, FailAfter: -1, Bound: 0, Devs: true, Policy: pol, ShutAt: -1})
				add("S-C more rejected frames than pool buffers", streamScenario{Frames: seq, FailAfter: -1, Bound: 0, Devs: true, Policy: pol, ShutAt: -1})
			}
		}
		// short sequences with the rejected kind: all interleavings
		for _, seq := range [][]int{{5}, {5, 0}, {0, 5}, {5, 5}, {0, 5, 1}, {5, 3, 5}} {
			var perFrame []int
			o := 0
			for _, f := range seq[:len(seq)-1] {
				o += len(alphabet[f].B)
				perFrame = append(perFrame, o)
			}
			add("S-B all interleavings", streamScenario{Frames: seq, Cuts: perFrame, FailAfter: -1, Bound: -1, ShutAt: -1})
			add("S-B all interleavings", streamScenario{Frames: seq, FailAfter: -1, Bound: -1, ShutAt: -1})
		}
	}
	// two streams in one process: frames arrive on one connection only; with one read per frame and
	// with all in one read, every single departure from the default schedule, under the policies that
	// keep the first stream's parsers busy
	for _, seq := range [][]int{{0}, {0, 1}, {3, 0, 1}, {0, 1, 2, 3, 0, 1, 2, 3}} {
		var perFrame []int
		o := 0
		for _, f := range seq[:len(seq)-1] {
			o += len(alphabet[f].B)
			perFrame = append(perFrame, o)
		}
		for _, pol := range []string{"reader-first", "consumer-last", "parsers-first"} {
			add("S-E two streams in one process", streamScenario{Frames: seq, Cuts: perFrame, TwoStreams: true, FailAfter: -1, Bound: 1, Devs: true, Policy: pol, ShutAt: -1})
			add("S-E two streams in one process", streamScenario{Frames: seq, TwoStreams: true, FailAfter: -1, Bound: 1, Devs: true, Policy: pol, ShutAt: -1})
		}
	}
	// ---- S-D: failure after every byte count, all interleavings; local shutdown
	seqs = nil
	if thorough {
		rec(nil, []int{0, 1, 2}, 2)
	} else {
		rec(nil, []int{0, 2}, 2)
	}
	for _, seq := range seqs {
		n := size(seq)
		for k := 0; k <= n; k++ {
			for _, e := range []string{"EOF", "connection reset by peer"} {
				if e != "EOF" && k%3 != 0 {
					continue
				}
				add("S-D read error", streamScenario{Frames: seq, FailAfter: k, FailErr: e, Bound: -1, ShutAt: -1})
				if e == "EOF" && (len(seq) == 1 && (k == 1 || k == n/2 || k == n) || len(seq) == 2 && seq[0] != seq[1] && k == n) {
					// the failed connection cannot be closed cleanly either: still one failure, published once
					add("S-D read error", streamScenario{Frames: seq, FailAfter: k, FailErr: e, CloseErr: true, Bound: -1, ShutAt: -1})
				}
			}
		}
		for s := 0; s <= len(seq); s++ {
			add("S-D local shutdown", streamScenario{Frames: seq, FailAfter: -1, Bound: -1, ShutAt: s})
		}
	}
	return
}

func uniq(xs []int) []int {
	var out []int
	for i, x := range xs {
		if i == 0 || x != xs[i-1] {
			out = append(out, x)
		}
	}
	return out
}

func c10RunScenario(r *ev.Run, sc streamScenario, alphabet []streamFrame, stats map[string]int64) {
	t0 := time.Now()
	learnSites(alphabet)
	e, _ := newStreamExplorer(sc, alphabet, nil, c10Check(r, alphabet, stats), r.Deadline)
	switch {
	case sc.Sched != nil:
		e.KeyFn = nil
		e.RunOne(sc.Sched)
	case sc.Bound == 0 && sc.Policy == "":
		// S-A: default schedule only
		e.KeyFn = nil
		e.RunOne(nil)
	default:
		if sc.Bound >= 0 {
			e.KeyFn = nil // state caching is only used without a preemption bound
		}
		if !e.Run() && e.HarnessErr == nil {
			r.Incomplete(fmt.Sprintf("frames %v cuts %v fail %d bound %d policy %s not fully explored (deadline)", sc.Frames, sc.Cuts, sc.FailAfter, sc.Bound, sc.Policy))
		}
	}
	if e.HarnessErr != nil {
		fmt.Println("HARNESS-ERROR:", e.HarnessErr)
		harnessFailed = true
	}
	r.Add("schedules", e.Execs)
	r.Add("transitions", e.Transitions)
	r.Add("states_visited", e.States)
	r.Add("scenarios", 1)
	r.Add("schedules:"+sc.Family, e.Execs)
	r.Add("ms:"+sc.Family, time.Since(t0).Milliseconds())
}

func c10Worker(w *Worker) {
	alphabet, _ := streamFrames()
	stats := map[string]int64{}
	// two passes over the (generated, never stored) scenario stream: the heavy families first
	// (all-interleavings, recycling, failure), dealt round-robin in order of decreasing weight, then
	// the default-schedule chunking scenarios
	isSA := func(fam string) bool { return strings.HasPrefix(fam, "S-A") }
	var heavy []streamScenario
	c10Scenarios(w.Thorough(), alphabet, func(fam string) bool { return !isSA(fam) }, func(sc streamScenario) { heavy = append(heavy, sc) })
	sort.SliceStable(heavy, func(i, j int) bool { return weight(heavy[i]) > weight(heavy[j]) })
	expired := false
	one := func(i int64, sc streamScenario) {
		if expired || !w.Mine(i) {
			return
		}
		if w.Expired() {
			w.Incomplete("scenarios left at the deadline (first unexplored: family " + sc.Family + ")")
			expired = true
			return
		}
		c10RunScenario(w.Run, sc, alphabet, stats)
		if weight(sc) > 1 && len(sc.Frames) <= 3 {
			w.Sample(map[string]any{"frames": sc.Frames, "cuts": sc.Cuts, "fail_after": sc.FailAfter, "bound": sc.Bound})
		}
	}
	var idx int64
	for _, sc := range heavy {
		one(idx, sc)
		idx++
	}
	c10Scenarios(w.Thorough(), alphabet, isSA, func(sc streamScenario) {
		one(idx, sc)
		idx++
	})
	orders := 0
	for k, v := range stats {
		if len(k) > 6 && k[:6] == "order:" {
			orders++
		} else {
			w.Add(k, v)
		}
	}
	w.Add("distinct_delivery_orders", int64(orders))
}

func weight(sc streamScenario) int {
	switch {
	case sc.Bound < 0:
		return 100 + len(sc.Frames)*10
	case len(sc.Frames) > 10:
		return 50 + sc.Bound*100
	}
	return 1
}

func c10(r *ev.Run, replay string) {
	alphabet, dropped := streamFrames()
	if replay != "" {
		var sc streamScenario
		if err := ev.LoadReplay(replay, &sc); err != nil {
			harnessFailed = true
			return
		}
		c10RunScenario(r, sc, alphabet, map[string]int64{})
		r.Set("states", 1)
		return
	}
	if !requireScheduler() {
		return
	}
	fam := c10Scenarios(r.Thorough(), alphabet, nil, nil)
	RunSharded(r, NumWorkers(), false)
	r.Set("scenario_families", fam)
	r.Set("frames_left_out", dropped)
	n := r.Counter("states_visited") + r.Counter("schedules")
	r.Set("states", n)
	r.Set("traces_validated_against_impl", r.Counter("schedules"))
	r.Set("evaluations", r.Counter("schedules"))
	for k, v := range fam {
		r.Completed(fmt.Sprintf("%s: %d scenarios", k, v))
	}
	r.Set("rule", "a state is a global state of the closed system (threads spawned at the same site are interchangeable; channel contents, connection position, deliveries); schedules = complete executions of the real MessageStream on a source-rewritten copy of util; outcome classes = all-delivered / failure:delivered-k-of-n")
	r.Assume("frames are well-formed (length >= 8); timers do not fire within the horizon (the only timer is the ten-minute ticker of the shutdown path)")
	r.Assume("frames completed before a failure but still queued when the parsers are told to stop may be undelivered (the failure clause only promises that nothing else is delivered); their number is reported as undelivered-after-failure")
	r.Assume("S-C (52/60 frames) is explored up to the stated number of departures from each of four default scheduling policies, not exhaustively")
}
