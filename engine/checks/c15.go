//go:build verif

package checks

import (
	"encoding/binary"
	"fmt"
	"sort"
	"strings"
	"time"

	of "github.com/contiv/libOpenflow/openflow13"

	"verif/bind"
	"verif/corpus"
	"verif/ev"
	"verif/pkt"
	"verif/wire"
)

// C15: the match-field registry. (a) every name of the reference table (engine/wire: OpenFlow
// 1.3.5 table 12 + OVS meta-flow) x case variants x mask on/off against FindFieldHeaderByName;
// (b) all 2^32 header words through UnmarshalHeader/MarshalHeader; (c) independence of results as an
// operation-history search over {lookup, overwrite a previous result, lookup again}; (d) the same
// operations on 2..3 threads under the controlled scheduler (c15_sched.go).
func init() {
	Registry["C15"] = c15
	Workers["C15"] = c15Worker
}

func caseVariants(s string) []string {
	mixed := []byte(strings.ToLower(s))
	for i := range mixed {
		if i%2 == 0 && mixed[i] >= 'a' && mixed[i] <= 'z' {
			mixed[i] -= 32
		}
	}
	out := []string{s, strings.ToLower(s), string(mixed)}
	// canonical prefix with the rest in lower case, and the reverse; exactly one letter lowered, at
	// every position (a shortcut keyed on how a name starts, or a fold that misses one letter or one
	// position, passes the three spellings above)
	if i := strings.Index(s, "_"); i > 0 {
		out = append(out, s[:i+1]+strings.ToLower(s[i+1:]), strings.ToLower(s[:i+1])+s[i+1:])
		if j := strings.Index(s[i+1:], "_"); j > 0 {
			out = append(out, s[:i+1+j+1]+strings.ToLower(s[i+1+j+1:]))
		}
	}
	for i := 0; i < len(s); i++ {
		if s[i] >= 'A' && s[i] <= 'Z' {
			out = append(out, s[:i]+strings.ToLower(s[i:i+1])+s[i+1:])
		}
	}
	return out
}

type c15Lookup struct {
	Name string `json:"name"`
	Mask bool   `json:"mask"`
}

func lookup(name string, mask bool) (f *of.MatchField, err error, pn any) {
	defer func() { pn = recover() }()
	f, err = of.FindFieldHeaderByName(name, mask)
	return
}

// registrySnapshot prints every raw registry entry (through the generated accessor).
func registrySnapshot() string {
	var b strings.Builder
	for _, k := range of.VerifRegistryKeys() {
		c, f, l, m, _ := of.VerifRegistryEntry(k)
		fmt.Fprintf(&b, "%s=%d/%d/%d/%v;", k, c, f, l, m)
	}
	return b.String()
}

func c15Table(r *ev.Run) int64 {
	var n int64
	var names []string
	for name := range wire.OxmByName {
		names = append(names, name)
	}
	sort.Strings(names)
	// fields of the reference table that the library does not register at the pinned commit: the
	// property quantifies over registered names, so these are outside it (fixed list: an entry
	// that disappears from the registry later is reported)
	unregistered := map[string]bool{"NXM_NX_DP_HASH": true, "NXM_NX_RECIRC_ID": true, "OXM_OF_ACTSET_OUTPUT": true, "OXM_OF_PBB_UCA": true, "OXM_OF_TCP_FLAGS": true}
	for _, name := range names {
		if unregistered[name] {
			if f, err, _ := lookup(name, false); err != nil || f == nil {
				r.Add("reference_names_not_registered", 1)
				continue
			}
		}
		info := wire.OxmByName[name]
		width := info.Width
		if width == 0 {
			width = info.MaxVar // variable-length fields are registered with their maximum
		}
		for _, v := range caseVariants(name) {
			for _, mask := range []bool{false, true} {
				n++
				r.Add("transitions", 1)
				rep := c15Lookup{v, mask}
				f, err, pn := lookup(v, mask)
				bad := func(clause, what string) {
					r.Outcome("wrong")
					r.Violation(clause+":"+name, fmt.Sprintf("%s for FindFieldHeaderByName(%q, %v)", what, v, mask), rep)
				}
				switch {
				case pn != nil:
					bad("lookup-panic", fmt.Sprintf("panicked: %v", pn))
				case err != nil || f == nil:
					if v == name {
						bad("not-registered", fmt.Sprintf("a field Open vSwitch defines is not found: %v", err))
					} else {
						bad("case-sensitive", fmt.Sprintf("found as %q but not in this spelling: %v", name, err))
					}
				default:
					want := width
					if mask {
						want *= 2
					}
					switch {
					case f.Class != info.Class || f.Field != info.Field:
						bad("class-field", fmt.Sprintf("class %#x field %d, the specification has class %#x field %d", f.Class, f.Field, info.Class, info.Field))
					case int(f.Length) != want:
						bad("width", fmt.Sprintf("length %d, the specification gives %d (width %d, mask %v)", f.Length, want, width, mask))
					case f.HasMask != mask:
						bad("mask-flag", fmt.Sprintf("mask flag %v", f.HasMask))
					case f.Value != nil || f.Mask != nil:
						bad("not-a-bare-header", "the returned header already carries a value or mask")
					default:
						r.Outcome(fmt.Sprintf("width=%d", want))
					}
				}
			}
		}
	}
	// registry entries the table lacks are reported as uncovered (not as violations); unknown names must fail
	var uncovered []string
	for _, k := range of.VerifRegistryKeys() {
		if wire.OxmByName[k] == nil {
			uncovered = append(uncovered, k)
		}
	}
	r.Set("registry_entries", len(of.VerifRegistryKeys()))
	r.Set("registry_entries_not_in_reference_table", uncovered)
	for _, bogus := range []string{"", "NXM_NX_REG16", "NXM_NX_REG", "OXM_OF_NOPE", "NXM_NX_TUN_METADATA8", " NXM_NX_REG0", "NXM_NX_REG0 "} {
		n++
		f, err, pn := lookup(bogus, false)
		if pn != nil || err == nil || f != nil {
			r.Violation("unknown-name-accepted", fmt.Sprintf("FindFieldHeaderByName(%q) returned %v, %v, panic %v; an unknown name must give an error", bogus, f, err, pn), c15Lookup{bogus, false})
		} else {
			r.Outcome("unknown-rejected")
		}
	}
	r.Completed(fmt.Sprintf("(a) all %d names of the reference table x every spelling of {as is, lower, alternating, upper prefix + lower rest, lower prefix + upper rest, one letter lowered at each position} x mask off/on (%d lookups); 7 unknown names", len(names), n))
	return n
}

// c15Histories: operation-history search for independence of results.
func c15Histories(r *ev.Run) int64 {
	pristine := registrySnapshot()
	names := []string{"NXM_NX_REG0", "NXM_NX_CT_LABEL", "OXM_OF_ETH_DST", "NXM_NX_TUN_METADATA0", "nxm_nx_reg0"}
	type op struct {
		kind string // lookup | scribble
		name string
		mask bool
	}
	var alpha []op
	for _, n := range names {
		alpha = append(alpha, op{"lookup", n, false}, op{"lookup", n, true})
	}
	alpha = append(alpha, op{"scribble", "", false})
	ref := map[string]string{}
	show := func(f *of.MatchField) string {
		return fmt.Sprintf("%d/%d/%d/%v/%v/%v", f.Class, f.Field, f.Length, f.HasMask, f.Value, f.Mask)
	}
	for _, o := range alpha {
		if o.kind == "lookup" {
			f, _, _ := lookup(o.name, o.mask)
			if f != nil {
				ref[fmt.Sprint(o.name, o.mask)] = show(f)
			}
		}
	}
	var n int64
	var rec func(seq []op)
	rec = func(seq []op) {
		if len(seq) > 0 {
			n++
			var results []*of.MatchField
			for i, o := range seq {
				r.Add("transitions", 1)
				switch o.kind {
				case "lookup":
					f, err, pn := lookup(o.name, o.mask)
					if pn != nil || err != nil || f == nil {
						continue
					}
					for _, prev := range results {
						if prev == f {
							r.Violation("shared-result", fmt.Sprintf("two lookups returned the same *MatchField (step %d of %v)", i, seq), map[string]any{"history": fmt.Sprint(seq)})
						}
					}
					if got := show(f); got != ref[fmt.Sprint(o.name, o.mask)] {
						r.Outcome("polluted")
						r.Violation("lookup-after-modification:"+strings.ToUpper(o.name), fmt.Sprintf("after %v a lookup of %s (mask %v) returns %s, a pristine lookup returns %s", seq[:i], o.name, o.mask, got, ref[fmt.Sprint(o.name, o.mask)]), map[string]any{"history": fmt.Sprint(seq)})
						return
					}
					results = append(results, f)
				case "scribble":
					for _, f := range results {
						f.Class, f.Field, f.Length, f.HasMask = 0xdead, 0x7f, 0xee, !f.HasMask
						f.Value, f.Mask = &of.ByteArrayField{Data: []byte{1}, Length: 1}, &of.ByteArrayField{Data: []byte{2}, Length: 1}
					}
				}
			}
			if now := registrySnapshot(); now != pristine {
				r.Outcome("polluted")
				r.Violation("registry-modified", fmt.Sprintf("the registry itself changed after %v", seq), map[string]any{"history": fmt.Sprint(seq)})
				return
			}
			r.Outcome("independent")
		}
		if len(seq) == 3 {
			return
		}
		for _, o := range alpha {
			rec(append(append([]op{}, seq...), o))
		}
	}
	rec(nil)
	r.Completed(fmt.Sprintf("(c) all %d operation sequences of length <= 3 over {lookup x 5 names x mask, overwrite every field of all earlier results}", n))
	return n
}

// c15Invariant: the registry and the answers of lookups stay what they were while the rest of the
// library is used: every frame of the switch corpus parsed, every packet of the packet corpus
// decoded, every shape of the controller corpus built, sized and encoded. After each operation the
// raw registry is compared with its pristine print (an operation that registers, widens or
// otherwise edits an entry as a side effect is a violation, named by the operation's root kind).
// lookupSnapshot prints the answer of FindFieldHeaderByName for every registered name, mask off and on
// (what a caller sees, wherever the library keeps it).
func lookupSnapshot() string {
	var b strings.Builder
	for _, k := range of.VerifRegistryKeys() {
		for _, mask := range []bool{false, true} {
			f, err, pn := lookup(k, mask)
			if f == nil || err != nil || pn != nil {
				fmt.Fprintf(&b, "%s/%v=!;", k, mask)
				continue
			}
			fmt.Fprintf(&b, "%s/%v=%d/%d/%d/%v;", k, mask, f.Class, f.Field, f.Length, f.HasMask)
		}
	}
	return b.String()
}

// stateDigest folds the raw registry and the answers of all lookups into one number (the printed
// forms above are only produced when the number has changed).
var c15Keys []string
var c15DigestCalls int

func stateDigest() (h uint64) {
	defer func() {
		if recover() != nil {
			h = 1
		}
	}()
	if c15Keys == nil {
		c15Keys = of.VerifRegistryKeys()
	}
	h = 14695981039346656037
	mix := func(v uint64) { h = (h ^ v) * 1099511628211 }
	for _, k := range c15Keys {
		c, f, l, m, ok := of.VerifRegistryEntry(k)
		mix(uint64(c)<<32 | uint64(f)<<16 | uint64(l)<<1)
		if m {
			mix(3)
		}
		if !ok {
			mix(5)
		}
		for _, mask := range []bool{false, true} {
			x, err := of.FindFieldHeaderByName(k, mask)
			if err != nil || x == nil {
				mix(7)
				continue
			}
			mix(uint64(x.Class)<<32 | uint64(x.Field)<<16 | uint64(x.Length)<<1)
			if x.HasMask {
				mix(11)
			}
			if x.Value != nil || x.Mask != nil {
				mix(13)
			}
		}
	}
	c15DigestCalls++
	if c15DigestCalls%64 == 0 {
		mix(uint64(len(of.VerifRegistryKeys()))) // entries added to the registry (checked every 64th call: sorting the keys is the expensive part)
	} else {
		mix(uint64(len(c15Keys)))
	}
	return h
}

func c15Invariant(r *ev.Run) int64 {
	pristine := registrySnapshot() + "|" + lookupSnapshot()
	pristineDigest := stateDigest()
	te := time.Now()
	var n int64
	reported := map[string]bool{}
	check := func(what, kind string, tree *wire.N) bool {
		n++
		r.Add("transitions", 1)
		if stateDigest() == pristineDigest {
			return true
		}
		if now := registrySnapshot() + "|" + lookupSnapshot(); now != pristine {
			if !reported[what+kind] {
				reported[what+kind] = true
				diff := ""
				a, b := strings.Split(pristine, ";"), strings.Split(now, ";")
				for i := range a {
					if i < len(b) && a[i] != b[i] {
						diff = a[i] + " -> " + b[i]
						break
					}
				}
				r.Outcome("polluted")
				r.Violation("registry-modified-by:"+what+":"+kind, fmt.Sprintf("the registry or the answer of a lookup changed (%s) while the library %s a %s", diff, what, kind), map[string]any{"operation": what, "model": tree.String(), "tree": tree})
			}
			// restore so that later operations are judged on their own
			pristine = now
			pristineDigest = stateDigest()
			return false
		}
		return true
	}
	corpus.Switch(r.Thorough(), r.Expired, func(string, bool) {}, func(t *wire.N) {
		f, _ := wire.Encode(t)
		if len(f) > 65535 {
			return
		}
		safeParse(f)
		check("parsed", rootSig(t), t)
	})
	r.Completed("(e) registry unchanged after parsing every frame of the switch corpus")
	r.Set("ms:e1 switch corpus", time.Since(te).Milliseconds())
	// ... and every frame one field value away from it (small indices, zero and maximal lengths, ...)
	sel := baseSelector{max: 2048}
	if !r.Thorough() {
		// quick: the values and masks of match fields (four fifths of all variations) are left at their
		// base patterns here; the thorough tier varies them as well
		sel.skip = func(node *wire.N) bool { return node.K == "oxm" }
	}
	for _, b := range c04Bases() {
		sel.offer(b)
	}
	corpus.Switch(false, func() bool { return false }, func(string, bool) {}, sel.offer)
	_, complete := sel.vary(r.Seed, r.Expired, func(t *wire.N, what string) {
		f, _ := wire.Encode(t)
		if len(f) > 65535 {
			return
		}
		safeParse(f)
		check("parsed", rootSig(t)+" (one field varied)", t)
	})
	if complete {
		r.Completed("(e) registry unchanged after parsing every single-field variation of the switch corpus bases" + map[bool]string{true: "", false: " (match-field values and masks at their base patterns; the thorough tier varies them too)"}[r.Thorough()])
	}
	r.Set("ms:e2 variations", time.Since(te).Milliseconds())
	corpus.Controller(false, r.Expired, func(string, bool) {}, func(t *wire.N) {
		if modelSize(t) > 65535 {
			return
		}
		m, err, pn := safeBuild(t, bind.Hist{})
		if pn != nil || err != nil || m == nil {
			return
		}
		safeLen(m)
		b, _, _ := safeEncode(m)
		check("built and encoded", rootSig(t), t)
		if len(b) >= 8 {
			safeParse(append([]byte{}, b...))
			check("parsed its own encoding of", rootSig(t), t)
		}
	})
	r.Completed("(e) registry unchanged after building, sizing, encoding and re-parsing every shape of the controller corpus")
	r.Set("ms:e3 controller", time.Since(te).Milliseconds())
	corpus.Packets(false, func(t *wire.N) {
		b, _ := pkt.Encode(t)
		func() {
			defer func() { recover() }()
			f := bind.FreshPkt(t.K)
			if f != nil {
				bind.CodecOf(f, func() any { return f }).Decode(append([]byte{}, b...))
			}
		}()
		check("decoded", "packet:"+t.K, t)
	})
	r.Completed("(e) registry unchanged after decoding every packet of the packet corpus")
	if n > 0 && len(reported) == 0 {
		r.Outcome("registry-invariant")
	}
	return n
}

// c15Worker sweeps this worker's share of all 2^32 header words.
func c15Worker(w *Worker) {
	var buf [4]byte
	var m of.MatchField
	// mv starts out as a completely decoded field (value and mask attached): the header operations
	// are about the header word alone, whatever else the struct holds
	var mv of.MatchField
	mv.UnmarshalBinary([]byte{0x00, 0x01, 0x07, 0x08, 0xde, 0xad, 0xbe, 0xef, 0xff, 0xff, 0x00, 0xff})
	var n, bad int64
	var first uint32
	for x := uint64(w.Index); x < 1<<32; x += uint64(w.N) {
		if x&0xffffff == uint64(w.Index) && w.Expired() {
			w.Incomplete(fmt.Sprintf("(b) header-word sweep stopped at %#x (deadline)", x))
			break
		}
		word := uint32(x)
		binary.BigEndian.PutUint32(buf[:], word)
		// m is reused from word to word (mask bit, class and field of the previous word are still in
		// it: a decoder that only ever sets, never clears, shows here); f is fresh for every word
		err := m.UnmarshalHeader(buf[:])
		ok := err == nil && m.Class == uint16(word>>16) && m.Field == uint8((word>>9)&0x7f) && m.HasMask == ((word>>8)&1 == 1) && m.Length == uint8(word)
		if ok {
			ok = m.MarshalHeader() == word
		}
		if ok {
			err = mv.UnmarshalHeader(buf[:])
			ok = err == nil && mv.Class == m.Class && mv.Field == m.Field && mv.HasMask == m.HasMask && mv.Length == m.Length && mv.MarshalHeader() == word
		}
		if ok {
			var f of.MatchField
			err = f.UnmarshalHeader(buf[:])
			ok = err == nil && f.Class == m.Class && f.Field == m.Field && f.HasMask == m.HasMask && f.Length == m.Length && f.MarshalHeader() == word
		}
		if !ok {
			if bad == 0 {
				first = word
			}
			bad++
		}
		n++
	}
	w.Add("header_words", n)
	w.Add("transitions", 2*n)
	if bad > 0 {
		w.Violation("header-word", fmt.Sprintf("%d header words do not unpack to (class=w>>16, field=(w>>9)&0x7f, mask=(w>>8)&1, length=w&0xff) or do not pack back to themselves, e.g. %#08x", bad, first), map[string]any{"word": first})
	}
	w.OutcomeN("header-word-exact", n-bad)
}

func c15(r *ev.Run, replay string) {
	if replay != "" {
		var c struct {
			Name string  `json:"name"`
			Mask bool    `json:"mask"`
			Word *uint32 `json:"word"`
		}
		ev.LoadReplay(replay, &c)
		c15Table(r)
		c15Histories(r)
		c15Invariant(r)
		if c.Word != nil {
			var m of.MatchField
			var buf [4]byte
			binary.BigEndian.PutUint32(buf[:], *c.Word)
			m.UnmarshalHeader(buf[:])
			if m.MarshalHeader() != *c.Word || m.Class != uint16(*c.Word>>16) || m.Field != uint8((*c.Word>>9)&0x7f) || m.Length != uint8(*c.Word) {
				r.Violation("header-word", fmt.Sprintf("header word %#08x does not unpack/pack exactly", *c.Word), map[string]any{"word": *c.Word})
			}
		}
		r.Set("states", 1)
		return
	}
	t0 := time.Now()
	lap := func(name string) { r.Set("ms:"+name, time.Since(t0).Milliseconds()); t0 = time.Now() }
	a := c15Table(r)
	lap("a table")
	c := c15Histories(r)
	lap("c histories")
	c += c15Invariant(r)
	lap("e invariance")
	RunSharded(r, NumWorkers(), false)
	lap("b header words")
	words := r.Counter("header_words")
	if words == 1<<32 {
		r.Completed("(b) all 2^32 header words: UnmarshalHeader gives (class, field, mask, length) of the word and MarshalHeader gives the word back")
	}
	d := c15Concurrent(r)
	lap("d schedules and race pass")
	r.Set("states", a+c+words+d)
	r.Set("lookup_states", a)
	r.Set("history_sequences", c)
	r.Set("traces_validated_against_impl", a+c+words+d)
	r.Set("evaluations", a+c+words+d)
	r.Set("rule", "(a) one state per (name spelling, mask); (b) one per 32-bit header word; (c) one per operation history; (d) one per explored schedule")
	r.Assume("the reference width table is engine/wire's OXM table (DESIGN Appendix A); variable-length tunnel metadata is registered with Open vSwitch's 124-byte maximum")
}
