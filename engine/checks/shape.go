//go:build verif

package checks

import (
	"bytes"
	"encoding/binary"
	"fmt"
	"sort"
	"strings"

	"github.com/contiv/libOpenflow/util"

	"verif/bind"
	"verif/corpus"
	"verif/ev"
	"verif/wire"
)

// Shared helpers of the shape-explorer checks (C01..C06, C13).

// hists is the set of builder histories explored for every shape (all lead to the same final value).
var hists = []bind.Hist{
	{},
	{Alt: true},
	{Pivot: 1},
	{Pivot: 1, Alt: true},
	{Pivot: 2},
	{LenBetween: true},
	{Variant: 1},
	{Variant: 2},
	{Variant: 3},
}

func histName(h bind.Hist) string {
	return fmt.Sprintf("pivot=%d,alt=%v,lenBetween=%v,variant=%d,lateGrow=%v", h.Pivot, h.Alt, h.LenBetween, h.Variant, h.LateGrow)
}

type shapeCase struct {
	Model string    `json:"model"`
	Hist  bind.Hist `json:"hist"`
	Tree  *wire.N   `json:"tree"`
}

// rootSig names the root kind of a model tree, with the command/type variant where the kind has one.
func rootSig(n *wire.N) string {
	switch n.K {
	case "flow_mod":
		return fmt.Sprintf("flow_mod[cmd=%d]", n.U["Command"])
	case "group_mod":
		return fmt.Sprintf("group_mod[cmd=%d]", n.U["Command"])
	case "multipart_request", "multipart_reply":
		return fmt.Sprintf("%s[type=%d]", n.K, n.U["Type"])
	case "experimenter":
		if vd := n.S["VendorData"]; vd != nil {
			if vd.K == "bundle_add" && vd.S["Message"] != nil {
				return "bundle_add(" + rootSig(vd.S["Message"]) + ")"
			}
			return vd.K
		}
		return fmt.Sprintf("experimenter[%#x/%d]", n.U["Vendor"], n.U["ExperimenterType"])
	}
	return n.K
}

// kindsIn lists the element kinds occurring in a tree (for coverage reporting).
func kindsIn(n *wire.N, into map[string]bool) {
	if n == nil {
		return
	}
	into[n.K] = true
	if n.K == "oxm" {
		cls := uint16(n.U["Class"])
		if i := wire.OxmTable[[2]uint16{cls, uint16(n.U["Field"])}]; i != nil {
			into["oxm:"+i.Name] = true
		}
	}
	for _, c := range n.S {
		kindsIn(c, into)
	}
	for _, l := range n.L {
		for _, c := range l {
			kindsIn(c, into)
		}
	}
}

// featuresIn lists what a tree contains at the granularity the value enumeration needs: every
// element kind, every (kind, field name) that is present (optional members count only when they
// are there), every match field by name with and without mask.
func featuresIn(n *wire.N, into map[string]bool) {
	if n == nil {
		return
	}
	k := featureKind(n)
	into[k] = true
	for f := range n.U {
		into[k+"."+f] = true
	}
	for f, b := range n.B {
		if len(b) > 0 {
			into[k+"."+f] = true
		}
	}
	for f, c := range n.S {
		into[k+"."+f] = true
		featuresIn(c, into)
	}
	for f, l := range n.L {
		if len(l) > 0 {
			into[k+"."+f] = true
		}
		for _, c := range l {
			featuresIn(c, into)
		}
	}
}

// featureKind names a node for featuresIn: its kind, and for match fields the field's name, mask
// flag and (variable-length fields) payload length.
func featureKind(n *wire.N) string {
	k := n.K
	if n.K == "oxm" {
		cls := uint16(n.U["Class"])
		if cls == 0xffff {
			k = fmt.Sprintf("oxm:exp:%d", n.U["Field"])
		} else if i := wire.OxmTable[[2]uint16{cls, uint16(n.U["Field"])}]; i != nil {
			k = "oxm:" + i.Name
		}
		if n.U["HasMask"] == 1 {
			k += "/masked"
		}
		if i := wire.OxmTable[[2]uint16{cls, uint16(n.U["Field"])}]; i != nil && i.Width == 0 {
			k += fmt.Sprintf("/len%d", len(n.B["Value"]))
		}
	}
	return k
}

// structureKey is the canonical print of a tree's structure without its values.
func structureKey(n *wire.N) string {
	fs := map[string]bool{}
	featuresIn(n, fs)
	ks := make([]string, 0, len(fs))
	for k := range fs {
		ks = append(ks, k)
	}
	sort.Strings(ks)
	return strings.Join(ks, ";")
}

// baseSelector picks, from an enumeration of trees, the ones that contribute a (root, feature) pair
// not seen before: every field of every kind, in every optional-member combination that introduces
// a field, ends up in at least one base under every root kind it occurs under.
type baseSelector struct {
	// skip, when set, excludes fields from the variation (by the node that holds them)
	skip  func(node *wire.N) bool
	seen  map[string]bool
	bases []*wire.N
	fresh []map[string]bool // per base: the features it was chosen for
	max   int
}

// vary runs the single-field value enumeration over every base, each restricted to the fields the
// base was chosen for (a field already varied under the same root kind in an earlier base is left at
// its base value), and returns the number of variations.
func (s *baseSelector) vary(seed int64, expired func() bool, f func(t *wire.N, what string)) (n int64, complete bool) {
	for i, base := range s.bases {
		if expired() {
			return n, false
		}
		fresh := s.fresh[i]
		corpus.VariationsOf(base, func(t *wire.N) []wire.Mark { _, m := wire.Encode(t); return m }, seed,
			func(node *wire.N, field string) bool {
				return fresh[featureKind(node)+"."+field] && (s.skip == nil || !s.skip(node))
			},
			func(t *wire.N, what string) { n++; f(t, what) })
	}
	return n, true
}

// varyPairs runs the same-element field-pair enumeration (corpus.NodePairVariations) over every
// base, restricted like vary to the fields the base was chosen for.
func (s *baseSelector) varyPairs(expired func() bool, f func(t *wire.N, what string)) (n int64, complete bool) {
	for i, base := range s.bases {
		if expired() {
			return n, false
		}
		fresh := s.fresh[i]
		corpus.NodePairVariations(base, func(t *wire.N) []wire.Mark { _, m := wire.Encode(t); return m },
			func(node *wire.N, field string) bool {
				return fresh[featureKind(node)+"."+field] && (s.skip == nil || !s.skip(node))
			},
			func(t *wire.N, what string) { n++; f(t, what) })
	}
	return n, true
}

func (s *baseSelector) offer(n *wire.N) {
	if s.seen == nil {
		s.seen = map[string]bool{}
	}
	if s.max > 0 && modelSize(n) > s.max {
		return
	}
	fs := map[string]bool{}
	featuresIn(n, fs)
	root := rootSig(n)
	fresh := map[string]bool{}
	for f := range fs {
		if !s.seen[root+"|"+f] {
			s.seen[root+"|"+f] = true
			fresh[f] = true
		}
	}
	if len(fresh) > 0 {
		s.bases = append(s.bases, n)
		s.fresh = append(s.fresh, fresh)
	}
}

// locus strips list indices from a diff path so that one defect is one signature.
func locus(d string) string {
	if i := strings.Index(d, ": "); i >= 0 {
		d = d[:i]
	}
	var b strings.Builder
	skip := false
	for _, c := range d {
		switch {
		case c == '[':
			skip = true
			b.WriteString("[]")
		case c == ']':
			skip = false
		case !skip:
			b.WriteRune(c)
		}
	}
	return b.String()
}

func safeEncode(m util.Message) (b []byte, err error, panicked any) {
	defer func() {
		if r := recover(); r != nil {
			panicked = r
		}
	}()
	b, err = m.MarshalBinary()
	return
}

func safeLen(m util.Message) (n uint16, panicked any) {
	defer func() {
		if r := recover(); r != nil {
			panicked = r
		}
	}()
	return m.Len(), nil
}

func safeBuild(n *wire.N, h bind.Hist) (m util.Message, err error, panicked any) {
	defer func() {
		if r := recover(); r != nil {
			panicked = r
		}
	}()
	m, err = bind.BuildMsg(n, h)
	return
}

// retained remembers the last few byte strings the library handed out and a private copy of
// each: a result that changes after a later, unrelated encoding shares memory with library state.
type retained struct {
	ring [8]struct {
		got, copy []byte
		label     string
	}
	n int
}

func (r *retained) add(b []byte, label string) {
	s := &r.ring[r.n%len(r.ring)]
	s.got, s.copy, s.label = b, append([]byte{}, b...), label
	r.n++
}

// changed returns the label of an earlier result that no longer equals its copy.
func (r *retained) changed() (string, bool) {
	for i := range r.ring {
		s := &r.ring[i]
		if s.got != nil && !bytes.Equal(s.got, s.copy) {
			l := s.label
			s.got = nil
			return l, true
		}
	}
	return "", false
}

func be16(b []byte) int { return int(binary.BigEndian.Uint16(b)) }

// modelSize is the size the reference encoder gives the message (to skip shapes above 65535).
func modelSize(n *wire.N) int {
	b, _ := wire.Encode(n)
	return len(b)
}

// forEachControllerShape drives a check over the controller-originated corpus x histories.
func forEachControllerShape(r *ev.Run, f func(n *wire.N, h bind.Hist)) (shapes int64) {
	kinds := map[string]bool{}
	corpus.Controller(r.Thorough(), r.Expired, func(name string, complete bool) {
		if complete {
			r.Completed(name)
		} else {
			r.Incomplete(name)
		}
	}, func(n *wire.N) {
		if modelSize(n) > 65535 {
			r.Add("skipped_over_65535", 1)
			return
		}
		shapes++
		kindsIn(n, kinds)
		if shapes&(shapes-1) == 0 {
			r.Sample(corpus.Label(n))
		}
		nh := 0
		for _, h := range hists {
			// histories only differ for shapes with at least two children somewhere, or optional ctor variants
			if (h != bind.Hist{}) && !hasLists(n) && h.Variant == 0 && !h.LenBetween {
				continue
			}
			nh++
			f(n, h)
		}
		r.Add("histories", int64(nh))
	})
	// late growth: a conntrack action filled after it was attached, followed by further adds
	for _, n := range corpus.LateGrowthShapes() {
		if n.K == "packet_out" {
			continue // packet-out caches its actions length at add time (C06 covers its sizes only)
		}
		shapes++
		f(n, bind.Hist{})
		f(n, bind.Hist{LateGrow: true})
		r.Add("histories", 2)
		r.Add("late_growth_histories", 1)
	}
	r.Completed("late growth: conntrack action attached bare, filled afterwards, followed by further actions (apply/write actions, also inside bundle-add)")
	var ks []string
	for k := range kinds {
		ks = append(ks, k)
	}
	r.Set("element_kinds_covered", len(ks))
	return
}

func hasLists(n *wire.N) bool {
	if n == nil {
		return false
	}
	for _, l := range n.L {
		if len(l) >= 2 {
			return true
		}
		for _, c := range l {
			if hasLists(c) {
				return true
			}
		}
	}
	for _, c := range n.S {
		if hasLists(c) {
			return true
		}
	}
	if n.K == "nx_nat" {
		return true
	}
	return false
}
