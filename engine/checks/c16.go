//go:build verif

package checks

import (
	"encoding/binary"
	"fmt"
	"math/big"

	of "github.com/contiv/libOpenflow/openflow13"

	"verif/ev"
)

// C16: bit-range helpers. Complete enumeration of both domains in both tiers:
// all 528 ranges inside a 32-bit register, and all 1024 x 64 (offset, width) pairs of the
// 16-bit offset/width word. Reference: math/big for masks, the formula of Appendix A
// (ofs<<6 | nbits-1) for the word.
func init() { Registry["C16"] = c16 }

type c16Case struct {
	Clause string `json:"clause"`
	First  int    `json:"first"`
	Last   int    `json:"last"`
}

func c16Range(r *ev.Run, first, last int) {
	rep := c16Case{First: first, Last: last}
	bad := func(clause, what string) {
		rep.Clause = clause
		r.Violation(fmt.Sprintf("%s:first=%d,last=%d", clause, first, last), what, rep)
	}
	defer func() {
		if p := recover(); p != nil {
			bad("panic", fmt.Sprintf("range helper panicked for range [%d..%d]: %v", first, last, p))
		}
	}()
	n := last - first + 1
	exp := new(big.Int).Lsh(big.NewInt(1), uint(n))
	exp.Sub(exp, big.NewInt(1)).Lsh(exp, uint(first))
	want := uint32(exp.Uint64())
	r1 := of.NewNXRange(first, last)
	r2 := of.NewNXRangeByOfsNBits(first, n)
	r.Add("transitions", 10)
	if g := r1.ToUint32Mask(); g != want {
		bad("mask", fmt.Sprintf("NewNXRange(%d,%d).ToUint32Mask() = %#08x, the bits of the range are %#08x", first, last, g, want))
	}
	if g := r2.ToUint32Mask(); g != want {
		bad("mask-by-ofs-nbits", fmt.Sprintf("NewNXRangeByOfsNBits(%d,%d).ToUint32Mask() = %#08x, want %#08x", first, n, g, want))
	}
	word := uint16(first)<<6 | uint16(n-1)
	if g := r1.ToOfsBits(); g != word {
		bad("ofsbits", fmt.Sprintf("NewNXRange(%d,%d).ToOfsBits() = %#04x, want ofs<<6|(nbits-1) = %#04x", first, last, g, word))
	}
	if g := r2.ToOfsBits(); g != word {
		bad("ofsbits-by-ofs-nbits", fmt.Sprintf("NewNXRangeByOfsNBits(%d,%d).ToOfsBits() = %#04x, want %#04x", first, n, g, word))
	}
	if r1.GetOfs() != uint16(first) || r2.GetOfs() != uint16(first) {
		bad("getofs", fmt.Sprintf("GetOfs() = %d / %d, want %d", r1.GetOfs(), r2.GetOfs(), first))
	}
	if r1.GetNbits() != uint16(n) || r2.GetNbits() != uint16(n) {
		bad("getnbits", fmt.Sprintf("GetNbits() = %d / %d, want %d", r1.GetNbits(), r2.GetNbits(), n))
	}
	// mask bytes of register match fields built from the range
	for _, idx := range []int{0, 7, 15} {
		val := uint32(0x01020304) & want
		f := of.NewRegMatchField(idx, val, of.NewNXRange(first, last))
		b, err := f.MarshalBinary()
		if err != nil || len(b) != 12 {
			bad("regfield-size", fmt.Sprintf("NewRegMatchField(%d, v, [%d..%d]) encodes to %d bytes (err %v), want 12", idx, first, last, len(b), err))
			continue
		}
		if g := binary.BigEndian.Uint32(b[8:]); g != want {
			bad("regfield-mask", fmt.Sprintf("mask bytes of NewRegMatchField(%d, v, [%d..%d]) = %#08x, want %#08x", idx, first, last, g, want))
		}
		if g := binary.BigEndian.Uint32(b[4:]); g != val {
			bad("regfield-value", fmt.Sprintf("value bytes of NewRegMatchField(%d, %#x, [%d..%d]) = %#08x", idx, val, first, last, g))
		}
		if hdr := binary.BigEndian.Uint32(b); hdr != 0x00010000|uint32(idx)<<9|1<<8|8 {
			bad("regfield-header", fmt.Sprintf("header of NewRegMatchField(%d, ..) = %#08x", idx, hdr))
		}
	}
	// the conntrack zone-from-register form embeds the word
	fh, _ := of.FindFieldHeaderByName("NXM_NX_REG3", false)
	c16Histories(r, first, n, 3, bad)
	ct := of.NewNXActionConnTrack().ZoneRange(fh, of.NewNXRange(first, last))
	if b, err := ct.MarshalBinary(); err != nil || len(b) < 18 || binary.BigEndian.Uint16(b[16:]) != word {
		bad("ct-zone-word", fmt.Sprintf("conntrack ZoneRange([%d..%d]) does not carry %#04x at offset 16", first, last, word))
	}
}

func c16Word(r *ev.Run, ofs, nbits int, missing map[string]bool) {
	rep := c16Case{First: ofs, Last: ofs + nbits - 1}
	bad := func(clause, what string) {
		rep.Clause = clause
		r.Violation(fmt.Sprintf("%s:ofs=%d,nbits=%d", clause, ofs, nbits), what, rep)
	}
	defer func() {
		if p := recover(); p != nil {
			bad("word-panic", fmt.Sprintf("offset/width helper panicked for (%d,%d): %v", ofs, nbits, p))
		}
	}()
	word := uint16(ofs)<<6 | uint16(nbits-1)
	r.Add("transitions", 6)
	if g, ok := of.VerifEncodeOfsNbits(uint16(ofs), uint16(nbits)); !ok {
		missing["encodeOfsNbits"] = true
	} else if g != word {
		bad("encode", fmt.Sprintf("encodeOfsNbits(%d,%d) = %#04x, want %#04x", ofs, nbits, g, word))
	}
	if g, ok := of.VerifEncodeOfsNbitsStartEnd(uint16(ofs), uint16(ofs+nbits-1)); !ok {
		missing["encodeOfsNbitsStartEnd"] = true
	} else if g != word {
		bad("encode-start-end", fmt.Sprintf("encodeOfsNbitsStartEnd(%d,%d) = %#04x, want %#04x", ofs, ofs+nbits-1, g, word))
	}
	if g, ok := of.VerifDecodeOfs(word); !ok {
		missing["decodeOfs"] = true
	} else if g != uint16(ofs) {
		bad("decode-ofs", fmt.Sprintf("decodeOfs(%#04x) = %d, want %d", word, g, ofs))
	}
	if g, ok := of.VerifDecodeNbits(word); !ok {
		missing["decodeNbits"] = true
	} else if g != uint16(nbits) {
		bad("decode-nbits", fmt.Sprintf("decodeNbits(%#04x) = %d, want %d", word, g, nbits))
	}
	rg := of.NewNXRangeByOfsNBits(ofs, nbits)
	if g := rg.ToOfsBits(); g != word {
		bad("range-word", fmt.Sprintf("NewNXRangeByOfsNBits(%d,%d).ToOfsBits() = %#04x, want %#04x", ofs, nbits, g, word))
	}
	if rg.GetOfs() != uint16(ofs) || rg.GetNbits() != uint16(nbits) {
		bad("range-get", fmt.Sprintf("NewNXRangeByOfsNBits(%d,%d): GetOfs %d GetNbits %d", ofs, nbits, rg.GetOfs(), rg.GetNbits()))
	}
	if g := of.NewNXRange(ofs, ofs+nbits-1).ToOfsBits(); g != word {
		bad("range-word-start-end", fmt.Sprintf("NewNXRange(%d,%d).ToOfsBits() = %#04x, want %#04x", ofs, ofs+nbits-1, g, word))
	}
	c16Histories(r, ofs, nbits, 2, bad)
}

// c16Obs are the observations a range object offers; none of them may change what a later one returns.
var c16Obs = []struct {
	name string
	f    func(*of.NXRange) uint64
}{
	{"ToUint32Mask", func(n *of.NXRange) uint64 { return uint64(n.ToUint32Mask()) }},
	{"ToOfsBits", func(n *of.NXRange) uint64 { return uint64(n.ToOfsBits()) }},
	{"GetOfs", func(n *of.NXRange) uint64 { return uint64(n.GetOfs()) }},
	{"GetNbits", func(n *of.NXRange) uint64 { return uint64(n.GetNbits()) }},
}

// c16Histories runs every sequence of observations up to the given depth on one range object (built
// both ways) and compares each result with the one a fresh object gives: history independence.
func c16Histories(r *ev.Run, ofs, nbits, depth int, bad func(clause, what string)) {
	mk := []func() *of.NXRange{
		func() *of.NXRange { return of.NewNXRangeByOfsNBits(ofs, nbits) },
		func() *of.NXRange { return of.NewNXRange(ofs, ofs+nbits-1) },
	}
	for ci, c := range mk {
		var fresh [4]uint64
		for i, o := range c16Obs {
			fresh[i] = o.f(c())
		}
		seq := make([]int, depth)
		var rec func(d int)
		rec = func(d int) {
			if d == depth {
				obj := c()
				for k, oi := range seq {
					if g := c16Obs[oi].f(obj); g != fresh[oi] {
						names := ""
						for _, x := range seq[:k+1] {
							names += c16Obs[x].name + ";"
						}
						bad("history:"+c16Obs[oi].name, fmt.Sprintf("range (offset %d, width %d, constructor %d): %s returns %#x after the calls %s on the same object, %#x on a fresh one", ofs, nbits, ci, c16Obs[oi].name, g, names, fresh[oi]))
						return
					}
				}
				r.Add("transitions", int64(depth))
				r.Add("observation_histories", 1)
				return
			}
			for i := range c16Obs {
				seq[d] = i
				rec(d + 1)
			}
		}
		rec(0)
	}
}

func c16(r *ev.Run, replay string) {
	missing := map[string]bool{}
	if replay != "" {
		var c c16Case
		if err := ev.LoadReplay(replay, &c); err != nil {
			fmt.Println("cannot load replay:", err)
			return
		}
		if c.Last <= 31 && c.Clause != "" && c.Clause[0] != 'e' && c.Clause[0] != 'd' && c.Clause[0] != 'w' && c.Clause != "range-word" && c.Clause != "range-get" && c.Clause != "range-word-start-end" {
			c16Range(r, c.First, c.Last)
		}
		c16Word(r, c.First, c.Last-c.First+1, missing)
		r.Set("states", 1)
		r.Set("replayed", c)
		return
	}
	states := 0
	masks := map[uint32]bool{}
	for first := 0; first <= 31; first++ {
		for last := first; last <= 31; last++ {
			c16Range(r, first, last)
			states++
			masks[of.NewNXRange(first, last).ToUint32Mask()] = true
			r.Sample(map[string]int{"first": first, "last": last})
		}
	}
	r.Completed("all 528 ranges 0<=first<=last<=31, by (first,last) and by (offset,width)")
	words := map[uint16]bool{}
	for ofs := 0; ofs < 1024; ofs++ {
		for nb := 1; nb <= 64; nb++ {
			c16Word(r, ofs, nb, missing)
			states++
			words[of.NewNXRangeByOfsNBits(ofs, nb).ToOfsBits()] = true
		}
	}
	r.Completed("all 1024x64 (offset,width) pairs of the 16-bit word")
	r.Set("states", states)
	r.Set("traces_validated_against_impl", states)
	r.Set("evaluations", states)
	r.Set("distinct_nontrivial", len(masks)+len(words))
	r.Set("rule", "every range / every (offset,width) pair enumerated once; distinct = distinct masks + distinct words produced by the library")
	r.OutcomeN("distinct-masks", int64(len(masks)))
	r.OutcomeN("distinct-words", int64(len(words)))
	r.Set("exhaustive", true)
	if len(missing) > 0 {
		var m []string
		for k := range missing {
			m = append(m, k)
		}
		r.Set("helpers_not_found_in_tree", m)
	}
	r.Assume("reference masks computed with math/big; word formula ofs<<6|(nbits-1) from OVS nicira-ext.h")
}
