//go:build verif

package checks

import (
	"bytes"
	"errors"
	"fmt"
	"hash/fnv"
	"io"
	"net"
	"reflect"
	"sort"
	"strings"
	"time"

	of "github.com/contiv/libOpenflow/openflow13"
	"github.com/contiv/libOpenflow/util"
	verifrt "github.com/contiv/libOpenflow/verifrt"
	"github.com/sirupsen/logrus"

	"verif/bind"
	"verif/corpus"
	"verif/wire"
)

// Shared harness of the stream properties C10 (inbound) and C11 (outbound): the real
// util.MessageStream (source-rewritten: every channel operation, select, go statement is a
// scheduling point) over a scripted in-memory connection whose reads are environment points.

// scriptConn is the scripted net.Conn.
type scriptConn struct {
	chunks  [][]byte // what successive Reads return
	pos     int
	failErr error // returned by Read once the chunks are exhausted (nil: Read blocks)
	closed  bool
	written [][]byte // one entry per Write call
	reads   int
	// readDeadline: a read deadline is armed; timeouts counts how often a Read timed out
	readDeadline bool
	timeouts     int
	// write fault: the faultAt-th Write (0-based; -1: never) accepts faultN bytes and reports a timeout
	faultAt, faultN int
	nwrites         int
	// closeErr: Close reports an error (a TLS connection that cannot send its close notification does)
	closeErr bool
}

type fakeAddr struct{}

func (fakeAddr) Network() string { return "script" }
func (fakeAddr) String() string  { return "script" }

func (c *scriptConn) Read(p []byte) (int, error) {
	verifrt.Wait("conn.Read", func() bool { return c.closed || c.pos < len(c.chunks) || c.failErr != nil || c.readDeadline })
	c.reads++
	if c.closed {
		return 0, errors.New("use of closed network connection")
	}
	if c.pos < len(c.chunks) {
		ch := c.chunks[c.pos]
		n := copy(p, ch)
		if n < len(ch) {
			c.chunks[c.pos] = ch[n:]
		} else {
			c.pos++
		}
		verifrt.Observe(hashBytes(p[:n]))
		return n, nil
	}
	if c.failErr == nil && c.readDeadline {
		c.readDeadline = false // one expiry per arming
		c.timeouts++
		return 0, timeoutError{}
	}
	return 0, c.failErr
}

func (c *scriptConn) Write(p []byte) (int, error) {
	verifrt.Yield("conn.Write")
	if c.closed {
		return 0, errors.New("use of closed network connection")
	}
	c.nwrites++
	if c.faultAt >= 0 && c.nwrites-1 == c.faultAt {
		n := c.faultN
		if n > len(p) {
			n = len(p)
		}
		c.written = append(c.written, append([]byte{}, p[:n]...))
		return n, timeoutError{}
	}
	c.written = append(c.written, append([]byte{}, p...))
	return len(p), nil
}

func (c *scriptConn) Close() error {
	verifrt.Yield("conn.Close")
	c.closed = true
	if c.closeErr {
		return errors.New("tls: failed to send closeNotify alert (but connection was closed anyway)")
	}
	return nil
}
func (c *scriptConn) LocalAddr() net.Addr                { return fakeAddr{} }
func (c *scriptConn) RemoteAddr() net.Addr               { return fakeAddr{} }
// Deadlines follow net.Conn: SetDeadline arms both directions. Time is virtual here and the peers of
// a connection may be idle for as long as they like, so a Read that would block while a read
// deadline is armed may time out at any moment the explorer chooses. (Write deadlines are not
// modelled: a failed write ends the process by design and is outside the properties.)
func (c *scriptConn) SetDeadline(t time.Time) error      { c.readDeadline = !t.IsZero(); return nil }
func (c *scriptConn) SetReadDeadline(t time.Time) error  { c.readDeadline = !t.IsZero(); return nil }
func (c *scriptConn) SetWriteDeadline(t time.Time) error { return nil }

type timeoutError struct{}

func (timeoutError) Error() string   { return "i/o timeout" }
func (timeoutError) Timeout() bool   { return true }
func (timeoutError) Temporary() bool { return true }

func (c *scriptConn) key() uint64 {
	h := uint64(c.pos)<<32 | uint64(len(c.written))<<8
	if c.closed {
		h |= 1
	}
	if c.readDeadline {
		h |= 2
	}
	h ^= uint64(c.timeouts) << 4
	if c.pos < len(c.chunks) {
		h ^= uint64(len(c.chunks[c.pos])) << 48
	}
	for _, w := range c.written {
		h = h*1099511628211 ^ hashBytes(w)
	}
	return h
}

func hashBytes(b []byte) uint64 {
	h := fnv.New64a()
	h.Write(b)
	return h.Sum64()
}

// ofParser is the parser handed to the stream (openflow13.Parse). When seen is set it records the
// frames it was asked to parse: a frame a parser goroutine has taken and parsed belongs to the
// consumer, whatever happens to the connection afterwards.
type ofParser struct {
	seen *[][]byte
	// slow: parsing takes time: the other goroutines of the process run between the moment the parser
	// is handed the frame and the moment it looks at it (the frame is the parser's until Parse returns)
	slow bool
}

func (p ofParser) Parse(b []byte) (util.Message, error) {
	if p.slow {
		verifrt.Yield("parser.Parse")
	}
	if p.seen != nil {
		*p.seen = append(*p.seen, append([]byte{}, b...))
	}
	return of.Parse(b)
}

// unencodable is a message whose encoder reports an error (as a vendor message with a broken payload does).
type unencodable struct{}

func (unencodable) Len() uint16                    { return 8 }
func (unencodable) MarshalBinary() ([]byte, error) { return nil, errors.New("this message cannot be encoded") }
func (unencodable) UnmarshalBinary([]byte) error   { return nil }

// streamDigest maps values travelling through the stream's channels to numbers (state key).
func streamDigest(v any) uint64 {
	switch x := v.(type) {
	case nil:
		return 1
	case *bytes.Buffer:
		if x == nil {
			return 2
		}
		return hashBytes(x.Bytes()) ^ 0xb0f
	case bool:
		if x {
			return 3
		}
		return 4
	case error:
		return hashBytes([]byte(x.Error())) ^ 0xe44
	case util.Message:
		if reflect.ValueOf(x).Kind() == reflect.Ptr && reflect.ValueOf(x).IsNil() {
			return 5
		}
		b, err, pn := safeEncode(x)
		if pn != nil || err != nil {
			return 6
		}
		return hashBytes(b) ^ 0x3e55
	}
	return hashBytes([]byte(fmt.Sprintf("%T%v", v, v)))
}

func init() {
	logrus.StandardLogger().ExitFunc = func(code int) { panic(verifrt.FatalSentinel{Code: code}) }
}

// ---- frames -----------------------------------------------------------------------------------

type streamFrame struct {
	Name string
	B    []byte
	// Rejected: a well-formed frame of a kind the parser has no decoder for. The stream may hand the
	// consumer a nil message for it or nothing at all; every other frame must still arrive intact.
	Rejected bool
}

// streamFrames returns the frame alphabet: every frame parses and re-encodes to itself in a
// sequential run (verified here; frames that do not are left out and named in the evidence).
func streamFrames() (ok []streamFrame, dropped []string) {
	mk := func(name string, n *wire.N) {
		b, _ := wire.Encode(n)
		m, err, pn := safeParse(append([]byte{}, b...))
		if pn != nil || err != nil || m == nil {
			dropped = append(dropped, name+": does not parse")
			return
		}
		e, err, pn := safeEncode(m)
		if pn != nil || err != nil || !bytes.Equal(e, b) {
			dropped = append(dropped, name+": does not re-encode to itself")
			return
		}
		ok = append(ok, streamFrame{Name: name, B: b})
	}
	mk("echo", wire.New("echo_request").Set("Xid", 0x0e0e0e01))
	mk("hello", wire.New("hello").Set("Xid", 0x0e0e0e02).Add("Elements", wire.New("hello_elem_versionbitmap").Set("Type", 1).SetB("Bitmaps", []byte{0, 0, 0, 0x10})))
	mk("error17", corpus.ErrorMsg(1, 2, corpus.Payload(5)).Set("Xid", 0x0e0e0e03))
	mk("packet-in", corpus.PacketIn(1, corpus.Match(corpus.OxmByName("OXM_OF_IN_PORT", false, 1)), corpus.EthFrame("ipv4-udp")).Set("Xid", 0x0e0e0e04))
	mk("error3012", corpus.ErrorMsg(3, 4, corpus.Payload(3000)).Set("Xid", 0x0e0e0e05))
	// OFPT_ROLE_REPLY (type 25, 24 bytes): well-formed, sent by real switches, not decoded by Parse
	role := []byte{4, 25, 0, 24, 0x0e, 0x0e, 0x0e, 0x06, 0, 0, 0, 2, 0, 0, 0, 0, 1, 2, 3, 4, 5, 6, 7, 8}
	if m, err, pn := safeParse(append([]byte{}, role...)); pn == nil && (err != nil || m == nil) {
		ok = append(ok, streamFrame{Name: "role-reply", B: role, Rejected: true})
	} else {
		dropped = append(dropped, "role-reply: the parser does not reject it")
	}
	// hellos of a peer that speaks a later or an earlier version (appended: the indices above are used by scenarios)
	for _, v := range []uint64{5, 1} {
		mk(fmt.Sprintf("hello-v%d", v), wire.New("hello").Set("Version", v).Set("Xid", 0x0e0e0e07).Add("Elements", wire.New("hello_elem_versionbitmap").Set("Type", 1).SetB("Bitmaps", []byte{0, 0, 0, byte(1<<4 | 1<<v)})))
	}
	return
}

// distinctFrame returns a copy of f with the transaction id replaced (so that every frame of a
// scenario is distinguishable: a duplicated or merged delivery is visible).
func distinctFrame(f streamFrame, i int) []byte {
	b := append([]byte{}, f.B...)
	b[4], b[5], b[6], b[7] = 0xa0, byte(i>>8), byte(i), b[7]
	return b
}

// ---- scenario ---------------------------------------------------------------------------------

// streamScenario describes one closed system around the stream.
type streamScenario struct {
	Frames    []int   `json:"frames"`     // indices into the frame alphabet (inbound)
	Cuts      []int   `json:"cuts"`       // read-chunk boundaries (offsets into the byte stream)
	FailAfter int     `json:"fail_after"` // bytes delivered before Read fails; -1 = never
	FailErr   string  `json:"fail_err"`
	Producers [][]int `json:"producers"` // outbound: per producer the message kinds it submits
	Policy    string  `json:"policy"`
	Bound     int     `json:"bound"` // preemption bound; -1 = all interleavings (state-cached)
	Sched     []int   `json:"schedule,omitempty"`
	ShutAt    int     `json:"shut_at"` // local shutdown by the harness after this many deliveries; -1 = never
	Family    string  `json:"family,omitempty"`
	Devs      bool    `json:"deviation_bound,omitempty"` // Bound counts departures from the default policy instead of preemptions
	// Reuse: a producer builds one object per message kind and submits that same object every time
	// the kind recurs in its body (a keep-alive built once). AsBuffer: the objects are *util.Buffer
	// values holding the pre-encoded bytes (the stream accepts any util.Message).
	Reuse    bool  `json:"reuse_objects,omitempty"`
	// WriteFault [k, n]: the k-th Write call (0-based) accepts n bytes and returns a timeout error.
	// Unencodable: message kind index -1 in a producer body is a message whose MarshalBinary fails.
	WriteFault []int `json:"write_fault,omitempty"`
	// TwoStreams: a second MessageStream on a connection of its own (on which nothing ever arrives)
	// lives in the same process; nothing may reach its consumer
	TwoStreams bool `json:"two_streams,omitempty"`
	// ZeroReads: before every chunk (and once more behind the last) a Read returns (0, nil), which
	// io.Reader allows and callers must treat as "nothing happened"
	ZeroReads bool `json:"zero_reads,omitempty"`
	// ZeroXid: every submitted message carries transaction id 0 (asynchronous replies and raw frames do)
	ZeroXid bool `json:"zero_xid,omitempty"`
	AsBuffer bool  `json:"as_buffer,omitempty"`
	// SlowParser: the parser yields to the other goroutines before it looks at the frame it was given.
	// CloseErr: closing the connection reports an error.
	// Clock: virtual time moves on to the next pending timer (due within a minute) whenever everything
	// has come to rest, up to this many times
	Clock      int  `json:"clock_ticks,omitempty"`
	SlowParser bool `json:"slow_parser,omitempty"`
	CloseErr   bool `json:"close_error,omitempty"`
	OutSizes []int `json:"out_sizes,omitempty"`
	OutKinds  []int   `json:"out_kinds,omitempty"` // outbound kind sweep: indices into the list of all encodable message kinds // outbound size sweep: total sizes of packet-outs submitted by one producer
}

type delivered struct {
	m   util.Message
	enc []byte
}

type streamRun struct {
	sc        streamScenario
	frames    [][]byte
	stream    []byte
	conn      *scriptConn
	ms        *util.MessageStream
	got       []delivered
	submitted [][][]byte // per producer, the encodings submitted in order
	prodDone  int
	parsed    [][]byte // the frames the stream handed to its parser, in order
	gotOther  int      // deliveries on the second stream (TwoStreams)
	errs      int      // errors received from the error channel by the harness's error consumer
}

func policyPrio(policy string) func(name string) int {
	return func(name string) int {
		isParser := strings.HasPrefix(name, "stream.go:") && parserSite != "" && name == parserSite
		switch policy {
		case "parsers-first":
			if isParser {
				return -1
			}
		case "consumer-first":
			if name == "consumer" {
				return -1
			}
		case "consumer-last":
			if name == "consumer" {
				return 9
			}
		case "reader-first":
			if name == readerSite {
				return -1
			}
		}
		return 0
	}
}

// spawn sites of the stream's goroutines (learnt from the first execution: names are file:line)
var parserSite, readerSite string

// newStreamExplorer builds the explorer for a scenario. check is called at quiescence.
func newStreamExplorer(sc streamScenario, alphabet []streamFrame, outAlphabet []*wire.N, check func(run *streamRun, x *verifrt.Exec), deadline time.Time) (*verifrt.Explorer, *streamRun) {
	run := &streamRun{sc: sc}
	for i, fi := range sc.Frames {
		f := distinctFrame(alphabet[fi], i+1)
		run.frames = append(run.frames, f)
		run.stream = append(run.stream, f...)
	}
	e := &verifrt.Explorer{Bound: sc.Bound, MaxSteps: 20000, Deadline: deadline, Symmetric: true, Deviations: sc.Devs}
	if sc.Policy == "slow-peer" {
		// whoever is about to write to the connection runs only when nobody else can: submissions
		// back up behind the writer as far as the stream lets them
		e.LateSite = func(site string) bool { return site == "conn.Write" }
	} else if sc.Policy != "" {
		e.Prio = policyPrio(sc.Policy)
	}
	verifrt.Digest = streamDigest
	e.Setup = func() {
		total := len(run.stream)
		if sc.FailAfter >= 0 && sc.FailAfter < total {
			total = sc.FailAfter
		}
		var chunks [][]byte
		prev := 0
		cuts := append([]int{}, sc.Cuts...)
		sort.Ints(cuts)
		for _, c := range cuts {
			if c > prev && c < total {
				chunks = append(chunks, append([]byte{}, run.stream[prev:c]...))
				prev = c
			}
		}
		if total > prev {
			chunks = append(chunks, append([]byte{}, run.stream[prev:total]...))
		}
		if sc.ZeroReads {
			var z [][]byte
			for _, c := range chunks {
				z = append(z, []byte{}, c)
			}
			chunks = append(z, []byte{})
		}
		run.conn = &scriptConn{chunks: chunks, faultAt: -1, closeErr: sc.CloseErr}
		if sc.WriteFault != nil {
			run.conn.faultAt, run.conn.faultN = sc.WriteFault[0], sc.WriteFault[1]
		}
		if sc.FailAfter >= 0 {
			run.conn.failErr = errors.New(sc.FailErr)
			if sc.FailErr == "EOF" {
				run.conn.failErr = io.EOF // the very value a closed TCP connection yields
			}
		}
		run.got = nil
		run.submitted = make([][][]byte, len(sc.Producers))
		run.prodDone = 0
		run.ms = nil
	}
	e.Body = func() {
		run.parsed = nil
		run.gotOther = 0
		run.errs = 0
		if sc.TwoStreams {
			other := util.NewMessageStream(&scriptConn{faultAt: -1}, ofParser{})
			verifrt.GoNamed("consumer-of-the-other-connection", func() {
				for {
					verifrt.Recv(other.Inbound)
					run.gotOther++
					verifrt.Observe(uint64(run.gotOther) * 7919)
				}
			})
		}
		ms := util.NewMessageStream(run.conn, ofParser{seen: &run.parsed, slow: sc.SlowParser})
		run.ms = ms
		verifrt.NameChan(ms.Inbound, 1)
		verifrt.NameChan(ms.Outbound, 2)
		verifrt.NameChan(ms.Error, 3)
		verifrt.NameChan(ms.Shutdown, 4)
		if p := ms.VerifPool(); p != nil {
			verifrt.NameChan(p.Empty, 5)
			verifrt.NameChan(p.Full, 6)
		}
		if ps := reflect.ValueOf(ms).Elem().FieldByName("parserShutdown"); ps.IsValid() {
			verifrt.NameChanID(ps.Pointer(), 7)
		}
		if sc.CloseErr {
			// whoever uses a stream listens on its error channel
			verifrt.GoNamed("error-consumer", func() {
				for {
					verifrt.Recv(ms.Error)
					run.errs++
					verifrt.Observe(uint64(run.errs) * 104729)
				}
			})
		}
		if sc.Clock > 0 {
			verifrt.GoNamed("clock", func() {
				for i := 0; i < sc.Clock; i++ {
					var t *verifrt.VTimer
					verifrt.WaitIdle("clock", func() bool { t = verifrt.PendingTimer(time.Minute); return t != nil })
					verifrt.FireTimer(t)
				}
			})
		}
		verifrt.GoNamed("consumer", func() {
			for {
				m := verifrt.Recv(ms.Inbound)
				d := delivered{m: m}
				if m != nil && !(reflect.ValueOf(m).Kind() == reflect.Ptr && reflect.ValueOf(m).IsNil()) {
					if b, err, pn := safeEncode(m); pn == nil && err == nil {
						d.enc = append([]byte{}, b...)
					}
				}
				run.got = append(run.got, d)
				verifrt.Observe(hashBytes(d.enc) ^ uint64(len(run.got)))
				if sc.ShutAt >= 0 && len(run.got) == sc.ShutAt {
					verifrt.Send(ms.Shutdown, true)
				}
			}
		})
		for pi, kinds := range sc.Producers {
			pi, kinds := pi, kinds
			verifrt.GoNamed(fmt.Sprintf("producer%d", pi), func() {
				built := map[int]util.Message{}
				for k, kind := range kinds {
					if prev, ok := built[kind]; ok && sc.Reuse {
						eb, err := prev.MarshalBinary()
						if err != nil {
							panic("harness: outbound message cannot be encoded")
						}
						run.submitted[pi] = append(run.submitted[pi], append([]byte{}, eb...))
						verifrt.Send(ms.Outbound, prev)
						continue
					}
					if kind < 0 {
						// a message that cannot be encoded: nothing of it can reach the wire, everything
						// submitted around it must
						run.submitted[pi] = append(run.submitted[pi], nil)
						verifrt.Send(ms.Outbound, util.Message(unencodable{}))
						continue
					}
					m, err := bind.BuildMsg(outAlphabet[kind], bind.Hist{})
					if err != nil || m == nil {
						// kinds without constructors: the value the parser makes of the reference encoding
						f, _ := wire.Encode(outAlphabet[kind])
						m, err = of.Parse(f)
					}
					if err != nil || m == nil {
						panic("harness: outbound message cannot be built")
					}
					if h := bind.HeaderOf(m); h != nil {
						h.Xid = 0xb0000000 | uint32(pi)<<16 | uint32(k)<<8 | uint32(kind) // distinct id per submission
						if sc.ZeroXid {
							h.Xid = 0
						}
					}
					eb, err := m.MarshalBinary()
					if err != nil {
						panic("harness: outbound message cannot be encoded")
					}
					b := append([]byte{}, eb...)
					run.submitted[pi] = append(run.submitted[pi], b)
					if sc.AsBuffer {
						m = util.NewBuffer(append([]byte{}, eb...))
					}
					built[kind] = m
					verifrt.Send(ms.Outbound, m)
				}
				run.prodDone++
			})
		}
	}
	e.KeyFn = func() uint64 {
		h := run.conn.key()
		h = h*31 + uint64(len(run.got))
		h = h*31 + uint64(run.prodDone)
		h = h*31 + uint64(run.errs)
		return h
	}
	e.Check = func(x *verifrt.Exec) { check(run, x) }
	return e, run
}

// learnSites runs one short execution to learn the spawn-site names of the reader and the parsers.
func learnSites(alphabet []streamFrame) {
	if parserSite != "" {
		return
	}
	sc := streamScenario{Frames: []int{0}, FailAfter: -1, Bound: 0, ShutAt: -1}
	e, _ := newStreamExplorer(sc, alphabet, nil, func(run *streamRun, x *verifrt.Exec) {
		names, sites := x.BlockedThreads()
		count := map[string]int{}
		for _, n := range names {
			count[n]++
		}
		for n, c := range count {
			if c >= 10 {
				parserSite = n
			}
		}
		for i, n := range names {
			if sites[i] == "conn.Read" {
				readerSite = n
			}
		}
	}, time.Time{})
	e.KeyFn = nil
	e.RunOne(nil)
}

// Channel numbers given to the stream's channels (NameChan above).
const (
	chInbound = 1 + iota
	chOutbound
	chError
	chShutdown
	chEmpty
	chFull
	chParserShutdown
)

// stuckThreads returns the threads parked at quiescence anywhere but the places where the stream's
// goroutines legitimately wait for more work: the reader in conn.Read, parsers in their select on
// {pool.Full, parserShutdown}, the writer on Outbound, the shutdown goroutine on Shutdown, the
// outbound-draining goroutine on {Outbound, ticker}, harness threads on Inbound.
func stuckThreads(x *verifrt.Exec) []string {
	var out []string
	for _, b := range x.BlockedOps() {
		switch {
		case b.Kind == "wait" && (b.Site == "conn.Read" || b.Site == "join" || b.Site == "clock"):
		case b.Kind == "comm" && len(b.Send) == 0 && len(b.Recv) > 0 && onlyFrom(b.Recv, chInbound, chOutbound, chShutdown, chFull, chParserShutdown, chError):
		case b.Kind == "comm" && len(b.Send) == 0 && contains(b.Recv, chOutbound):
			// drain loop: Outbound or the ten-minute ticker (an unnamed channel)
		default:
			out = append(out, fmt.Sprintf("%s@%s waiting to send to %v / receive from %v", b.Thread, b.Site, b.Send, b.Recv))
		}
	}
	return out
}

func onlyFrom(xs []int, allowed ...int) bool {
	for _, x := range xs {
		if !contains(allowed, x) {
			return false
		}
	}
	return true
}

func contains(xs []int, v int) bool {
	for _, x := range xs {
		if x == v {
			return true
		}
	}
	return false
}
