//go:build verif

package checks

import (
	"strings"
	"fmt"
	"reflect"
	"sort"

	of "github.com/contiv/libOpenflow/openflow13"

	"verif/corpus"
	"verif/ev"
	"verif/pkt"
	"verif/wire"
)

// C07: openflow13.Parse is total. Deviation explorer (deviate.go) over reference encodings of every
// kind Parse lists, plus the seed-independent short inputs and all (type, length) headers.
func init() {
	Registry["C07"] = c07
	Workers["C07"] = c07Worker
}

var parseTarget = &devTarget{Name: "Parse", Run: func(b []byte) (bool, bool) {
	m, err := of.Parse(b)
	val := m != nil
	if val {
		if v := reflect.ValueOf(m); v.Kind() == reflect.Ptr && v.IsNil() {
			val = false
		}
	}
	return val, err != nil
}}

// c07Seeds: reference encodings, one per distinct (root kind, set of element kinds), smallest first.
func c07Seeds(thorough bool) []*devSeed {
	type cand struct {
		key string
		n   *wire.N
		sz  int
	}
	best := map[string]*cand{}
	consider := func(n *wire.N) {
		b, _ := wire.Encode(n)
		if len(b) > 1600 && !(thorough && len(b) < 4000) {
			return
		}
		ks := map[string]bool{}
		kindsIn(n, ks)
		key := rootSig(n) + "|" + fmt.Sprint(sorted2(ks))
		if !thorough {
			// quick: one seed per (root, single "rarest" element kind) instead of per full kind set
			delete(ks, n.K)
			for _, k := range []string{"match", "oxm", "flow_stats", "instr_apply_actions", "port"} {
				delete(ks, k)
			}
			key = rootSig(n) + "|" + fmt.Sprint(sorted2(ks))
		}
		if n.K == "packet_in" {
			// packet-ins differ by their payload (decoded by the packet decoders): one seed per payload
			key += fmt.Sprintf("|payload:%x", hashBytes(n.B["Data"]))
		}
		if c := best[key]; c == nil || len(b) < c.sz {
			best[key] = &cand{key, n, len(b)}
		}
	}
	never := func() bool { return false }
	corpus.Switch(false, never, func(string, bool) {}, func(n *wire.N) {
		if !thorough {
			// quick keeps pairs out: singles only
			if cnt := countKind(n, "act_") + countKind(n, "nx_"); cnt > 1 {
				return
			}
		}
		consider(n)
	})
	corpus.Controller(false, never, func(string, bool) {}, func(n *wire.N) {
		switch n.K {
		case "flow_mod", "multipart_request", "set_config", "hello", "echo_request", "features_request", "get_config_request", "barrier_request", "experimenter",
			"packet_out", "group_mod", "port_mod":
			if !thorough {
				if cnt := countKind(n, "act_") + countKind(n, "nx_"); cnt > 1 {
					return
				}
				if n.K == "experimenter" && innermost(n) != n && innermost(n).K != "flow_mod" && innermost(n).K != "echo_request" {
					return
				}
			}
			consider(n)
		}
	})
	var keys []string
	for k := range best {
		keys = append(keys, k)
	}
	sort.Strings(keys)
	var out []*devSeed
	for _, k := range keys {
		c := best[k]
		b, marks := wire.Encode(c.n)
		if c.n.K == "packet_in" {
			// the payload's own length-, count- and type-like fields are structural fields too
			if pt := corpus.PktTreeByBytes[string(c.n.B["Data"])]; pt != nil {
				pb, pm := pkt.Encode(pt)
				off := len(b) - len(pb)
				for _, m := range pm {
					m.Off += off
					m.Path = "payload/" + m.Path
					marks = append(marks, m)
				}
			}
		}
		out = append(out, &devSeed{Name: shortModel(c.n), B: b, Marks: marks})
	}
	out = append(out, c07DeepSeeds(thorough)...)
	sort.SliceStable(out, func(i, j int) bool { return len(out[i].B) < len(out[j].B) })
	return out
}

// c07DeepSeeds: bundle-add nested in bundle-add to depth 2..40 (the only recursion the wire grammar
// offers the parser), around a message the parser decodes (echo request, flow-mod) and around one
// it rejects (group-mod), bare and with a property behind every level. Time must stay proportional
// to the input; the deviation sets around these seeds include every truncation and every length
// field of every level.
func c07DeepSeeds(thorough bool) []*devSeed {
	depths := []int{2, 4, 8, 16, 24, 32, 40}
	prop := func(rot int) *wire.N {
		return wire.New("bundle_prop_experimenter").Set("ExperimenterID", corpus.PatU(4, rot)).Set("ExperimenterType", corpus.PatU(4, rot+1))
	}
	var out []*devSeed
	for _, d := range depths {
		for ci, core := range []*wire.N{wire.New("echo_request"), corpus.FlowMod(0, corpus.Match(corpus.OxmByName("OXM_OF_IN_PORT", false, 1)), corpus.Instr("instr_goto_table", 1)), corpus.GroupMod(0, 1, corpus.Bucket(1))} {
			for _, withProps := range []bool{false, true} {
				n := core.Clone()
				for i := 0; i < d; i++ {
					n = corpus.BundleAdd(n, uint64(i%4))
					if withProps {
						n.S["VendorData"].Add("Properties", prop(i))
					}
				}
				b, marks := wire.Encode(n)
				if len(b) > 8000 {
					continue
				}
				out = append(out, &devSeed{Name: fmt.Sprintf("bundle-add nested %d deep around %s (core %d), properties %v", d, core.K, ci, withProps), B: b, Marks: marks})
			}
		}
	}
	// packet-ins whose payload repeats an extension header, an option or a record many times (the
	// long-chain seeds of C08): the packet decoders run inside Parse
	for _, sd := range c08Seeds(thorough)["Parse(packet-in)"] {
		if strings.Contains(sd.Name, "a chain of") && len(sd.B) <= 1500 {
			out = append(out, &devSeed{Name: sd.Name, B: sd.B, Marks: sd.Marks})
		}
	}
	return out
}

func countKind(n *wire.N, prefix string) int {
	m := 0
	var walk func(x *wire.N)
	walk = func(x *wire.N) {
		if x == nil {
			return
		}
		if len(x.K) >= len(prefix) && x.K[:len(prefix)] == prefix {
			m++
		}
		for _, c := range x.S {
			walk(c)
		}
		for _, l := range x.L {
			for _, c := range l {
				walk(c)
			}
		}
	}
	walk(n)
	return m
}

// c07Short: every byte string of length 0..2, and every header [version, type, length, xid] with
// 0..8 filler bytes over all 256 types x boundary lengths x versions {4, 1, 0, 255}.
func c07Short(t *devTarget, yield func(seed, dev string, in []byte)) {
	yield("short", "empty", []byte{})
	for a := 0; a < 256; a++ {
		yield("short", fmt.Sprintf("%02x", a), []byte{byte(a)})
		for b := 0; b < 256; b++ {
			yield("short", fmt.Sprintf("%02x%02x", a, b), []byte{byte(a), byte(b)})
		}
	}
	lens := []uint16{0, 1, 4, 7, 8, 9, 12, 15, 16, 17, 24, 32, 40, 56, 64, 0x7fff, 0x8000, 0xfff8, 0xfffe, 0xffff}
	for _, ver := range []byte{4, 1, 0, 255} {
		for typ := 0; typ < 256; typ++ {
			for _, l := range lens {
				for fill := 0; fill <= 8; fill++ {
					for _, fb := range []byte{0, 0xff} {
						if fill == 0 && fb == 0xff {
							continue
						}
						in := []byte{ver, byte(typ), byte(l >> 8), byte(l), 0, 0, 0, 1}
						for i := 0; i < fill; i++ {
							in = append(in, fb)
						}
						yield("header", fmt.Sprintf("version=%d type=%d length=%d filler=%dx%02x", ver, typ, l, fill, fb), in)
					}
				}
			}
		}
	}
	// headers of every type followed by 8..64 bytes of each filler, with a consistent header length
	for typ := 0; typ < 256; typ++ {
		for _, body := range []int{8, 16, 24, 32, 48, 56, 64} {
			for _, fb := range []byte{0, 0xff, 0x01} {
				l := 8 + body
				in := []byte{4, byte(typ), byte(l >> 8), byte(l), 0, 0, 0, 1}
				for i := 0; i < body; i++ {
					in = append(in, fb)
				}
				yield("header", fmt.Sprintf("type=%d body=%dx%02x", typ, body, fb), in)
			}
		}
	}
}

func c07Worker(w *Worker) {
	seeds := c07Seeds(w.Thorough())
	devRun(w, []*devTarget{parseTarget}, func(*devTarget) []*devSeed { return seeds }, true, c07Short)
	if w.Index == 0 {
		w.Set("seeds", len(seeds))
		tot := 0
		for _, s := range seeds {
			tot += len(s.B)
		}
		w.Set("seed_bytes_total", tot)
	}
}

func c07(r *ev.Run, replay string) {
	r.Level = "fault_enumeration"
	if replay != "" {
		devReplay(r, []*devTarget{parseTarget}, replay)
		return
	}
	RunSharded(r, NumWorkers(), true)
	n := r.Counter("transitions")
	r.Set("states", n)
	r.Set("faults_injected", n)
	r.Set("traces_validated_against_impl", n)
	r.Set("evaluations", n)
	lv := "bound 1: every truncation (raw and with the header length adjusted), every byte x every value (seeds <= 256 bytes; boundary values above), every length/count/type/constant field x boundary alphabet, trailing bytes; all inputs of length 0..2; all 256 types x 20 lengths x 4 versions x 0..8 filler bytes"
	if r.Thorough() {
		lv += "; bound 2: structural x structural and structural x truncation pairs"
	}
	r.Completed(lv)
	r.Set("rule", "an execution is one call of openflow13.Parse on one byte string of the deviation set, under a step budget of 64*len+4096 instrumented steps and an allocation budget of 64*len+256 KiB; outcome classes = value / error per target; anything else is a violation")
	r.Assume("seeds come from the reference encoder (engine/wire), so the explored set does not depend on the library's encoders")
	r.Assume("a panic recovered inside Parse and returned as an error satisfies the property (the entry point returns an error, the process survives)")
}
