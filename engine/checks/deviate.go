//go:build verif

package checks

import (
	"encoding/binary"
	"fmt"
	"runtime"
	"sort"
	"strings"

	verifrt "github.com/contiv/libOpenflow/verifrt"

	"verif/ev"
	"verif/wire"
)

// Deviation explorer (DESIGN 3.4): for the "total on arbitrary bytes" properties. Seeds are
// well-formed byte strings from a reference encoder with their field map; the explored space is
// every departure from a seed with at most k deviations (k = 1; thorough adds k = 2 for structural
// fields), a deviation being a truncation, a byte overwritten, a length/count/type field set to a
// boundary value, or trailing bytes. Every execution runs with a deterministic step budget (R1
// ticks) and an allocation measurement, so "does not terminate" and "memory out of proportion" are
// replayable outcomes.

type devSeed struct {
	Name  string
	B     []byte
	Marks []wire.Mark
}

// devTarget is one decoder entry point. Run returns (gotValue, gotError); panics propagate.
type devTarget struct {
	Name string
	Run  func(b []byte) (value bool, err bool)
}

type devCase struct {
	Target string `json:"target"`
	Seed   string `json:"seed"`
	Dev    string `json:"deviation"`
	Hex    string `json:"input_hex"`
	Len    int    `json:"input_len"`
}

const (
	devStepsPerByte = 64
	devStepsBase    = 4096
	devAllocPerByte = 64
	devAllocBase    = 256 << 10
)

var devMem runtime.MemStats
var devLastAlloc uint64

// devExec runs one input against one target and classifies the outcome.
// Classes: value, error, neither, panic:<chain>, steps-exceeded:<chain>, alloc-exceeded.
func devExec(t *devTarget, in []byte) (class string, detail string) {
	buf := append(make([]byte, 0, len(in)), in...) // exact capacity: reads past the end fault instead of seeing spare bytes
	budget := int64(devStepsPerByte*len(in) + devStepsBase)
	var val, er bool
	var pn any
	var chain string
	runtime.ReadMemStats(&devMem)
	before := devMem.TotalAlloc
	verifrt.SeqClear()
	verifrt.Arm(budget)
	func() {
		defer func() {
			if p := recover(); p != nil {
				pn = p
				chain = verifrt.CallChain()
			}
		}()
		val, er = t.Run(buf)
	}()
	steps := verifrt.Disarm()
	exceeded, at, _ := verifrt.Exceeded()
	runtime.ReadMemStats(&devMem)
	alloc := devMem.TotalAlloc - before
	if blocked := verifrt.SeqBlocked(); blocked != "" {
		// the library's own recover() may have turned the unwinding into an ordinary error return
		return "blocks-forever", "the call would never return: " + blocked
	}
	if held := verifrt.SeqHeld(); len(held) > 0 {
		// the call returned holding a lock: whoever needs it next waits for ever. Shown by giving the
		// same input once more; then the lock is released by force so that later executions start clean.
		verifrt.SeqClear()
		func() {
			defer func() { recover() }()
			t.Run(append(make([]byte, 0, len(in)), in...))
		}()
		again := verifrt.SeqBlocked()
		verifrt.SeqForceRelease()
		verifrt.SeqClear()
		if again != "" {
			return "wedges-the-next-call", fmt.Sprintf("the call returned while holding a lock acquired in %s; the same input given once more never returns: %s", strings.Join(held, "; "), again)
		}
		return "returns-holding-a-lock", fmt.Sprintf("the call returned while holding a lock acquired in %s", strings.Join(held, "; "))
	}
	switch {
	case exceeded:
		return "steps-exceeded:" + at, fmt.Sprintf("more than %d steps for a %d-byte input (budget %d*len+%d), still running in %s", budget, len(in), devStepsPerByte, devStepsBase, at)
	case pn != nil:
		if _, ok := pn.(verifrt.BudgetExceeded); ok {
			return "steps-exceeded:" + chain, fmt.Sprintf("more than %d steps for a %d-byte input", budget, len(in))
		}
		return "panic:" + panicClass(pn) + ":" + chain, fmt.Sprintf("panicked: %v (in %s)", pn, chain)
	case alloc > uint64(devAllocPerByte*len(in)+devAllocBase):
		return "alloc-exceeded", fmt.Sprintf("allocated %d bytes for a %d-byte input (budget %d*len+%d KiB); %d steps", alloc, len(in), devAllocPerByte, devAllocBase>>10, steps)
	case !val && !er:
		return "neither", "returned neither a message nor an error"
	case er:
		return "error", ""
	}
	return "value", ""
}

func panicClass(p any) string {
	s := fmt.Sprint(p)
	if e, ok := p.(error); ok {
		s = e.Error()
	}
	switch {
	case strings.Contains(s, "index out of range"):
		return "index-out-of-range"
	case strings.Contains(s, "slice bounds out of range"):
		return "slice-bounds"
	case strings.Contains(s, "nil pointer"):
		return "nil-dereference"
	case strings.Contains(s, "interface conversion"):
		return "interface-conversion"
	case strings.Contains(s, "makeslice"):
		return "makeslice"
	case strings.Contains(s, "divide"):
		return "divide"
	}
	return sigWords(errClassTail(s))
}

// boundary values for an n-byte length/count/type-like field with correct value cur, in a buffer
// with rem bytes remaining after the field's element start.
func devBoundary(w int, cur uint64, rem int) []uint64 {
	max := uint64(1)<<(8*uint(w)) - 1
	set := map[uint64]bool{}
	add := func(v uint64) {
		if v <= max && v != cur {
			set[v] = true
		}
	}
	for _, v := range []uint64{0, 1, 2, 3, 4, 5, 6, 7, 8, 9, 10, 12, 15, 16, 17, 23, 24, 31, 32, 40, 56, 64, 254, 255, 256} {
		add(v)
	}
	for _, d := range []uint64{1, 2, 4, 8} {
		add(cur + d)
		if cur >= d {
			add(cur - d)
		}
		add(uint64(rem) + d)
		if uint64(rem) >= d {
			add(uint64(rem) - d)
		}
	}
	add(uint64(rem))
	add(max)
	add(max - 1)
	add(max >> 1)
	add(max>>1 + 1)
	add(max - 7)
	if w >= 2 {
		add(0x3fff)
		add(0x4000)
		add(0x7ff8)
		add(0xfff8)
	}
	var out []uint64
	for v := range set {
		out = append(out, v)
	}
	sort.Slice(out, func(i, j int) bool { return out[i] < out[j] })
	return out
}

func getBE(b []byte, off, w int) uint64 {
	var v uint64
	for i := 0; i < w; i++ {
		v = v<<8 | uint64(b[off+i])
	}
	return v
}

func putBE(b []byte, off, w int, v uint64) {
	for i := w - 1; i >= 0; i-- {
		b[off+i] = byte(v)
		v >>= 8
	}
}

// structural marks of a seed: length-, count-, type- and code-like fields (at most 4 bytes wide).
func devStructural(s *devSeed) []wire.Mark {
	var out []wire.Mark
	for _, m := range s.Marks {
		if (m.Role == "length" || m.Role == "count" || m.Role == "type" || m.Role == "const") && m.W >= 1 && m.W <= 4 && m.Off+m.W <= len(s.B) {
			out = append(out, m)
		}
	}
	return out
}

// devEnumerate yields every input within the deviation bound of the seed, in a fixed order.
// fixLen says the seed has an OpenFlow header whose length field a "consistent truncation" rewrites.
func devEnumerate(s *devSeed, thorough bool, ofHeader bool, yield func(dev string, in []byte)) {
	b := s.B
	n := len(b)
	yield("seed", b)
	// truncations
	for k := 0; k < n; k++ {
		yield(fmt.Sprintf("truncate@%d", k), b[:k])
		if ofHeader && k >= 8 {
			c := append([]byte{}, b[:k]...)
			binary.BigEndian.PutUint16(c[2:], uint16(k))
			yield(fmt.Sprintf("truncate@%d+header-length", k), c)
		}
	}
	// single bytes
	full := n <= 256 || thorough && n <= 2048
	for i := 0; i < n; i++ {
		if full {
			for v := 0; v < 256; v++ {
				if byte(v) == b[i] {
					continue
				}
				c := append([]byte{}, b...)
				c[i] = byte(v)
				yield(fmt.Sprintf("byte@%d=%#02x", i, v), c)
			}
		} else {
			for _, v := range []byte{0, 1, 0x7f, 0x80, 0xfe, 0xff, b[i] + 1, b[i] - 1, b[i] ^ 0x80, b[i] ^ 0x01} {
				if v == b[i] {
					continue
				}
				c := append([]byte{}, b...)
				c[i] = v
				yield(fmt.Sprintf("byte@%d=%#02x", i, v), c)
			}
		}
	}
	// structural fields x boundary alphabet
	st := devStructural(s)
	for _, m := range st {
		cur := getBE(b, m.Off, m.W)
		for _, v := range devBoundary(m.W, cur, n-m.Off) {
			c := append([]byte{}, b...)
			putBE(c, m.Off, m.W, v)
			yield(fmt.Sprintf("%s@%d=%d", m.Path, m.Off, v), c)
		}
	}
	// trailing bytes
	for _, t := range [][]byte{{0}, {0xff}, make([]byte, 7), make([]byte, 8), {0xff, 0xff, 0xff, 0xff, 0xff, 0xff, 0xff, 0xff}} {
		c := append(append([]byte{}, b...), t...)
		yield(fmt.Sprintf("append %x", t), c)
		if ofHeader {
			c2 := append([]byte{}, c...)
			binary.BigEndian.PutUint16(c2[2:], uint16(len(c2)))
			yield(fmt.Sprintf("append %x+header-length", t), c2)
		}
	}
	// the frame extended to (and just below) the 64 KiB limit with filler bytes, header length
	// adjusted: what a peer can send that still starts like this message. List loops that count in
	// 16 bits, or that trust a length far larger than the element, show only here.
	if ofHeader && n >= 8 {
		totals := []int{65535, 65520}
		fills := []byte{0x00, 0xff}
		if thorough {
			totals = []int{65535, 65528, 65521, 65520, 65519, 32768, 16384, 4096}
			fills = []byte{0x00, 0xff, 0x01}
		}
		for _, total := range totals {
			if total <= n {
				continue
			}
			for _, f := range fills {
				c := make([]byte, total)
				copy(c, b)
				for i := n; i < total; i++ {
					c[i] = f
				}
				binary.BigEndian.PutUint16(c[2:], uint16(total))
				yield(fmt.Sprintf("extend to %d with %#02x+header-length", total, f), c)
			}
		}
	}
	// self-similar continuation: from the start of an element on, the frame consists of copies of
	// that element's first 8, 16 or 24 bytes, each announcing 1, 2 or 4 times its own size (or 4 and
	// 2 times alternately), up to 1 KiB and 4 KiB in all. Every copy is a header whose contents are
	// more headers of the same kind: decoders that recurse or re-scan by announced lengths meet their
	// worst case here (one deviation: the tail of the frame is replaced).
	if ofHeader && n >= 16 {
		seenStart := map[int]bool{}
		for _, m := range st {
			if m.Role != "length" || m.W != 2 || m.Off < 10 || !strings.Contains(m.Path, "ction") && !strings.Contains(m.Path, "nstr") && !strings.Contains(m.Path, "ucket") {
				continue
			}
			start := m.Off - 2
			if strings.Contains(m.Path, "ucket") {
				start = m.Off // a bucket begins with its length
			}
			if seenStart[start] || start < 8 {
				continue
			}
			seenStart[start] = true
			for _, k := range []int{8, 16, 24} {
				if start+k > n {
					continue
				}
				for _, mode := range []string{"x1", "x2", "x4", "x4,x2"} {
					for _, total := range []int{1024, 4096} {
						if total <= start+k {
							continue
						}
						c := make([]byte, 0, total)
						c = append(c, b[:start]...)
						for i := 0; len(c)+k <= total; i++ {
							h := append([]byte{}, b[start:start+k]...)
							mult := map[string]int{"x1": 1, "x2": 2, "x4": 4}[mode]
							if mode == "x4,x2" {
								mult = 4 - 2*(i%2)
							}
							if len(c)+5*k > total {
								mult = 1 // the last four copies are leaves: they announce their own size
							}
							putBE(h, m.Off-start, 2, uint64(k*mult))
							c = append(c, h...)
						}
						binary.BigEndian.PutUint16(c[2:], uint16(len(c)))
						yield(fmt.Sprintf("%s@%d: tail replaced by copies of the element's first %d bytes announcing %s their size, %d bytes in all", m.Path, start, k, mode, len(c)), c)
					}
				}
			}
		}
	}
	if !ofHeader && n >= 1 {
		// packets: the same header followed by filler up to an MTU, a jumbo frame, and the largest
		// payload a packet-in can carry (16-bit size arithmetic in a decoder shows only here)
		totals := []int{1500, 65535}
		if thorough {
			totals = []int{1500, 9000, 32768, 65535, 65536 + 64}
		}
		for _, total := range totals {
			if total <= n {
				continue
			}
			for _, f := range []byte{0x00, 0xff} {
				c := make([]byte, total)
				copy(c, b)
				for i := n; i < total; i++ {
					c[i] = f
				}
				yield(fmt.Sprintf("extend to %d with %#02x", total, f), c)
			}
		}
	}
	if !thorough {
		return
	}
	// bound 2: structural x structural, structural x truncation
	small := func(w int, cur uint64, rem int) []uint64 {
		max := uint64(1)<<(8*uint(w)) - 1
		vs := []uint64{0, 1, 4, 8, cur + 1, cur - 1, cur + 8, uint64(rem), max, max >> 1}
		var out []uint64
		seen := map[uint64]bool{}
		for _, v := range vs {
			if v <= max && v != cur && !seen[v] {
				seen[v] = true
				out = append(out, v)
			}
		}
		return out
	}
	for i, m1 := range st {
		c1 := getBE(b, m1.Off, m1.W)
		for _, v1 := range small(m1.W, c1, n-m1.Off) {
			for _, m2 := range st[i+1:] {
				if m2.Off < m1.Off+m1.W {
					continue
				}
				c2 := getBE(b, m2.Off, m2.W)
				for _, v2 := range small(m2.W, c2, n-m2.Off) {
					c := append([]byte{}, b...)
					putBE(c, m1.Off, m1.W, v1)
					putBE(c, m2.Off, m2.W, v2)
					yield(fmt.Sprintf("%s@%d=%d & %s@%d=%d", m1.Path, m1.Off, v1, m2.Path, m2.Off, v2), c)
				}
			}
			for k := m1.Off + m1.W; k < n; k++ {
				c := append([]byte{}, b[:k]...)
				putBE(c, m1.Off, m1.W, v1)
				yield(fmt.Sprintf("%s@%d=%d & truncate@%d", m1.Path, m1.Off, v1, k), c)
			}
		}
	}
}

// devRun is the worker-side loop: every (target, seed, deviation) whose index is this worker's.
func devRun(w *Worker, targets []*devTarget, seedsFor func(t *devTarget) []*devSeed, ofHeader bool, extra func(t *devTarget, yield func(seed, dev string, in []byte))) {
	var idx int64
	var execs int64
	outcomes := map[string]int64{}
	// one call at a time on this goroutine, nothing else runs library code: a lock found held can never
	// be released (see verifrt.SetSequential)
	verifrt.SetSequential(true)
	defer verifrt.SetSequential(false)
	for _, t := range targets {
		run := func(seed, dev string, in []byte) {
			idx++
			if !w.Mine(idx) {
				return
			}
			w.Mark(t.Name+"|"+seed+"|"+dev, in)
			class, detail := devExec(t, in)
			execs++
			outcomes[t.Name+":"+outcomeGroup(class)]++
			switch {
			case class == "value" || class == "error":
			default:
				c := devCase{Target: t.Name, Seed: seed, Dev: dev, Len: len(in)}
				if len(in) <= 8192 {
					c.Hex = ev.Hex(in)
				} else {
					c.Hex = ev.Hex(in[:8192])
				}
				w.Violation(t.Name+":"+class, fmt.Sprintf("%s on %s with %s: %s", t.Name, seed, dev, detail), c)
			}
		}
		seeds := seedsFor(t)
		for si, s := range seeds {
			if w.Expired() {
				w.Incomplete(fmt.Sprintf("%s: seeds %d..%d not explored (deadline)", t.Name, si, len(seeds)-1))
				break
			}
			if w.Index == 0 && (si&(si-1)) == 0 {
				w.Sample(map[string]any{"target": t.Name, "seed": s.Name, "seed_len": len(s.B), "structural_fields": len(devStructural(s))})
			}
			devEnumerate(s, w.Thorough(), ofHeader, func(dev string, in []byte) { run(s.Name, dev, in) })
		}
		if extra != nil {
			extra(t, run)
		}
	}
	w.Add("transitions", execs)
	w.Add("enumerated_inputs_all_workers_view", idx/int64(w.N))
	for k, v := range outcomes {
		w.OutcomeN(k, v)
	}
}

func outcomeGroup(class string) string {
	if i := strings.Index(class, ":"); i >= 0 {
		return class[:i]
	}
	return class
}

// devReplay re-executes one recorded input.
func devReplay(r *ev.Run, targets []*devTarget, path string) {
	verifrt.SetSequential(true)
	defer verifrt.SetSequential(false)
	var c devCase
	if err := ev.LoadReplay(path, &c); err != nil {
		fmt.Println("HARNESS-ERROR: cannot load replay:", err)
		harnessFailed = true
		return
	}
	for _, t := range targets {
		if t.Name != c.Target {
			continue
		}
		in := ev.UnHex(c.Hex)
		class, detail := devExec(t, in)
		fmt.Printf("replay %s on %d bytes: %s %s\n", t.Name, len(in), class, detail)
		if class != "value" && class != "error" {
			r.Violation(t.Name+":"+class, fmt.Sprintf("%s on %s with %s: %s", t.Name, c.Seed, c.Dev, detail), c)
		}
	}
	r.Set("states", 1)
}
