//go:build verif

package checks

import (
	"net"
	"bytes"
	"fmt"
	"reflect"
	"runtime"
	"sync"
	"sync/atomic"

	"github.com/contiv/libOpenflow/protocol"
	"github.com/contiv/libOpenflow/util"

	"verif/bind"
	"verif/corpus"
	"verif/dump"
	"verif/ev"
	"verif/pkt"
	"verif/wire"
)

// C09: packet headers round-trip; sub-byte fields stay in lane; payload demultiplexing is right.
// For every well-formed packet tree: the library's encoding equals the reference encoding
// (engine/pkt, written from the RFC layouts - this is what catches a shift shared by encoder and
// decoder), decoding it gives the same field values and payload kinds, re-encoding reproduces the
// bytes, the reported size equals the bytes. Packed groups are enumerated over their whole domains.
func init() { Registry["C09"] = c09 }

// A header's own fields are compared layer by layer; its payload is printed as the bytes it encodes
// to (the payload's kind is the demultiplexing clause, typed payloads are compared at their own
// layer). The VLAN member of an untagged frame carries no information (NewEthernet presets the
// TPID, the decoder leaves it zero).
var pktDump = dump.Options{Normalise: true, ExportedOnly: true,
	FieldHook: func(st, f string, v reflect.Value) (string, bool) {
		if f == "Data" && v.Kind() == reflect.Interface {
			if v.IsNil() {
				return "payload:", true
			}
			if m, ok := v.Interface().(util.Message); ok {
				b, err := bind.SafeMarshal(m)
				if err != nil {
					return "payload:unencodable", true
				}
				return fmt.Sprintf("payload:%x", b), true
			}
		}
		if st == "DHCP" && f == "Options" {
			// options are compared by tag and data; an explicit end option is the same list as the
			// implicit end the encoder appends and the decoder stops at
			out := "["
			if opts, ok := v.Interface().([]protocol.DHCPOption); ok {
				for i, o := range opts {
					if o.OptionType() == protocol.DHCP_OPT_END && i == len(opts)-1 {
						break
					}
					out += fmt.Sprintf("%d:%x ", o.OptionType(), o.Bytes())
				}
			}
			return out + "]", true
		}
		if st == "Ethernet" && f == "VLANID" {
			if vl, ok := v.Interface().(protocol.VLAN); ok && vl.VID == 0 && vl.PCP == 0 && vl.DEI == 0 {
				return "untagged", true
			}
		}
		return "", false
	}}

type pktCase struct {
	Model string  `json:"model"`
	Tree  *wire.N `json:"tree"`
	What  string  `json:"variation,omitempty"`
}

// wantPayloadType is the demultiplexing table: the Go type the decoder must choose for a payload.
func wantPayloadType(parent *wire.N) string {
	d := parent.S["Data"]
	if d == nil {
		return ""
	}
	switch parent.K {
	case "eth":
		switch parent.U["Ethertype"] {
		case 0x0800:
			return "*protocol.IPv4"
		case 0x86dd:
			return "*protocol.IPv6"
		case 0x0806:
			return "*protocol.ARP"
		}
		return "*util.Buffer"
	case "ipv4":
		switch parent.U["Protocol"] {
		case 1:
			return "*protocol.ICMP"
		case 17:
			return "*protocol.UDP"
		}
		return "*util.Buffer" // no decoder is wired for the other numbers: an opaque buffer with identical bytes
	case "ipv6":
		final := parent.U["NextHeader"]
		if ex := parent.L["Ext"]; len(ex) > 0 {
			final = ex[len(ex)-1].U["NextHeader"]
		}
		switch final {
		case 58:
			return "*protocol.ICMP"
		case 17:
			return "*protocol.UDP"
		}
		return "*util.Buffer"
	}
	return ""
}

func payloadOf(v any) (util.Message, bool) {
	switch x := v.(type) {
	case *protocol.Ethernet:
		return x.Data, true
	case *protocol.IPv4:
		return x.Data, true
	case *protocol.IPv6:
		return x.Data, true
	}
	return nil, false
}

// demuxCheck walks model and decoded value in parallel and compares payload types.
func demuxCheck(n *wire.N, dec any) string {
	for n != nil {
		want := wantPayloadType(n)
		p, has := payloadOf(dec)
		if !has || want == "" {
			return ""
		}
		got := "nil"
		if p != nil {
			got = reflect.TypeOf(p).String()
		}
		if got != want {
			return fmt.Sprintf("payload of %s decoded as %s, the demultiplexing table prescribes %s", n.K, got, want)
		}
		if want == "*util.Buffer" {
			wb, _ := pkt.Encode(n.S["Data"])
			gb, _ := p.MarshalBinary()
			if !bytes.Equal(wb, gb) {
				return fmt.Sprintf("opaque payload of %s has %d bytes %x, on the wire were %d bytes %x", n.K, len(gb), head(gb, 16), len(wb), head(wb, 16))
			}
			return ""
		}
		n, dec = n.S["Data"], p
	}
	return ""
}

func safePkt(f func()) (pn any) {
	defer func() { pn = recover() }()
	f()
	return nil
}

// c09One runs all clauses on one tree. Returns the signature reported ("" if none).
func c09One(r *ev.Run, n *wire.N, what string) string {
	rep := pktCase{Model: shortModel(n), Tree: n, What: what}
	bad := func(sig, msg string) string {
		r.Outcome("differs")
		r.Violation(sig, msg+" ["+what+"] for "+shortModel(n), rep)
		return sig
	}
	kind := n.K
	if kind == "opaque" {
		return "" // not a header kind
	}
	v, err := bind.BuildPkt(n)
	if err != nil || v == nil {
		r.Add("not_buildable", 1)
		return ""
	}
	codec := bind.CodecOf(v, func() any { return bind.FreshPkt(kind) })
	if codec.Encode == nil {
		return ""
	}
	r.Add("transitions", 4)
	var b []byte
	var l0 int
	if pn := safePkt(func() { l0 = codec.Len(); b, err = codec.Encode() }); pn != nil {
		return bad("encode-panic:"+kind, fmt.Sprintf("sizing/encoding panicked: %v", pn))
	}
	if err != nil {
		return bad("encode-error:"+kind, "encoding failed: "+err.Error())
	}
	b = append([]byte{}, b...)
	ref, marks := pkt.Encode(n)
	if !bytes.Equal(b, ref) {
		i := 0
		for i < len(b) && i < len(ref) && b[i] == ref[i] {
			i++
		}
		f := fieldAt(marks, i)
		return bad("layout:"+kind+"/"+locus(f), fmt.Sprintf("byte %d (%s): library %x, the RFC layout gives %x (library %d bytes, reference %d)", i, f, clipB(b, i), clipB(ref, i), len(b), len(ref)))
	}
	if l0 != len(b) {
		return bad("size:"+kind, fmt.Sprintf("reports %d bytes, encodes %d", l0, len(b)))
	}
	var dec any
	if pn := safePkt(func() { dec, err = codec.Decode(append([]byte{}, b...)) }); pn != nil {
		return bad("decode-panic:"+kind, fmt.Sprintf("decoding its own encoding panicked: %v", pn))
	}
	if err != nil {
		return bad("decode-error:"+kind, "decoding its own encoding failed: "+err.Error())
	}
	if d := demuxCheck(n, dec); d != "" {
		return bad("demux:"+kind, d)
	}
	// field values, layer by layer down the typed payloads
	for mo, ov, dv := n, any(v), any(dec); mo != nil && ov != nil && dv != nil; {
		do, dd := dump.Dump(ov, pktDump), dump.Dump(dv, pktDump)
		if do != dd {
			return bad("fields:"+kind+"/"+mo.K, "decoded field values of the "+mo.K+" layer differ: "+firstDiff(do, dd))
		}
		if wantPayloadType(mo) == "" || wantPayloadType(mo) == "*util.Buffer" {
			break
		}
		op, _ := payloadOf(ov)
		dp, _ := payloadOf(dv)
		mo, ov, dv = mo.S["Data"], op, dp
		if op == nil || dp == nil {
			break
		}
	}
	dd0 := dump.Dump(dec, pktDump)
	dc := bind.CodecOf(dec, func() any { return bind.FreshPkt(kind) })
	var b2 []byte
	var l2 int
	if pn := safePkt(func() { l2 = dc.Len(); b2, err = dc.Encode() }); pn != nil {
		return bad("reencode-panic:"+kind, fmt.Sprintf("re-encoding the decoded value panicked: %v", pn))
	}
	if !bytes.Equal(b2, b) {
		return bad("reencode:"+kind, fmt.Sprintf("re-encoding the decoded value gives %x..., the original bytes were %x...", head(b2, 24), head(b, 24)))
	}
	if l2 != len(b) {
		return bad("extent:"+kind, fmt.Sprintf("the decoded value reports %d bytes, %d were consumed", l2, len(b)))
	}
	// differential from a non-initial state: decoding into a receiver that already decoded another
	// header of the same kind must give what a fresh receiver gives
	if prev := c09Reuse[kind]; prev != nil {
		var rdec any
		pc := bind.CodecOf(prev, func() any { return prev })
		if pn := safePkt(func() { rdec, err = pc.Decode(append([]byte{}, b...)) }); pn != nil {
			return bad("reused-receiver-panic:"+kind, fmt.Sprintf("decoding into a receiver used before panicked: %v", pn))
		}
		if err != nil {
			return bad("reused-receiver:"+kind, "decoding into a receiver used before failed: "+err.Error())
		}
		if dr := dump.Dump(rdec, pktDump); dr != dd0 {
			return bad("reused-receiver:"+kind, "a receiver that decoded another "+kind+" before gives different field values than a fresh one: "+firstDiff(dd0, dr))
		}
		rc := bind.CodecOf(rdec, func() any { return bind.FreshPkt(kind) })
		var rb []byte
		if pn := safePkt(func() { rb, _ = rc.Encode() }); pn != nil || !bytes.Equal(rb, b) {
			return bad("reused-receiver:"+kind, fmt.Sprintf("a receiver that decoded another %s before re-encodes to %x..., a fresh one to %x...", kind, head(rb, 24), head(b, 24)))
		}
	}
	c09Reuse[kind] = dec
	// and into the value the bytes were encoded from - a user's own value, whose addresses need not
	// have the representation the decoder would choose (net.IPv4 and net.ParseIP give 16-byte slices):
	// decoding a header back into the value it came from gives what a fresh receiver gives
	if own, oerr := bind.BuildPkt(n); oerr == nil && own != nil {
		widenIPs(reflect.ValueOf(own), 0)
		var odec any
		oc := bind.CodecOf(own, func() any { return own })
		if oc.Decode != nil {
			if pn := safePkt(func() { odec, err = oc.Decode(append([]byte{}, b...)) }); pn != nil {
				return bad("own-receiver-panic:"+kind, fmt.Sprintf("decoding into the value the bytes were encoded from panicked: %v", pn))
			}
			if err == nil {
				if dr := dump.Dump(odec, pktDump); dr != dd0 {
					return bad("own-receiver:"+kind, "decoding into the value the bytes were encoded from (addresses held as 16-byte slices) gives different field values than a fresh receiver: "+firstDiff(dd0, dr))
				}
				orc := bind.CodecOf(odec, func() any { return bind.FreshPkt(kind) })
				var ob []byte
				if pn := safePkt(func() { ob, _ = orc.Encode() }); pn != nil || !bytes.Equal(ob, b) {
					return bad("own-receiver:"+kind, fmt.Sprintf("the value the bytes were encoded from, decoded into again, re-encodes to %x..., a fresh receiver to %x...", head(ob, 24), head(b, 24)))
				}
			}
		}
	}
	r.Outcome("round-trip:" + kind)
	return ""
}

// widenIPs turns every 4-byte net.IP reachable from v into its 16-byte form (the form net.IPv4 and
// net.ParseIP return).
func widenIPs(v reflect.Value, depth int) {
	if depth > 12 || !v.IsValid() {
		return
	}
	switch v.Kind() {
	case reflect.Ptr, reflect.Interface:
		if !v.IsNil() {
			widenIPs(v.Elem(), depth+1)
		}
	case reflect.Struct:
		for i := 0; i < v.NumField(); i++ {
			f := v.Field(i)
			if f.Type() == reflect.TypeOf(net.IP{}) {
				if f.CanSet() && f.Len() == 4 {
					f.Set(reflect.ValueOf(net.IP(f.Bytes()).To16()))
				}
				continue
			}
			widenIPs(f, depth+1)
		}
	case reflect.Slice:
		for i := 0; i < v.Len() && i < 64; i++ {
			widenIPs(v.Index(i), depth+1)
		}
	}
}

// c09Reuse holds, per kind, the receiver of the previous decode (reused for the next one).
var c09Reuse = map[string]any{}

// packed-group sweeps: exhaustive over the in-range domain of each group.
func c09Packed(r *ev.Run) int64 {
	var n int64
	run := func(t *wire.N, what string) {
		n++
		c09One(r, t, what)
	}
	// VLAN TCI: all 2^16 (PCP x DEI x VID), standalone and (for a sample of VID residues x all PCP/DEI) inside a frame
	for tci := uint64(0); tci < 1<<16; tci++ {
		pcp, dei, vid := tci>>13, (tci>>12)&1, tci&0xfff
		run(corpus.Vlan(pcp, dei, vid), fmt.Sprintf("TCI=%#04x", tci))
		if vid < 3 || vid > 0xffc || vid == 0x800 || vid == 100 {
			run(corpus.Eth(corpus.Vlan(pcp, dei, vid), 0x88b5, corpus.Opaque(4)), fmt.Sprintf("frame TCI=%#04x", tci))
		}
		// inside a frame whose payload has a decoder: all VIDs for two PCP/DEI settings, all PCP x DEI
		// for the boundary VIDs (the tag's bits have no say in the choice of the payload decoder)
		if vid != 0 && (tci>>12 == 0 || tci>>12 == 0xb || vid < 3 || vid > 0xffc) {
			run(corpus.Eth(corpus.Vlan(pcp, dei, vid), 0x0806, corpus.Arp(1)), fmt.Sprintf("ARP frame TCI=%#04x", tci))
		}
	}
	r.Completed("P1 VLAN tag: all 65536 (PCP, DEI, VID) combinations standalone; all PCP x DEI with boundary VIDs (incl. 0) inside a frame")
	// IPv4 version x IHL (>= 5, options consistent), DSCP x ECN, flags x fragment offset
	for ver := uint64(0); ver < 16; ver++ {
		for ihl := uint64(5); ihl < 16; ihl++ {
			t := corpus.IPv4(17, int(ihl-5)*4, corpus.Udp(4))
			t.Set("Version", ver)
			run(t, fmt.Sprintf("version=%d ihl=%d", ver, ihl))
		}
	}
	for x := uint64(0); x < 256; x++ {
		t := corpus.IPv4(17, 0, corpus.Udp(4))
		t.Set("DSCP", x>>2).Set("ECN", x&3)
		run(t, fmt.Sprintf("dscp/ecn=%#02x", x))
	}
	for x := uint64(0); x < 1<<16; x++ {
		t := corpus.IPv4(253, 0, corpus.Opaque(0))
		t.Set("Flags", x>>13).Set("FragmentOffset", x&0x1fff)
		run(t, fmt.Sprintf("flags/fragment=%#04x", x))
		// and in front of a payload the library has a decoder for: the choice of the decoder is the
		// protocol number's business, whatever the fragment bits say
		t = corpus.IPv4(17, 0, corpus.Udp(4))
		t.Set("Flags", x>>13).Set("FragmentOffset", x&0x1fff)
		run(t, fmt.Sprintf("flags/fragment=%#04x before UDP", x))
	}
	r.Completed("P2 IPv4: version x IHL (5..15) all 176; DSCP x ECN all 256; flags x fragment offset all 65536 (opaque and UDP payload)")
	// IPv6 version x class (4096) x flow label boundary set
	labels := []uint64{0, 0xfffff, 0x12345, 0xabcde}
	for i := uint(0); i < 20; i++ {
		labels = append(labels, 1<<i)
	}
	for vc := uint64(0); vc < 4096; vc++ {
		for _, fl := range labels {
			t := corpus.IPv6(nil, 59, corpus.Opaque(0))
			t.Set("Version", vc>>8).Set("TrafficClass", vc&0xff).Set("FlowLabel", fl)
			run(t, fmt.Sprintf("version/class=%#03x label=%#x", vc, fl))
		}
	}
	r.Completed("P3 IPv6: version x traffic class all 4096 x flow label {0, all-ones, every single bit, two patterns}")
	// the data offset is a value the library carries, not one it acts on (it models no options): the
	// payload is whatever follows the 20 fixed bytes, also when it is long enough to hold "options"
	for _, dl := range []int{3, 0, 48} {
		for x := uint64(0); x < 1024; x++ {
			t := corpus.Tcp(dl)
			t.Set("HdrLen", x>>6).Set("Code", x&0x3f)
			run(t, fmt.Sprintf("tcp offset/flags=%#03x payload=%d", x, dl))
		}
	}
	for x := uint64(0); x < 1<<14; x++ {
		run(corpus.Fragment(17, x>>1, x&1), fmt.Sprintf("fragment offset/M=%#04x", x))
	}
	for x := uint64(0); x < 16; x++ {
		run(corpus.Igmp3Query(1, x>>3, x&7), fmt.Sprintf("S/QRV=%#x", x))
	}
	r.Completed("P4 TCP data offset x 6 flag bits all 1024 x payload {0, 3, 48 bytes}; fragment offset x M all 16384; IGMPv3 S x QRV all 16")
	return n
}

// c09FirstWord sweeps all 2^32 values of the first word of the IPv6 header (thorough), directly on
// the encoder/decoder of the header with an empty payload.
func c09FirstWord(r *ev.Run) int64 {
	workers := runtime.NumCPU()
	if workers > 16 {
		workers = 16
	}
	var bad atomic.Int64
	var first atomic.Uint64
	var wg sync.WaitGroup
	var done atomic.Int64
	for w := 0; w < workers; w++ {
		wg.Add(1)
		go func(w int) {
			defer wg.Done()
			ip := &protocol.IPv6{NWSrc: make([]byte, 16), NWDst: make([]byte, 16), NextHeader: 59, Data: new(util.Buffer)}
			dec := new(protocol.IPv6)
			for x := uint64(w); x < 1<<32; x += uint64(workers) {
				if x&0xffffff == uint64(w) && r.Expired() {
					return
				}
				ip.Version, ip.TrafficClass, ip.FlowLabel = uint8(x>>28), uint8(x>>20), uint32(x&0xfffff)
				b, err := ip.MarshalBinary()
				ok := err == nil && len(b) == 40 && b[0] == byte(x>>24) && b[1] == byte(x>>16) && b[2] == byte(x>>8) && b[3] == byte(x)
				if ok {
					dec.HbhHeader, dec.RoutingHeader, dec.FragmentHeader = nil, nil, nil
					err = dec.UnmarshalBinary(b)
					ok = err == nil && dec.Version == ip.Version && dec.TrafficClass == ip.TrafficClass && dec.FlowLabel == ip.FlowLabel
				}
				if !ok {
					if bad.Add(1) == 1 {
						first.Store(x)
					}
				}
				done.Add(1)
			}
		}(w)
	}
	wg.Wait()
	if bad.Load() > 0 {
		x := first.Load()
		t := corpus.IPv6(nil, 59, corpus.Opaque(0))
		t.Set("Version", x>>28).Set("TrafficClass", (x>>20)&0xff).Set("FlowLabel", x&0xfffff)
		r.Violation("layout:ipv6/first-word", fmt.Sprintf("%d of the 2^32 first-word values do not encode to themselves or do not decode back, e.g. %#08x", bad.Load(), x), pktCase{Model: shortModel(t), Tree: t, What: "first word sweep"})
	}
	if done.Load() == 1<<32 {
		r.Completed("P5 IPv6 first word: all 2^32 (version, traffic class, flow label) values encode to themselves and decode back")
	} else {
		r.Incomplete(fmt.Sprintf("P5 IPv6 first word sweep: %d of 2^32 done at the deadline", done.Load()))
	}
	return done.Load()
}

func pktMarksNoCount(t *wire.N) []wire.Mark {
	_, marks := pkt.Encode(t)
	var out []wire.Mark
	for _, m := range marks {
		if m.Role == "value" || m.Role == "bytes" {
			out = append(out, m)
		}
	}
	return out
}

func c09(r *ev.Run, replay string) {
	if replay != "" {
		var c pktCase
		if err := ev.LoadReplay(replay, &c); err != nil || c.Tree == nil {
			fmt.Println("HARNESS-ERROR: cannot load replay", err)
			harnessFailed = true
			return
		}
		c09One(r, c.Tree, c.What)
		r.Set("states", 1)
		return
	}
	var shapes, vars int64
	kinds := map[string]bool{}
	var bases []*wire.N
	seenBase := map[string]bool{}
	corpus.Packets(r.Thorough(), func(n *wire.N) {
		shapes++
		kindsIn(n, kinds)
		if shapes&(shapes-1) == 0 {
			r.Sample(corpus.Label(n))
		}
		c09One(r, n, "shape")
		// a base for the value enumeration: every tree that shows a (kind, field) not seen before
		// under its outermost header kind (optional members count when they are present)
		if len(PktBytes(n)) < 600 {
			fs := map[string]bool{}
			featuresIn(n, fs)
			fresh := false
			for f := range fs {
				if !seenBase[n.K+"|"+f] {
					seenBase[n.K+"|"+f] = true
					fresh = true
				}
			}
			if fresh {
				bases = append(bases, n)
			}
		}
	})
	r.Completed("S every header kind standalone; IPv4 x 11 payloads x options 0/4/40; IPv6 x all 16 extension-header chains x 5 final headers; hop-by-hop option lists 0..3; IGMPv3 sources/records 0..3; DHCP option lists <= 3; Ethernet x {untagged, 5 tags incl. VID 0} x 10 inner kinds")
	for _, base := range bases {
		if r.Expired() {
			r.Incomplete("V single-field value alphabets")
			break
		}
		corpus.Variations(base, pktMarksNoCount, r.Seed, func(t *wire.N, what string) {
			vars++
			c09One(r, t, what)
		})
	}
	if !r.Expired() {
		r.Completed(fmt.Sprintf("V every unpacked scalar / fixed-width field of %d base packets varied alone over its value alphabet", len(bases)))
	}
	shapes += directRoundTrips(r)
	packed := c09Packed(r)
	var sweep int64
	if r.Thorough() {
		sweep = c09FirstWord(r)
	}
	r.Set("states", shapes+vars+packed+sweep)
	r.Set("shape_states", shapes)
	r.Set("value_states", vars)
	r.Set("packed_group_states", packed)
	r.Set("ipv6_first_word_states", sweep)
	r.Set("element_kinds_covered", len(kinds))
	r.Set("traces_validated_against_impl", shapes+vars+packed+sweep)
	r.Set("evaluations", shapes+vars+packed+sweep)
	r.Set("rule", "a state is a well-formed packet tree; it is built through the library's constructors/fields, encoded, compared with the reference encoding (engine/pkt), decoded into a fresh receiver, compared (fields, payload types of the demultiplexing table), re-encoded and sized")
	r.Assume("out-of-range field values (e.g. PCP > 7) are excluded by the property")
	r.Assume("numbers the library has no decoder wired for (TCP, IGMP under IPv4; everything but ICMPv6/UDP under IPv6) must come back as an opaque buffer with identical bytes: the property asks that the choice be right, not that more decoders exist")
}

// PktBytes is the reference encoding of a packet tree.
func PktBytes(n *wire.N) []byte { b, _ := pkt.Encode(n); return b }

// ---- C06 / C13 for packet kinds ---------------------------------------------------------------

// packetSizes (C06): Len() == bytes produced, before and after, for every tree of the packet corpus.
func packetSizes(r *ev.Run, ret *retained) int64 {
	var n int64
	corpus.Packets(r.Thorough(), func(t *wire.N) {
		v, err := bind.BuildPkt(t)
		if err != nil || v == nil {
			return
		}
		le, ok := v.(lenEnc)
		if !ok {
			// DHCP / LLDP: Read-style encoders
			codec := bind.CodecOf(v, func() any { return bind.FreshPkt(t.K) })
			if codec.Encode == nil {
				return
			}
			n++
			var b []byte
			var l0 int
			if pn := safePkt(func() { l0 = codec.Len(); b, _ = codec.Encode() }); pn != nil {
				r.Violation("panic:"+t.K, fmt.Sprintf("sizing or encoding a %s panicked: %v", t.K, pn), pktCase{Model: shortModel(t), Tree: t})
				return
			}
			if l0 != len(b) {
				r.Violation("size:"+t.K, fmt.Sprintf("a %s reports %d bytes, its encoding has %d", t.K, l0, len(b)), pktCase{Model: shortModel(t), Tree: t})
			}
			return
		}
		n++
		bad := func(sig, what string) {
			r.Violation(sig, what+" in "+shortModel(t), pktCase{Model: shortModel(t), Tree: t})
		}
		b := sizeCheck(r, le, t.K, ret, bad)
		// containers embed their children intact: the extension headers (in chain order) and the
		// payload, each encoded standalone by the library, sit contiguously at the end of the parent
		if b != nil && (t.K == "eth" || t.K == "ipv4" || t.K == "ipv6") {
			var kids [][]byte
			okKids := true
			for _, c := range append(append([]*wire.N{}, t.L["Ext"]...), t.S["Data"]) {
				if c == nil {
					continue
				}
				cv, err := bind.BuildPkt(c)
				cl, isLE := cv.(lenEnc)
				if err != nil || !isLE {
					okKids = false
					break
				}
				cb, err, pn := safeEncodeLE(cl)
				if pn != nil || err != nil {
					okKids = false
					break
				}
				kids = append(kids, append([]byte{}, cb...))
			}
			if okKids && len(kids) > 0 {
				if d := embeddedPad(b, kids, 0, 0); d != "" {
					bad("embed:"+t.K+".children", d)
				}
			}
		}
	})
	r.Completed("packet headers: every tree of the packet corpus sized before/after encoding")
	return n
}

// c13Packets (C13): history independence of Len/Marshal/decode for packet kinds.
// rwValue is a header kind that encodes through Read and decodes through Write (DHCP, LLDP).
type rwValue interface {
	Read([]byte) (int, error)
	Write([]byte) (int, error)
	Len() uint16
}

// rwAdapter lets the sequence explorer treat such a value like the others: M is a Read into a buffer
// with room to spare; R and Z (shortRead) are Reads into a buffer of half the size and of no size.
type rwAdapter struct{ x rwValue }

func (a rwAdapter) Len() uint16 { return a.x.Len() }
func (a rwAdapter) MarshalBinary() ([]byte, error) {
	buf := make([]byte, 8192)
	n, err := a.x.Read(buf)
	return buf[:n], err
}
func (a rwAdapter) shortRead(size int) string {
	buf := make([]byte, size)
	n, err := a.x.Read(buf)
	if err != nil {
		return "error: " + err.Error()
	}
	return fmt.Sprintf("%d:%x", n, buf[:n])
}

func c13Packets(r *ev.Run, depth int) (subjects, seqs int64) {
	seen := map[string]bool{}
	corpus.Packets(false, func(t *wire.N) {
		ks := map[string]bool{}
		kindsIn(t, ks)
		// one subject per distinct set of header kinds, list populations (none, one, several elements)
		// and zero/non-zero checksums (a checksum of zero is "not computed": an encoder may be tempted
		// to fill it in, in the value instead of in the bytes)
		var walk func(x *wire.N)
		walk = func(x *wire.N) {
			if x == nil {
				return
			}
			for name, l := range x.L {
				c := len(l)
				if c > 2 {
					c = 2
				}
				ks[fmt.Sprintf("%s.%s:%d", x.K, name, c)] = true
				for _, e := range l {
					walk(e)
				}
			}
			if v, ok := x.U["Checksum"]; ok && v == 0 {
				ks[x.K+".Checksum=0"] = true
			}
			for _, c := range x.S {
				walk(c)
			}
		}
		walk(t)
		key := fmt.Sprint(sorted2(ks))
		if seen[key] {
			return
		}
		seen[key] = true
		kind := t.K
		s := &subject{name: shortModel(t), kind: "packet:" + kind, rep: map[string]any{"packet": shortModel(t), "tree": t},
			fresh: func() (lenEnc, func() lenEnc, func([]byte) (any, error)) {
				v, err := bind.BuildPkt(t)
				if err != nil {
					return nil, nil, nil
				}
				le, ok := v.(lenEnc)
				if !ok {
					// DHCP and LLDP encode through Read(buf) and decode through Write(buf)
					x, isRW := v.(rwValue)
					if !isRW {
						return nil, nil, nil
					}
					return rwAdapter{x}, func() lenEnc { return rwAdapter{x} }, func(b []byte) (any, error) {
						f, ok := bind.FreshPkt(kind).(rwValue)
						if !ok {
							return nil, fmt.Errorf("no decoder")
						}
						_, err := f.Write(b)
						return f, err
					}
				}
				return le, func() lenEnc {
						e := protocol.NewEthernet()
						e.Ethertype = 0x88b5
						if m, ok := v.(util.Message); ok {
							e.Data = m
						}
						return e
					}, func(b []byte) (any, error) {
						f := bind.FreshPkt(kind)
						m, ok := f.(util.Message)
						if !ok {
							return nil, fmt.Errorf("no decoder")
						}
						return m, m.UnmarshalBinary(b)
					}
			}}
		if v, _, _ := s.fresh(); v == nil {
			return
		}
		subjects++
		seqs += c13Subject(r, s, depth)
	})
	r.Completed(fmt.Sprintf("packet headers: one subject per distinct set of header kinds, all sequences <= %d over L,M,W,D", depth))
	return
}
