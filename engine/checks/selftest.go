//go:build verif

package checks

import (
	"fmt"
	"sort"
	"strings"
	"time"

	verifrt "github.com/contiv/libOpenflow/verifrt"
	vsync "github.com/contiv/libOpenflow/verifrt/vsync"

	"verif/ev"
)

// SELF: known-answer programs for the controlled scheduler and explorer. Each is a tiny concurrent
// program whose complete set of outcomes is known; the explorer must terminate, never report a
// harness error, and observe exactly that set. The scheduler-based checks (C10, C11, C13's S, C14,
// C15d) run it first and refuse to work (exit 3) if it fails: a scheduler that cannot run
// unbuffered rendezvous, condition variables or closes would hang or go blind on code that uses them.
func init() { Registry["SELF"] = selfCheck }

var selfX int

type selfProg struct {
	name string
	body func(out *[]string)
	want []string // sorted set of outcomes (each execution yields one string)
}

func selfProgs() []selfProg {
	return []selfProg{
		{"unbuffered rendezvous, two senders one receiver", func(out *[]string) {
			ch := make(chan int)
			var got []int
			done := 0
			verifrt.GoNamed("s1", func() { verifrt.Send(ch, 1); done++ })
			verifrt.GoNamed("s2", func() { verifrt.Send(ch, 2); done++ })
			verifrt.GoNamed("r", func() {
				got = append(got, verifrt.Recv(ch))
				got = append(got, verifrt.Recv(ch))
				done++
			})
			verifrt.Wait("join", func() bool { return done == 3 })
			*out = append(*out, fmt.Sprint(got))
		}, []string{"[1 2]", "[2 1]"}},
		{"unbuffered ping-pong", func(out *[]string) {
			a, b := make(chan int), make(chan int)
			res := 0
			done := 0
			verifrt.GoNamed("ping", func() {
				verifrt.Send(a, 7)
				res = verifrt.Recv(b)
				done++
			})
			verifrt.GoNamed("pong", func() {
				v := verifrt.Recv(a)
				verifrt.Send(b, v*6)
				done++
			})
			verifrt.Wait("join", func() bool { return done == 2 })
			*out = append(*out, fmt.Sprint(res))
		}, []string{"42"}},
		{"buffered channel keeps per-sender order", func(out *[]string) {
			ch := make(chan int, 2)
			var got []int
			done := 0
			verifrt.GoNamed("p", func() { verifrt.Send(ch, 1); verifrt.Send(ch, 2); verifrt.Send(ch, 3); verifrt.Close(ch); done++ })
			verifrt.GoNamed("c", func() {
				for {
					v, ok := verifrt.Recv2(ch)
					if !ok {
						break
					}
					got = append(got, v)
				}
				done++
			})
			verifrt.Wait("join", func() bool { return done == 2 })
			*out = append(*out, fmt.Sprint(got))
		}, []string{"[1 2 3]"}},
		{"lost update on a plain variable with a point between read and write", func(out *[]string) {
			selfX = 0 // package-level, as the variables the instrumenter puts points on are
			done := 0
			inc := func() {
				verifrt.Access(&selfX, false)
				t := selfX
				verifrt.Access(&selfX, true)
				selfX = t + 1
				done++
			}
			verifrt.GoNamed("a", inc)
			verifrt.GoNamed("b", inc)
			verifrt.Wait("join", func() bool { return done == 2 })
			*out = append(*out, fmt.Sprint(selfX))
		}, []string{"1", "2"}},
		{"mutex makes the update atomic", func(out *[]string) {
			var mu vsync.Mutex
			selfX = 0
			done := 0
			inc := func() {
				mu.Lock()
				verifrt.Access(&selfX, false)
				t := selfX
				verifrt.Access(&selfX, true)
				selfX = t + 1
				mu.Unlock()
				done++
			}
			verifrt.GoNamed("a", inc)
			verifrt.GoNamed("b", inc)
			verifrt.Wait("join", func() bool { return done == 2 })
			*out = append(*out, fmt.Sprint(selfX))
		}, []string{"2"}},
		{"condition variable hand-over", func(out *[]string) {
			var mu vsync.Mutex
			cond := vsync.NewCond(&mu)
			var q []int
			got := 0
			done := 0
			verifrt.GoNamed("consumer", func() {
				mu.Lock()
				for len(q) == 0 {
					cond.Wait()
				}
				got = q[0]
				mu.Unlock()
				done++
			})
			verifrt.GoNamed("producer", func() {
				mu.Lock()
				q = append(q, 9)
				mu.Unlock()
				cond.Signal()
				done++
			})
			verifrt.Wait("join", func() bool { return done == 2 })
			*out = append(*out, fmt.Sprint(got))
		}, []string{"9"}},
		{"select between two ready channels and a default", func(out *[]string) {
			a, b := make(chan int, 1), make(chan int, 1)
			verifrt.Send(a, 1)
			verifrt.Send(b, 2)
			i, v, _ := verifrt.Select(true, verifrt.RecvCase(a), verifrt.RecvCase(b))
			*out = append(*out, fmt.Sprint(i, v))
		}, []string{"0 1", "1 2"}},
		{"select with default on empty channels takes the default", func(out *[]string) {
			a := make(chan int, 1)
			i, _, _ := verifrt.Select(true, verifrt.RecvCase(a))
			*out = append(*out, fmt.Sprint(i))
		}, []string{"-1"}},
		{"unbuffered send in a select meets a parked receiver", func(out *[]string) {
			a := make(chan int)
			got := 0
			done := 0
			verifrt.GoNamed("r", func() { got = verifrt.Recv(a); done++ })
			verifrt.GoNamed("s", func() {
				for {
					if i, _, _ := verifrt.Select(true, verifrt.SendCase(a, 5)); i == 0 {
						break
					}
					verifrt.Yield("retry")
				}
				done++
			})
			verifrt.Wait("join", func() bool { return done == 2 })
			*out = append(*out, fmt.Sprint(got))
		}, []string{"5"}},
	}
}

// schedSelfTest runs the known-answer programs; it returns a description of the first failure.
func schedSelfTest() (programs int, executions int64, failure string) {
	for _, p := range selfProgs() {
		p := p
		programs++
		seen := map[string]bool{}
		var out []string
		e := &verifrt.Explorer{Bound: -1, MaxSteps: 500}
		e.Setup = func() { out = nil }
		e.Body = func() { p.body(&out) }
		e.Check = func(x *verifrt.Exec) {
			for _, evn := range x.Events {
				seen["event:"+evn.Kind] = true
			}
			if len(out) != 1 {
				seen[fmt.Sprintf("incomplete(%d results, blocked %v)", len(out), x.Blocked())] = true
				return
			}
			seen[out[0]] = true
		}
		finished := make(chan bool, 1)
		go func() { finished <- e.Run() }()
		select {
		case ok := <-finished:
			if !ok || e.HarnessErr != nil {
				return programs, executions, fmt.Sprintf("%q: exploration did not complete (%v)", p.name, e.HarnessErr)
			}
		case <-timeAfterSeconds(20):
			return programs, executions, fmt.Sprintf("%q: exploration hangs", p.name)
		}
		executions += e.Execs
		var got []string
		for k := range seen {
			got = append(got, k)
		}
		sort.Strings(got)
		want := append([]string{}, p.want...)
		sort.Strings(want)
		if strings.Join(got, "|") != strings.Join(want, "|") {
			return programs, executions, fmt.Sprintf("%q: outcomes %v, expected exactly %v", p.name, got, want)
		}
	}
	return programs, executions, ""
}

// requireScheduler is called by the scheduler-based checks before they explore anything.
func requireScheduler() bool {
	if _, _, f := schedSelfTest(); f != "" {
		fmt.Println("HARNESS-ERROR: the controlled scheduler fails its known-answer self-test:", f)
		harnessFailed = true
		return false
	}
	return true
}

// seqSelfTest: the sequential mode of the lock shims (used by the deviation explorers) must report a
// lock that is taken while held, list a lock that a call leaves held, and release it by force.
func seqSelfTest() string {
	verifrt.SetSequential(true)
	defer verifrt.SetSequential(false)
	var mu vsync.Mutex
	leak := func() {
		defer func() { recover() }()
		mu.Lock()
		panic("leaves the lock held")
	}
	leak()
	if h := verifrt.SeqHeld(); len(h) != 1 {
		return fmt.Sprintf("a leaked lock is not listed as held: %v", h)
	}
	func() {
		defer func() { recover() }()
		mu.Lock()
	}()
	if verifrt.SeqBlocked() == "" {
		return "locking a held mutex in sequential mode was not reported"
	}
	verifrt.SeqForceRelease()
	verifrt.SeqClear()
	func() {
		defer func() { recover() }()
		mu.Lock()
		mu.Unlock()
	}()
	if verifrt.SeqBlocked() != "" || len(verifrt.SeqHeld()) != 0 {
		return "a lock released by force is still reported as held"
	}
	return ""
}

func selfCheck(r *ev.Run, replay string) {
	n, ex, f := schedSelfTest()
	if f == "" {
		f = seqSelfTest()
		n++
	}
	r.Set("states", ex)
	r.Set("programs", n)
	r.Set("evaluations", ex)
	r.Set("traces_validated_against_impl", ex)
	r.Set("rule", "known-answer concurrent programs run to completion under the explorer; the observed outcome set must equal the known one")
	r.Sample("unbuffered rendezvous, two senders one receiver")
	r.Outcome("self-test")
	if f != "" {
		fmt.Println("HARNESS-ERROR: scheduler self-test failed:", f)
		harnessFailed = true
		return
	}
	r.Outcome("self-test-passed")
	r.Completed(fmt.Sprintf("%d known-answer programs, %d executions", n, ex))
}

func timeAfterSeconds(s int) <-chan time.Time { return time.After(time.Duration(s) * time.Second) }
