//go:build verif

package checks

import (
	"bytes"
		"fmt"

	verifrt "github.com/contiv/libOpenflow/verifrt"

	"verif/corpus"
	"verif/ev"
	"verif/wire"
)

// C11: outbound stream. 1..3 producer threads submit 1..2 messages each to the real
// MessageStream.Outbound; all interleavings of producers and the writer goroutine (and the idle
// reader, parsers, shutdown goroutine) are explored, state-cached, without a preemption bound.
// Oracle: the bytes written to the scripted connection, re-framed by header length, are whole
// frames; their multiset equals the submitted encodings, each exactly once; every producer's
// frames appear in its submission order.
func init() {
	Registry["C11"] = c11
	Workers["C11"] = c11Worker
}

func c11Out() []*wire.N {
	m2 := corpus.Match(corpus.OxmByName("OXM_OF_IN_PORT", false, 1), corpus.OxmByName("OXM_OF_ETH_DST", true, 2))
	return []*wire.N{
		wire.New("echo_request"),
		corpus.FlowMod(0, m2, corpus.Instr("instr_apply_actions", 1, corpus.Action("act_output", 1))),
		corpus.PacketOut(corpus.Payload(1474), true, corpus.Action("act_output", 2)),
	}
}

func c11Check(r *ev.Run, distinct map[string]bool) func(run *streamRun, x *verifrt.Exec) {
	return func(run *streamRun, x *verifrt.Exec) {
		sc := run.sc
		sched := make([]int, len(x.Trace))
		for i, p := range x.Trace {
			sched[i] = p.Chosen
		}
		rep := sc
		rep.Sched = sched
		bad := func(sig, what string) {
			r.Outcome("wrong")
			r.Violation(sig, fmt.Sprintf("%s [producers %v, schedule of %d points]", what, sc.Producers, len(sched)), rep)
		}
		faulted := false
		for _, e := range x.Events {
			if e.Kind == "fatal" && sc.WriteFault != nil {
				faulted = true // a failed write ends the process by design (log.Fatalf): what was written before it is still judged
				continue
			}
			bad("event:"+e.Kind, fmt.Sprintf("%s in %s: %s", e.Kind, e.Thread, clip(e.Detail)))
			return
		}
		// threads parked at quiescence are only reported together with what went wrong (a producer that
		// could not submit, a message that was never written): where a correct stream parks its idle
		// goroutines is not the property's business
		parked := ""
		if st := stuckThreads(x); len(st) > 0 {
			parked = fmt.Sprintf("; parked outside the known idle points: %v", st)
			r.Add("executions_with_threads_parked_elsewhere", 1)
		}
		if sc.WriteFault == nil && run.prodDone != len(sc.Producers) {
			bad("producer-blocked", fmt.Sprintf("only %d of %d producers could submit all their messages%s", run.prodDone, len(sc.Producers), parked))
			return
		}
		var wire []byte
		for _, w := range run.conn.written {
			wire = append(wire, w...)
		}
		// the written stream must be a concatenation of the submitted encodings, each producer's in
		// its submission order (every submission carries a distinct transaction id, so the next
		// frame is identified by its bytes, not by trusting the length field of what was written)
		next := make([]int, len(sc.Producers))
		order := ""
		for off := 0; off < len(wire); {
			found := false
			for pi := range sc.Producers {
				for next[pi] < len(run.submitted[pi]) && run.submitted[pi][next[pi]] == nil {
					next[pi]++ // an unencodable message: nothing of it is expected on the wire
				}
				if next[pi] < len(run.submitted[pi]) && bytes.HasPrefix(wire[off:], run.submitted[pi][next[pi]]) {
					off += len(run.submitted[pi][next[pi]])
					next[pi]++
					found = true
					order += fmt.Sprint(pi)
					break
				}
			}
			if found {
				continue
			}
			if sc.WriteFault != nil {
				// after a faulted write the stream may stop anywhere, but what it did write must be the
				// beginning of the right frame: the rest of the wire is a proper prefix of a next message
				cut := false
				for pi := range sc.Producers {
					if next[pi] < len(run.submitted[pi]) && bytes.HasPrefix(run.submitted[pi][next[pi]], wire[off:]) {
						cut = true
					}
				}
				if cut {
					r.Outcome("write-fault:stopped-inside-a-frame")
					return
				}
			}
			// what is at this position instead?
			what := fmt.Sprintf("bytes that are not the next message of any producer (%x...)", head(wire[off:], 12))
			sig := "torn-frame"
			for pi := range run.submitted {
				for k, sub := range run.submitted[pi] {
					if bytes.HasPrefix(wire[off:], sub) {
						what = fmt.Sprintf("message %d of producer %d again or out of its submission order", k, pi)
						sig = "order-or-duplicate"
					} else if len(sub) >= 8 && len(wire)-off >= 8 && bytes.Equal(wire[off:off+8], sub[:8]) && sig == "torn-frame" {
						what = fmt.Sprintf("the beginning of message %d of producer %d, but not the whole of it (%d bytes left on the wire, the message has %d)", k, pi, len(wire)-off, len(sub))
					}
				}
			}
			bad(sig, fmt.Sprintf("at offset %d the connection received %s", off, what))
			return
		}
		for pi := range sc.Producers {
			for next[pi] < len(run.submitted[pi]) && run.submitted[pi][next[pi]] == nil {
				next[pi]++
			}
			if sc.WriteFault != nil {
				continue // the process ended at the failed write: later messages are not owed
			}
			if next[pi] != len(run.submitted[pi]) {
				bad("lost", fmt.Sprintf("message %d of producer %d was never written%s", next[pi], pi, parked))
				return
			}
		}
		_ = faulted
		distinct[order] = true
		if len(sc.Producers) > 1 {
			r.Outcome("written-in-order:" + fmt.Sprint(len(sc.Producers)) + "-producers")
		} else {
			r.Outcome("written-in-order:1-producer")
		}
	}
}

func c11Scenarios(thorough bool) []streamScenario {
	var out []streamScenario
	kinds := []int{0, 1, 2}
	var bodies [][]int
	for _, a := range kinds {
		bodies = append(bodies, []int{a})
		for _, b := range kinds {
			bodies = append(bodies, []int{a, b})
		}
	}
	add := func(p ...[]int) {
		out = append(out, streamScenario{Producers: p, FailAfter: -1, Bound: -1, ShutAt: -1})
	}
	for _, b := range bodies {
		add(b)
	}
	for i := range bodies {
		for j := i; j < len(bodies); j++ {
			add(bodies[i], bodies[j])
		}
	}
	singles := [][]int{{0}, {1}, {2}}
	for i := range singles {
		for j := i; j < len(singles); j++ {
			for k := j; k < len(singles); k++ {
				add(singles[i], singles[j], singles[k])
			}
		}
	}
	// the same object submitted again (a message built once and sent repeatedly), as the typed value
	// and as a pre-encoded util.Buffer: one producer alone, and next to a second producer
	for _, asBuf := range []bool{false, true} {
		for _, a := range kinds {
			for _, body := range [][]int{{a, a}, {a, (a + 1) % 3, a}, {a, a, a}} {
				out = append(out, streamScenario{Producers: [][]int{body}, Reuse: true, AsBuffer: asBuf, FailAfter: -1, Bound: -1, ShutAt: -1})
			}
			out = append(out, streamScenario{Producers: [][]int{{a, a}, {(a + 1) % 3}}, Reuse: true, AsBuffer: asBuf, FailAfter: -1, Bound: -1, ShutAt: -1})
			out = append(out, streamScenario{Producers: [][]int{{a}, {(a + 2) % 3, a}}, AsBuffer: asBuf, FailAfter: -1, Bound: -1, ShutAt: -1})
		}
	}
	// transaction id 0 on everything submitted (typed values and pre-encoded buffers)
	for _, asBuf := range []bool{false, true} {
		out = append(out, streamScenario{Producers: [][]int{{0, 1, 0, 2}}, ZeroXid: true, AsBuffer: asBuf, FailAfter: -1, Bound: -1, ShutAt: -1},
			streamScenario{Producers: [][]int{{1, 0}, {2}}, ZeroXid: true, AsBuffer: asBuf, FailAfter: -1, Bound: -1, ShutAt: -1},
			streamScenario{Producers: [][]int{{0, 0}}, ZeroXid: true, Reuse: true, AsBuffer: asBuf, FailAfter: -1, Bound: -1, ShutAt: -1})
	}
	// messages that cannot be encoded, between encodable ones (nobody reads the error channel)
	for _, body := range [][]int{{0, -1, 1}, {-1, -1, 0}, {0, -1, 1, -1, 2, -1, 0}, {-1}} {
		out = append(out, streamScenario{Producers: [][]int{body}, FailAfter: -1, Bound: -1, ShutAt: -1})
	}
	out = append(out, streamScenario{Producers: [][]int{{-1, 0}, {1, -1, -1, 2}}, FailAfter: -1, Bound: -1, ShutAt: -1})
	// the other direction is alive too: the peer's hello (announcing a later or an earlier version, as
	// hellos do before negotiation) arrives and is consumed while the producers submit
	for _, hf := range []int{1, 6, 7} {
		out = append(out, streamScenario{Frames: []int{hf}, Producers: [][]int{{0, 1}}, FailAfter: -1, Bound: -1, ShutAt: -1},
			streamScenario{Frames: []int{hf}, Producers: [][]int{{1}, {0}}, FailAfter: -1, Bound: -1, ShutAt: -1})
	}
	// time passes: when everything has come to rest the clock moves on to the next timer the stream
	// has set (if any), twice; nothing may reach the connection that was not submitted
	for _, p := range [][][]int{{{0}}, {{0, 1}}, {{1}, {2, 0}}} {
		out = append(out, streamScenario{Producers: p, Clock: 2, FailAfter: -1, Bound: -1, ShutAt: -1})
	}
	// a write that times out after accepting part of a frame (0, 1, 5, all-but-one bytes), at the
	// first, second and third write: a failed write ends the process by design; the bytes written
	// until then must be whole frames followed by the beginning of the right one
	for at := 0; at < 3; at++ {
		for _, n := range []int{0, 1, 5, 7, 79} {
			out = append(out, streamScenario{Producers: [][]int{{0, 1, 0, 1}}, WriteFault: []int{at, n}, FailAfter: -1, Bound: 0, ShutAt: -1})
		}
	}
	// a peer that reads slowly: the writer is held at every write while the producers keep submitting
	// (40 and 2 x 24 small messages, one producer mixing sizes); default order of that policy plus
	// every single departure from it
	long := func(n int, kinds ...int) []int {
		var b []int
		for i := 0; i < n; i++ {
			b = append(b, kinds[i%len(kinds)])
		}
		return b
	}
	out = append(out,
		streamScenario{Producers: [][]int{long(40, 0)}, Policy: "slow-peer", Devs: true, FailAfter: -1, Bound: 1, ShutAt: -1},
		streamScenario{Producers: [][]int{long(36, 0, 1, 0, 2)}, Policy: "slow-peer", Devs: true, FailAfter: -1, Bound: 1, ShutAt: -1},
		streamScenario{Producers: [][]int{long(24, 0), long(24, 1)}, Policy: "slow-peer", Devs: true, FailAfter: -1, Bound: 0, ShutAt: -1})
	if thorough {
		out = append(out, streamScenario{Producers: [][]int{long(70, 0)}, Policy: "slow-peer", Devs: true, FailAfter: -1, Bound: 2, ShutAt: -1},
			streamScenario{Producers: [][]int{long(24, 0), long(24, 1)}, Policy: "slow-peer", Devs: true, FailAfter: -1, Bound: 1, ShutAt: -1})
	}
	if thorough {
		two := [][]int{{0, 1}, {1, 2}, {2, 0}, {1, 1}}
		for i := range two {
			for j := i; j < len(two); j++ {
				for k := j; k < len(two); k++ {
					add(two[i], two[j], two[k])
				}
			}
		}
	}
	return out
}

func c11RunScenario(r *ev.Run, sc streamScenario, distinct map[string]bool) {
	frames, _ := streamFrames()
	learnSites(frames)
	out := c11Out()
	if len(sc.OutSizes) > 0 {
		// size sweep: one producer submits echo, a packet-out of each size, echo; default schedule
		body := []int{0}
		for _, sz := range sc.OutSizes {
			body = append(body, len(out))
			out = append(out, corpus.PacketOut(corpus.Payload(sz-24), true))
		}
		sc.Producers = [][]int{append(body, 0)}
	}
	if len(sc.OutKinds) > 0 {
		// kind sweep: one producer submits echo, one message of each listed kind, echo; default schedule
		all := c11AllKinds()
		body := []int{0}
		for _, k := range sc.OutKinds {
			body = append(body, len(out))
			out = append(out, all[k])
		}
		sc.Producers = [][]int{append(body, 0)}
	}
	e, _ := newStreamExplorer(sc, frames, out, c11Check(r, distinct), r.Deadline)
	if sc.Bound >= 0 {
		e.KeyFn = nil // state caching is only used without a bound
	}
	if (len(sc.OutSizes) > 0 || len(sc.OutKinds) > 0) && sc.Sched == nil {
		e.KeyFn = nil
		e.RunOne(nil)
		r.Add("size_sweep_executions", 1)
	} else if sc.Sched != nil {
		e.KeyFn = nil
		e.RunOne(sc.Sched)
	} else if !e.Run() && e.HarnessErr == nil {
		r.Incomplete(fmt.Sprintf("producers %v not fully explored (deadline)", sc.Producers))
	}
	if e.HarnessErr != nil {
		fmt.Println("HARNESS-ERROR:", e.HarnessErr)
		harnessFailed = true
	}
	r.Add("schedules", e.Execs)
	r.Add("transitions", e.Transitions)
	r.Add("states_visited", e.States)
	r.Add("scenarios", 1)
	if int64(e.MaxDepth) > r.Counter("max_depth") {
		r.Add("max_depth", int64(e.MaxDepth)-r.Counter("max_depth"))
	}
}

// c11AllKinds: one message of every kind the library can encode (controller-originated kinds
// through their constructors, switch-originated kinds as the parser builds them).
func c11AllKinds() []*wire.N {
	var out []*wire.N
	seen := map[string]bool{}
	add := func(n *wire.N) {
		if hasUndecodableOxm(n) || (n.K == "packet_in" && len(n.B["Data"]) == 0) {
			return
		}
		k := rootSig(n)
		if !seen[k] {
			seen[k] = true
			out = append(out, n)
		}
	}
	never := func() bool { return false }
	corpus.Controller(false, never, func(string, bool) {}, func(n *wire.N) {
		if modelSize(n) < 4000 {
			add(n)
		}
	})
	for _, n := range c04Bases() {
		if n.K == "multipart_reply" && of10Root(rootSig(n)) {
			continue
		}
		add(n)
	}
	return out
}

// c11Sizes: total frame sizes of the outbound size sweep.
func c11Sizes(thorough bool) []int {
	var out []int
	if thorough {
		for s := 24; s <= 65535; s++ {
			out = append(out, s)
		}
		return out
	}
	seen := map[int]bool{}
	add := func(s int) {
		if s >= 24 && s <= 65535 && !seen[s] {
			seen[s] = true
			out = append(out, s)
		}
	}
	for s := 24; s <= 4200; s++ {
		add(s)
	}
	for k := 1; k*1024 <= 65536; k++ {
		for d := -3; d <= 3; d++ {
			add(k*1024 + d)
		}
	}
	for _, s := range []int{1500, 1514, 9000, 9018, 65535, 65534, 65528, 32767, 32768, 32769} {
		add(s)
	}
	return out
}

func c11Worker(w *Worker) {
	distinct := map[string]bool{}
	scs := c11Scenarios(w.Thorough())
	sizes := c11Sizes(w.Thorough())
	for i := 0; i < len(sizes); i += 3 {
		j := i + 3
		if j > len(sizes) {
			j = len(sizes)
		}
		scs = append(scs, streamScenario{OutSizes: sizes[i:j], FailAfter: -1, Bound: 0, ShutAt: -1})
	}
	nk := len(c11AllKinds())
	for i := 0; i < nk; i += 4 {
		j := i + 4
		if j > nk {
			j = nk
		}
		var ks []int
		for k := i; k < j; k++ {
			ks = append(ks, k)
		}
		scs = append(scs, streamScenario{OutKinds: ks, FailAfter: -1, Bound: 0, ShutAt: -1})
	}
	if w.Index == 0 {
		w.Set("outbound_kinds_swept", nk)
	}
	for i, sc := range scs {
		if !w.Mine(int64(i)) || w.Expired() {
			continue
		}
		c11RunScenario(w.Run, sc, distinct)
		if i%7 == 0 && len(sc.OutSizes) == 0 && len(sc.OutKinds) == 0 {
			w.Sample(map[string]any{"producers": sc.Producers})
		}
	}
	w.Add("distinct_write_orders", int64(len(distinct)))
}

func c11(r *ev.Run, replay string) {
	if replay != "" {
		var sc streamScenario
		if err := ev.LoadReplay(replay, &sc); err != nil {
			harnessFailed = true
			return
		}
		c11RunScenario(r, sc, map[string]bool{})
		r.Set("states", 1)
		return
	}
	if !requireScheduler() {
		return
	}
	RunSharded(r, NumWorkers(), false)
	n := r.Counter("states_visited")
	r.Set("states", n)
	r.Set("traces_validated_against_impl", r.Counter("schedules"))
	r.Set("evaluations", r.Counter("schedules"))
	lv := "1 producer x 12 bodies; 2 producers x all unordered pairs of the 12 bodies of 1..2 messages over {echo request, flow-mod, 1514-byte packet-out}; 3 producers x all multisets of single messages; the same object (typed value or pre-encoded util.Buffer) submitted two and three times, alone and next to a second producer; messages with transaction id 0; messages that cannot be encoded between encodable ones: all interleavings; a write that times out after 0, 1, 5, 7, 79 bytes at the first three writes (default schedule) of producers, writer and the idle stream goroutines, state-cached, no preemption bound"
	if r.Thorough() {
		lv += "; 3 producers x 2 messages each"
	}
	r.Completed(lv)
	if r.Thorough() {
		r.Completed("slow peer (the writer is held at every write while producers keep submitting): 1 producer x 40 and x 36 mixed messages with every single departure from that policy, x 70 with every pair of departures; 2 producers x 24 each with every single departure")
	} else {
		r.Completed("slow peer (the writer is held at every write while producers keep submitting): 1 producer x 40 and x 36 mixed messages with every single departure from that policy; 2 producers x 24 each, policy order only")
	}
	r.Completed("kind sweep: one producer submitting one message of every encodable kind and command/type variant (controller-originated through the constructors, switch-originated as the parser builds them), default schedule")
	if r.Thorough() {
		r.Completed("size sweep: one producer submitting echo, packet-out of EVERY total size 24..65535, echo (default schedule)")
	} else {
		r.Completed("size sweep: one producer submitting echo, packet-outs of every total size 24..4200, k*1024-3..k*1024+3 up to 65535, and the MTU/jumbo/16-bit boundary sizes, echo (default schedule)")
	}
	r.Set("rule", "a state is a global state of the closed system (threads with their histories and pending operations, channel contents, bytes written); the real MessageStream runs on a source-rewritten copy of util under the controlled scheduler; outcome classes = written-in-order / wrong")
	r.Assume("the scripted connection accepts every write in full; a write error leads to log.Fatalf by design and is outside the property")
	r.Assume("timers do not fire within the explored horizon (the only timer is the ten-minute ticker of the shutdown path)")
}
