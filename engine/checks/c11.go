//go:build verif

package checks

import (
	"bytes"
	"encoding/binary"
	"fmt"

	verifrt "github.com/contiv/libOpenflow/verifrt"

	"verif/corpus"
	"verif/ev"
	"verif/wire"
)

// C11: outbound stream. 1..3 producer threads submit 1..2 messages each to the real
// MessageStream.Outbound; all interleavings of producers and the writer goroutine (and the idle
// reader, parsers, shutdown goroutine) are explored, state-cached, without a preemption bound.
// Oracle: the bytes written to the scripted connection, re-framed by header length, are whole
// frames; their multiset equals the submitted encodings, each exactly once; every producer's
// frames appear in its submission order.
func init() {
	Registry["C11"] = c11
	Workers["C11"] = c11Worker
}

func c11Out() []*wire.N {
	m2 := corpus.Match(corpus.OxmByName("OXM_OF_IN_PORT", false, 1), corpus.OxmByName("OXM_OF_ETH_DST", true, 2))
	return []*wire.N{
		wire.New("echo_request"),
		corpus.FlowMod(0, m2, corpus.Instr("instr_apply_actions", 1, corpus.Action("act_output", 1))),
		corpus.PacketOut(corpus.Payload(1474), true, corpus.Action("act_output", 2)),
	}
}

func c11Check(r *ev.Run, distinct map[string]bool) func(run *streamRun, x *verifrt.Exec) {
	return func(run *streamRun, x *verifrt.Exec) {
		sc := run.sc
		sched := make([]int, len(x.Trace))
		for i, p := range x.Trace {
			sched[i] = p.Chosen
		}
		rep := sc
		rep.Sched = sched
		bad := func(sig, what string) {
			r.Outcome("wrong")
			r.Violation(sig, fmt.Sprintf("%s [producers %v, schedule of %d points]", what, sc.Producers, len(sched)), rep)
		}
		for _, e := range x.Events {
			bad("event:"+e.Kind, fmt.Sprintf("%s in %s: %s", e.Kind, e.Thread, clip(e.Detail)))
			return
		}
		if st := stuckThreads(x); len(st) > 0 {
			bad("stuck", fmt.Sprintf("at quiescence a thread is blocked outside its idle point: %v", st))
			return
		}
		if run.prodDone != len(sc.Producers) {
			bad("producer-blocked", fmt.Sprintf("only %d of %d producers could submit all their messages", run.prodDone, len(sc.Producers)))
			return
		}
		var wire []byte
		for _, w := range run.conn.written {
			wire = append(wire, w...)
		}
		// re-frame by header length
		var frames [][]byte
		for off := 0; off < len(wire); {
			if len(wire)-off < 8 {
				bad("torn-frame", fmt.Sprintf("%d stray bytes at the end of the written stream", len(wire)-off))
				return
			}
			l := int(binary.BigEndian.Uint16(wire[off+2:]))
			if l < 8 || off+l > len(wire) {
				bad("torn-frame", fmt.Sprintf("frame at offset %d declares %d bytes, %d are left", off, l, len(wire)-off))
				return
			}
			frames = append(frames, wire[off:off+l])
			off += l
		}
		// multiset and per-producer order
		next := make([]int, len(sc.Producers))
		order := ""
		for _, f := range frames {
			found := false
			for pi := range sc.Producers {
				if next[pi] < len(run.submitted[pi]) && bytes.Equal(run.submitted[pi][next[pi]], f) {
					next[pi]++
					found = true
					order += fmt.Sprint(pi)
					break
				}
			}
			if !found {
				// is it a submitted frame at all (out of order / duplicated) or garbage?
				what := "bytes that are no submitted message"
				for pi := range run.submitted {
					for k, s := range run.submitted[pi] {
						if bytes.Equal(s, f) {
							what = fmt.Sprintf("message %d of producer %d again or out of its submission order", k, pi)
						}
					}
				}
				bad("order-or-duplicate", "the connection received "+what)
				return
			}
		}
		for pi := range sc.Producers {
			if next[pi] != len(run.submitted[pi]) {
				bad("lost", fmt.Sprintf("message %d of producer %d was never written", next[pi], pi))
				return
			}
		}
		distinct[order] = true
		if len(sc.Producers) > 1 {
			r.Outcome("written-in-order:" + fmt.Sprint(len(sc.Producers)) + "-producers")
		} else {
			r.Outcome("written-in-order:1-producer")
		}
	}
}

func c11Scenarios(thorough bool) []streamScenario {
	var out []streamScenario
	kinds := []int{0, 1, 2}
	var bodies [][]int
	for _, a := range kinds {
		bodies = append(bodies, []int{a})
		for _, b := range kinds {
			bodies = append(bodies, []int{a, b})
		}
	}
	add := func(p ...[]int) {
		out = append(out, streamScenario{Producers: p, FailAfter: -1, Bound: -1, ShutAt: -1})
	}
	for _, b := range bodies {
		add(b)
	}
	for i := range bodies {
		for j := i; j < len(bodies); j++ {
			add(bodies[i], bodies[j])
		}
	}
	singles := [][]int{{0}, {1}, {2}}
	for i := range singles {
		for j := i; j < len(singles); j++ {
			for k := j; k < len(singles); k++ {
				add(singles[i], singles[j], singles[k])
			}
		}
	}
	if thorough {
		two := [][]int{{0, 1}, {1, 2}, {2, 0}, {1, 1}}
		for i := range two {
			for j := i; j < len(two); j++ {
				for k := j; k < len(two); k++ {
					add(two[i], two[j], two[k])
				}
			}
		}
	}
	return out
}

func c11RunScenario(r *ev.Run, sc streamScenario, distinct map[string]bool) {
	frames, _ := streamFrames()
	learnSites(frames)
	out := c11Out()
	if len(sc.OutSizes) > 0 {
		// size sweep: one producer submits echo, a packet-out of each size, echo; default schedule
		body := []int{0}
		for _, sz := range sc.OutSizes {
			body = append(body, len(out))
			out = append(out, corpus.PacketOut(corpus.Payload(sz-24), true))
		}
		sc.Producers = [][]int{append(body, 0)}
	}
	e, _ := newStreamExplorer(sc, frames, out, c11Check(r, distinct), r.Deadline)
	if len(sc.OutSizes) > 0 && sc.Sched == nil {
		e.KeyFn = nil
		e.RunOne(nil)
		r.Add("size_sweep_executions", 1)
	} else if sc.Sched != nil {
		e.KeyFn = nil
		e.RunOne(sc.Sched)
	} else if !e.Run() && e.HarnessErr == nil {
		r.Incomplete(fmt.Sprintf("producers %v not fully explored (deadline)", sc.Producers))
	}
	if e.HarnessErr != nil {
		fmt.Println("HARNESS-ERROR:", e.HarnessErr)
		harnessFailed = true
	}
	r.Add("schedules", e.Execs)
	r.Add("transitions", e.Transitions)
	r.Add("states_visited", e.States)
	r.Add("scenarios", 1)
	if int64(e.MaxDepth) > r.Counter("max_depth") {
		r.Add("max_depth", int64(e.MaxDepth)-r.Counter("max_depth"))
	}
}

// c11Sizes: total frame sizes of the outbound size sweep.
func c11Sizes(thorough bool) []int {
	var out []int
	if thorough {
		for s := 24; s <= 65535; s++ {
			out = append(out, s)
		}
		return out
	}
	seen := map[int]bool{}
	add := func(s int) {
		if s >= 24 && s <= 65535 && !seen[s] {
			seen[s] = true
			out = append(out, s)
		}
	}
	for s := 24; s <= 4200; s++ {
		add(s)
	}
	for k := 1; k*1024 <= 65536; k++ {
		for d := -3; d <= 3; d++ {
			add(k*1024 + d)
		}
	}
	for _, s := range []int{1500, 1514, 9000, 9018, 65535, 65534, 65528, 32767, 32768, 32769} {
		add(s)
	}
	return out
}

func c11Worker(w *Worker) {
	distinct := map[string]bool{}
	scs := c11Scenarios(w.Thorough())
	sizes := c11Sizes(w.Thorough())
	for i := 0; i < len(sizes); i += 3 {
		j := i + 3
		if j > len(sizes) {
			j = len(sizes)
		}
		scs = append(scs, streamScenario{OutSizes: sizes[i:j], FailAfter: -1, Bound: 0, ShutAt: -1})
	}
	for i, sc := range scs {
		if !w.Mine(int64(i)) || w.Expired() {
			continue
		}
		c11RunScenario(w.Run, sc, distinct)
		if i%7 == 0 && len(sc.OutSizes) == 0 {
			w.Sample(map[string]any{"producers": sc.Producers})
		}
	}
	w.Add("distinct_write_orders", int64(len(distinct)))
}

func c11(r *ev.Run, replay string) {
	if replay != "" {
		var sc streamScenario
		if err := ev.LoadReplay(replay, &sc); err != nil {
			harnessFailed = true
			return
		}
		c11RunScenario(r, sc, map[string]bool{})
		r.Set("states", 1)
		return
	}
	RunSharded(r, NumWorkers(), false)
	n := r.Counter("states_visited")
	r.Set("states", n)
	r.Set("traces_validated_against_impl", r.Counter("schedules"))
	r.Set("evaluations", r.Counter("schedules"))
	lv := "1 producer x 12 bodies; 2 producers x all unordered pairs of the 12 bodies of 1..2 messages over {echo request, flow-mod, 1514-byte packet-out}; 3 producers x all multisets of single messages: all interleavings of producers, writer and the idle stream goroutines, state-cached, no preemption bound"
	if r.Thorough() {
		lv += "; 3 producers x 2 messages each"
	}
	r.Completed(lv)
	if r.Thorough() {
		r.Completed("size sweep: one producer submitting echo, packet-out of EVERY total size 24..65535, echo (default schedule)")
	} else {
		r.Completed("size sweep: one producer submitting echo, packet-outs of every total size 24..4200, k*1024-3..k*1024+3 up to 65535, and the MTU/jumbo/16-bit boundary sizes, echo (default schedule)")
	}
	r.Set("rule", "a state is a global state of the closed system (threads with their histories and pending operations, channel contents, bytes written); the real MessageStream runs on a source-rewritten copy of util under the controlled scheduler; outcome classes = written-in-order / wrong")
	r.Assume("the scripted connection accepts every write in full; a write error leads to log.Fatalf by design and is outside the property")
	r.Assume("timers do not fire within the explored horizon (the only timer is the ten-minute ticker of the shutdown path)")
}
