//go:build verif

package checks

import (
	"encoding/binary"
	"bytes"
	"fmt"

	"github.com/contiv/libOpenflow/common"
	of "github.com/contiv/libOpenflow/openflow13"
	"github.com/contiv/libOpenflow/util"

	"verif/bind"
	"verif/corpus"
	"verif/ev"
	"verif/wire"
)

// C06: reported size = encoded size; containers embed their children intact. Every encodable kind
// (elements standalone and messages) over the shape corpus: Len() before and after encoding
// equals the bytes produced; for containers the standalone encodings of the children, in order,
// sit contiguously inside the parent's encoding, followed only by the specified zero padding (and,
// for packet-out, the payload). Earlier results must not change when later values are encoded.
// Packet-header kinds are covered in c06_packets.go.
func init() { Registry["C06"] = c06 }

type lenEnc interface {
	Len() uint16
	MarshalBinary() ([]byte, error)
}

// sizeCheck checks Len()==len(bytes) before and after; returns the bytes.
func sizeCheck(r *ev.Run, v lenEnc, kind string, ret *retained, bad func(sig, what string)) []byte {
	var l0, l1 uint16
	var b []byte
	var err error
	func() {
		defer func() {
			if p := recover(); p != nil {
				bad("panic:"+kind, fmt.Sprintf("sizing or encoding a %s panicked: %v", kind, p))
				b = nil
			}
		}()
		l0 = v.Len()
		b, err = v.MarshalBinary()
		l1 = v.Len()
	}()
	r.Add("transitions", 3)
	if b == nil || err != nil {
		return nil
	}
	if int(l0) != len(b) || int(l1) != len(b) {
		bad("size:"+kind, fmt.Sprintf("a %s reports %d bytes before and %d after encoding, its encoding has %d", kind, l0, l1, len(b)))
	}
	if old, ch := ret.changed(); ch {
		bad("earlier-result-overwritten:"+kind, "the bytes returned earlier for "+old+" changed when a "+kind+" was encoded")
	}
	ret.add(b, kind)
	r.Outcome(fmt.Sprintf("size%%8=%d", len(b)%8))
	return b
}

// embedded checks that cat(children) sits in parent ending tail bytes before the end, followed by
// at most 7 zero bytes of padding.
func embedded(parent []byte, kids [][]byte, tail int) string { return embeddedPad(parent, kids, tail, 7) }

func embeddedPad(parent []byte, kids [][]byte, tail int, maxPad int) string {
	var cat []byte
	for _, k := range kids {
		cat = append(cat, k...)
	}
	end := len(parent) - tail
	for pad := 0; pad <= maxPad; pad++ {
		lo := end - pad - len(cat)
		if lo < 0 {
			break
		}
		if bytes.Equal(parent[lo:end-pad], cat) {
			z := true
			for _, c := range parent[end-pad : end] {
				z = z && c == 0
			}
			if z {
				return ""
			}
		}
	}
	// locate the first child that is not where it belongs, assuming no padding mismatch
	lo := end - len(cat)
	for pad := 0; pad <= 7 && lo-pad >= 0; pad++ {
		_ = pad
	}
	return fmt.Sprintf("the children's standalone encodings (%d bytes in total: %x...) do not sit contiguously at the end of the parent's %d bytes (tail %x)", len(cat), head(cat, 24), len(parent), head(parent[max0(len(parent)-40):], 40))
}

func catLen(kids [][]byte) int {
	n := 0
	for _, k := range kids {
		n += len(k)
	}
	return n
}

func head(b []byte, n int) []byte {
	if len(b) > n {
		return b[:n]
	}
	return b
}
func max0(x int) int {
	if x < 0 {
		return 0
	}
	return x
}

// c06Tree checks one model tree recursively: every element standalone, every container's embedding.
func c06Tree(r *ev.Run, n *wire.N, h bind.Hist, ret *retained, rep any) {
	bad := func(sig, what string) { r.Violation(sig, what+" in "+shortModel(n), rep) }
	var walkAction func(a *wire.N) []byte
	encKids := func(kids []*wire.N, f func(*wire.N) []byte) ([][]byte, bool) {
		var out [][]byte
		for _, k := range kids {
			b := f(k)
			if b == nil {
				return nil, false
			}
			out = append(out, b)
		}
		return out, true
	}
	oxmBytes := func(f *wire.N) []byte {
		mf, _, err := bind.BuildOxm(f, h.Variant)
		if err != nil {
			mf, _, err = bind.BuildOxm(f, 0)
		}
		if err != nil {
			return nil
		}
		b := sizeCheck(r, mf, "oxm:"+oxmName(f), ret, bad)
		if b != nil && mf.Value != nil {
			// the TLV is its 4-byte header followed by the value's and the mask's own encodings
			kids := [][]byte{}
			if vb := sizeCheck(r, mf.Value, "oxm-payload:"+oxmName(f), ret, bad); vb != nil {
				kids = append(kids, vb)
			}
			if mf.HasMask && mf.Mask != nil {
				if mb := sizeCheck(r, mf.Mask, "oxm-payload:"+oxmName(f), ret, bad); mb != nil {
					kids = append(kids, mb)
				}
			}
			if d := embeddedPad(b, kids, 0, 0); d != "" || len(b) != 4+catLen(kids) {
				bad("embed:oxm:"+oxmName(f), fmt.Sprintf("the TLV %x is not its 4-byte header plus the payload encodings %x", b, kids))
			}
		}
		return b
	}
	walkAction = func(a *wire.N) []byte {
		la, err := bind.BuildAction(a, h)
		if err != nil {
			return nil
		}
		b := sizeCheck(r, la, a.K, ret, bad)
		if b == nil {
			return nil
		}
		switch a.K {
		case "nx_learn":
			if ll, ok := la.(*of.NXActionLearn); ok {
				var kids [][]byte
				for _, sp := range ll.LearnSpecs {
					sb := sizeCheck(r, sp, "learn_spec", ret, bad)
					if sb == nil {
						kids = nil
						break
					}
					kids = append(kids, sb)
					// the spec is its header, its source and (unless output) its destination, each intact
					var parts [][]byte
					if hb, err := sp.Header.MarshalBinary(); err == nil {
						parts = append(parts, hb)
					}
					if sp.SrcField != nil {
						if fb := sizeCheck(r, sp.SrcField, "learn_spec_field", ret, bad); fb != nil {
							parts = append(parts, fb)
						}
					} else {
						w := 2 * ((int(sp.Header.Len())*0 + len(sp.SrcValue) + 1) / 2)
						v := make([]byte, w)
						copy(v, sp.SrcValue)
						parts = append(parts, v)
					}
					if sp.DstField != nil {
						if fb := sizeCheck(r, sp.DstField, "learn_spec_field", ret, bad); fb != nil {
							parts = append(parts, fb)
						}
					}
					if d := embeddedPad(sb, parts, 0, 0); d != "" || len(sb) != catLen(parts) {
						bad("embed:learn_spec.parts", fmt.Sprintf("the learn spec %x is not the concatenation of its parts %x", sb, parts))
					}
				}
				if len(kids) > 0 {
					if d := embedded(b, kids, 0); d != "" {
						bad("embed:nx_learn.LearnSpecs", d)
					}
				}
			}
		case "nx_ct":
			if kids, ok := encKids(a.L["Actions"], walkAction); ok && len(kids) > 0 {
				if d := embedded(b, kids, 0); d != "" {
					bad("embed:nx_ct.Actions", d)
				}
			}
		case "act_set_field", "nx_reg_load2":
			f := a.S["Field"]
			if a.K == "nx_reg_load2" {
				f = a.S["DstField"]
			}
			if fb := oxmBytes(f); fb != nil {
				hdr := 4
				if a.K == "nx_reg_load2" {
					hdr = 10
				}
				if len(b) < hdr+len(fb) || !bytes.Equal(b[hdr:hdr+len(fb)], fb) {
					bad("embed:"+a.K+".field", fmt.Sprintf("the field's standalone encoding %x is not at offset %d of the action %x", fb, hdr, b))
				} else {
					for _, c := range b[hdr+len(fb):] {
						if c != 0 {
							bad("pad:"+a.K, fmt.Sprintf("non-zero padding after the field in %x", b))
							break
						}
					}
				}
			}
		}
		return b
	}
	walkInstr := func(in *wire.N) []byte {
		li, err := bind.BuildInstr(in, h)
		if err != nil {
			return nil
		}
		b := sizeCheck(r, li, in.K, ret, bad)
		if b == nil {
			return nil
		}
		if kids, ok := encKids(in.L["Actions"], walkAction); ok && len(kids) > 0 {
			if d := embedded(b, kids, 0); d != "" {
				bad("embed:"+in.K+".Actions", d)
			}
		}
		return b
	}
	walkBucket := func(bk *wire.N) []byte {
		lb, err := bind.BuildBucket(bk, h)
		if err != nil {
			return nil
		}
		b := sizeCheck(r, lb, "bucket", ret, bad)
		if b == nil {
			return nil
		}
		if kids, ok := encKids(bk.L["Actions"], walkAction); ok && len(kids) > 0 {
			if d := embedded(b, kids, 0); d != "" {
				bad("embed:bucket.Actions", d)
			}
		}
		return b
	}
	walkMatch := func(m *wire.N) []byte {
		if m == nil {
			return nil
		}
		lm := of.NewMatch()
		if err := bind.BuildMatchInto(lm, m, h.Variant); err != nil {
			return nil
		}
		b := sizeCheck(r, lm, "match", ret, bad)
		if b == nil {
			return nil
		}
		if kids, ok := encKids(m.L["Fields"], oxmBytes); ok && len(kids) > 0 {
			if d := embedded(b, kids, 0); d != "" {
				bad("embed:match.Fields", d)
			}
		}
		return b
	}
	var walkMsg func(m *wire.N) []byte
	walkMsg = func(m *wire.N) []byte {
		lm, err, pn := safeBuild(m, h)
		if pn != nil || err != nil {
			return nil
		}
		b := sizeCheck(r, lm.(lenEnc), rootSig(m), ret, bad)
		if b == nil {
			return nil
		}
		del := false
		switch m.K {
		case "hello":
			if hl, ok := lm.(*common.Hello); ok {
				// header, then every element intact, each followed by its zero padding to 8 bytes
				pos, okAll := 8, true
				for i, e := range hl.Elements {
					eb := sizeCheck(r, e, "hello_elem", ret, bad)
					if eb == nil {
						okAll = false
						break
					}
					if pos+len(eb) > len(b) || !bytes.Equal(b[pos:pos+len(eb)], eb) {
						bad("embed:hello.Elements", fmt.Sprintf("element %d (%x) is not at offset %d of the hello %x", i, eb, pos, b))
						okAll = false
						break
					}
					pos += len(eb)
					for pos%8 != 0 && pos < len(b) {
						if b[pos] != 0 {
							bad("pad:hello.Elements", fmt.Sprintf("non-zero padding byte at offset %d of the hello %x", pos, b))
							okAll = false
						}
						pos++
					}
				}
				if okAll && pos != len(b) {
					bad("embed:hello.Elements", fmt.Sprintf("%d bytes behind the last element of the hello %x", len(b)-pos, b))
				}
			}
		case "flow_mod":
			del = m.U["Command"] == 3 || m.U["Command"] == 4
			mb := walkMatch(m.S["Match"])
			kids, ok := encKids(m.L["Instructions"], walkInstr)
			if del {
				kids = nil
			}
			if ok && mb != nil {
				if d := embedded(b, append([][]byte{mb}, kids...), 0); d != "" {
					bad("embed:flow_mod.Match+Instructions", d)
				}
			}
		case "group_mod":
			if m.U["Command"] != 2 {
				if kids, ok := encKids(m.L["Buckets"], walkBucket); ok && len(kids) > 0 {
					if d := embedded(b, kids, 0); d != "" {
						bad("embed:group_mod.Buckets", d)
					}
				}
			}
		case "packet_out":
			if kids, ok := encKids(m.L["Actions"], walkAction); ok {
				data := m.B["Data"]
				if d := embedded(b, append(kids, data), 0); d != "" {
					bad("embed:packet_out.Actions+Data", d)
				}
			}
		case "multipart_request":
			if body := m.S["Body"]; body != nil && body.S["Match"] != nil {
				if mb := walkMatch(body.S["Match"]); mb != nil {
					if d := embedded(b, [][]byte{mb}, 0); d != "" {
						bad("embed:multipart_request.Match", d)
					}
				}
			}
		case "experimenter":
			if vd := m.S["VendorData"]; vd != nil && vd.K == "bundle_add" {
				if ib := walkMsg(vd.S["Message"]); ib != nil {
					// the embedded message keeps its own transaction id: compare with that masked
					if len(b) < 24+len(ib) {
						bad("embed:bundle_add.Message", fmt.Sprintf("bundle-add of %d bytes cannot hold the %d-byte message", len(b), len(ib)))
					} else {
						e := append([]byte{}, b[24:24+len(ib)]...)
						i2 := append([]byte{}, ib...)
						maskXidsRaw(e)
						maskXidsRaw(i2)
						if !bytes.Equal(e, i2) {
							bad("embed:bundle_add.Message", fmt.Sprintf("the embedded message differs from its standalone encoding: %x vs %x", head(e, 48), head(i2, 48)))
						}
					}
					// the properties, each intact and zero-padded to 16 bytes, are the last bytes of the encoding;
					// between the message and the first of them only zero bytes, fewer than 8
					if props := vd.L["Properties"]; len(props) > 0 {
						var want []byte
						for _, p := range props {
							pb := []byte{0xff, 0xff, 0, 12, 0, 0, 0, 0, 0, 0, 0, 0, 0, 0, 0, 0}
							binary.BigEndian.PutUint32(pb[4:], uint32(p.U["ExperimenterID"]))
							binary.BigEndian.PutUint32(pb[8:], uint32(p.U["ExperimenterType"]))
							want = append(want, pb...)
						}
						gap := len(b) - len(want) - 24 - len(ib)
						switch {
						case gap < 0 || gap > 7:
							bad("embed:bundle_add.Properties", fmt.Sprintf("%d bytes stand between the %d-byte message and the %d bytes of properties in an encoding of %d bytes", gap, len(ib), len(want), len(b)))
						case !bytes.Equal(b[len(b)-len(want):], want):
							bad("embed:bundle_add.Properties", fmt.Sprintf("the encoding ends in %x, the properties (each padded to 16 bytes) are %x", b[len(b)-len(want):], want))
						case !bytes.Equal(b[24+len(ib):len(b)-len(want)], make([]byte, gap)):
							bad("embed:bundle_add.Properties", "the bytes between the message and the first property are not zero")
						}
					}
				}
			}
		}
		return b
	}
	walkMsg(n)
}

// maskXidsRaw zeroes the xid of a message and of messages nested in bundle-adds.
func maskXidsRaw(b []byte) {
	if len(b) >= 8 {
		b[4], b[5], b[6], b[7] = 0, 0, 0, 0
	}
	if len(b) >= 32 && b[1] == 4 && be16(b[8:10]) == 0x4f4e && be16(b[10:12]) == 0x4600 && be16(b[12:14]) == 0 && be16(b[14:16]) == 2301 {
		maskXidsRaw(b[24:])
	}
}

func oxmName(f *wire.N) string {
	if i := wire.OxmTable[[2]uint16{uint16(f.U["Class"]), uint16(f.U["Field"])}]; i != nil {
		return i.Name
	}
	return fmt.Sprintf("%#x/%d", f.U["Class"], f.U["Field"])
}

var _ util.Message

func c06(r *ev.Run, replay string) {
	ret := &retained{}
	if replay != "" {
		var c shapeCase
		if err := ev.LoadReplay(replay, &c); err == nil && c.Tree != nil {
			c06Tree(r, c.Tree, c.Hist, ret, c)
		} else {
			c06Packets(r, ret)
			directSizes(r, ret)
		}
		r.Set("states", 1)
		return
	}
	shapes := forEachControllerShape(r, func(n *wire.N, h bind.Hist) {
		if h.Pivot != 0 || h.Alt || h.LenBetween {
			return // embedding does not depend on the builder history (C02/C03 cover histories)
		}
		c06Tree(r, n, h, ret, shapeCase{Model: n.String(), Hist: h, Tree: n})
		if n.K == "packet_out" && h == (bind.Hist{}) {
			// a conntrack action that receives its nested actions after it was attached: the
			// packet-out must size and embed it as it is at encoding time
			for _, a := range n.L["Actions"] {
				if a.K == "nx_ct" && len(a.L["Actions"]) > 0 {
					lg := bind.Hist{LateGrow: true}
					r.Add("late_growth_histories", 1)
					c06Tree(r, n, lg, ret, shapeCase{Model: n.String(), Hist: lg, Tree: n})
					break
				}
			}
		}
	})
	// switch-originated kinds the library can also encode (replies, stats records) are sized through the round-trip corpus
	var nsw int64
	corpus.Switch(r.Thorough(), r.Expired, func(string, bool) {}, func(n *wire.N) {
		m, err, pn := safeBuild(n, bind.Hist{})
		if pn != nil || err != nil {
			return
		}
		nsw++
		bad := func(sig, what string) {
			r.Violation(sig, what+" in "+shortModel(n), shapeCase{Model: n.String(), Tree: n})
		}
		b := sizeCheck(r, m.(lenEnc), rootSig(n), ret, bad)
		// byte-string members (error data, packet-in payload) sit intact at the end of the message
		if b != nil {
			switch n.K {
			case "error", "error_exp", "packet_in":
				if data := n.B["Data"]; len(data) > 0 {
					if len(b) < len(data) || !bytes.Equal(b[len(b)-len(data):], data) {
						bad("embed:"+n.K+".Data", fmt.Sprintf("the %d data bytes given to the message are not the last %d bytes of its %d-byte encoding", len(data), len(data), len(b)))
					}
				}
			}
		}
	})
	r.Completed("switch-originated kinds that have constructors (error, features/config reply, flow-removed, port-status, packet-in)")
	np := c06Packets(r, ret)
	np += directSizes(r, ret)
	r.Set("states", shapes+nsw+np)
	r.Set("traces_validated_against_impl", r.Counter("transitions")/3)
	r.Set("evaluations", r.Counter("transitions")/3)
	r.Set("rule", "every element of every tree of the shape corpus is built standalone and sized/encoded; every container's bytes are searched for its children's standalone encodings")
}
