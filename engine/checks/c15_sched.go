//go:build verif

package checks

import (
	"fmt"

	"verif/ev"
)

// c15Concurrent: part (d) of C15 - concurrent lookups whose results are overwritten by their
// owners (operation F of the C14 harness: lookup, overwrite the result, build a match through the
// registry), on 2 and 3 threads, all interleavings under the controlled scheduler; plus the
// free-running -race pass over the same bodies.
func c15Concurrent(r *ev.Run) int64 {
	if !requireScheduler() {
		return 0
	}
	c14Init()
	ref := map[string]string{}
	fs := []c14Op{{"F", 0}, {"F", 1}, {"F", 2}}
	for _, o := range fs {
		_, s := c14Run(o)
		ref[o.String()] = s
	}
	var execs int64
	// bodies: every single operation, and the three two-operation bodies that chain different names
	// (quick); all nine two-operation bodies in the thorough tier
	bodies := c14Bodies(1, fs)
	if r.Thorough() {
		bodies = c14Bodies(2, fs)
	} else {
		bodies = append(bodies, []c14Op{fs[0], fs[1]}, []c14Op{fs[1], fs[2]}, []c14Op{fs[2], fs[0]})
	}
	for i := range bodies {
		for j := i; j < len(bodies); j++ {
			n, _ := c14Explore(r, c14Scenario{Bodies: [][]c14Op{bodies[i], bodies[j]}, Start: 1}, ref, nil)
			execs += n
		}
	}
	for i := range fs {
		for j := i; j < len(fs); j++ {
			for k := j; k < len(fs); k++ {
				n, _ := c14Explore(r, c14Scenario{Bodies: [][]c14Op{{fs[i]}, {fs[j]}, {fs[k]}}, Start: 1}, ref, nil)
				execs += n
			}
		}
	}
	r.Completed(fmt.Sprintf("(d) 2 threads x all unordered pairs of %d bodies of <= 2 lookup-and-overwrite operations over 3 names, 3 threads x all multisets of single operations: all interleavings (%d schedules)", len(bodies), execs))
	r.Set("concurrent_schedules", execs)
	racePass(r, "C14")
	return execs
}
