//go:build verif

package checks

import "verif/ev"

// c15Concurrent: part (d), filled in with the scheduler harness (see c14.go).
func c15Concurrent(r *ev.Run) int64 { return 0 }
