//go:build verif

package checks

import (
	"bytes"
	"fmt"
	"net"
	"sort"

	"github.com/contiv/libOpenflow/common"
	of "github.com/contiv/libOpenflow/openflow13"
	"github.com/contiv/libOpenflow/util"

	"verif/bind"
	"verif/ev"
	"verif/wire"
)

// C01: header version / type / length = bytes produced = reported size, for every
// controller-originated message the API can build, over the shape corpus x builder histories.
func init() { Registry["C01"] = c01 }

func c01Check(r *ev.Run, n *wire.N, h bind.Hist, ret *retained) {
	rep := shapeCase{Model: n.String(), Hist: h, Tree: n}
	root := rootSig(n)
	bad := func(clause, what string) {
		r.Violation(clause+":"+root, what+" [history "+histName(h)+"] for "+shortModel(n), rep)
	}
	m, err, pn := safeBuild(n, h)
	if pn != nil {
		bad("build-panic", fmt.Sprintf("building through the API panicked: %v", pn))
		return
	}
	if err == bind.ErrNoAPI {
		r.Add("not_buildable_through_api", 1)
		return
	}
	if err != nil {
		r.Add("bind_errors", 1)
		r.Set("last_bind_error", err.Error())
		return
	}
	c01Message(r, m, n.K, bad, ret, root)
	if vd := n.S["VendorData"]; vd != nil && vd.K == "bundle_add" {
		// the embedded message must be framed as well: it sits at offset 24
		b, _, _ := safeEncode(m)
		inner := vd.S["Message"]
		if len(b) >= 32 && inner != nil {
			// behind the embedded message come the properties, each padded to 8 bytes (12 -> 16 here:
			// the API gives a property no data)
			// and, if there is a property, between the message and the first one the zero bytes that
			// bring the message to a 64-bit boundary
			e := b[24 : len(b)-16*len(vd.L["Properties"])]
			if np := len(vd.L["Properties"]); np > 0 && len(e) >= 8 {
				if l := be16(e[2:4]); l >= 8 && l <= len(e) && len(e)-l < 8 && (l+7)/8*8 == len(e) && bytes.Equal(e[l:], make([]byte, len(e)-l)) {
					e = e[:l]
				}
			}
			want := wire.MsgCodes.ByKind[inner.K]
			if e[0] != 4 || uint64(e[1]) != want || be16(e[2:4]) != len(e) {
				bad("embedded-frame", fmt.Sprintf("message embedded in bundle-add: version %d type %d length %d, embedded bytes %d (want version 4, type %d)", e[0], e[1], be16(e[2:4]), len(e), want))
			}
		}
	}
}

func c01Message(r *ev.Run, m util.Message, kind string, bad func(clause, what string), ret *retained, label string) {
	r.Add("transitions", 4)
	l0, pn := safeLen(m)
	if pn != nil {
		bad("len-panic", fmt.Sprintf("Len() panicked: %v", pn))
		return
	}
	b, err, pn := safeEncode(m)
	if pn != nil {
		bad("encode-panic", fmt.Sprintf("MarshalBinary() panicked: %v", pn))
		return
	}
	if err != nil {
		bad("encode-error", "MarshalBinary() returned an error: "+err.Error())
		return
	}
	l1, _ := safeLen(m)
	if len(b) < 8 {
		bad("short", fmt.Sprintf("encoding has %d bytes", len(b)))
		return
	}
	r.Outcome(fmt.Sprintf("len%%8=%d", len(b)%8))
	if b[0] != 4 {
		bad("version", fmt.Sprintf("header version byte is %d, want 4", b[0]))
	}
	if want := wire.MsgCodes.ByKind[kind]; uint64(b[1]) != want {
		bad("type", fmt.Sprintf("header type byte is %d, want %d (%s)", b[1], want, kind))
	}
	if be16(b[2:4]) != len(b) {
		bad("length-vs-bytes", fmt.Sprintf("header length %d, %d bytes produced", be16(b[2:4]), len(b)))
	}
	if int(l0) != len(b) || int(l1) != len(b) {
		bad("len-vs-bytes", fmt.Sprintf("Len() reports %d before and %d after encoding, %d bytes produced", l0, l1, len(b)))
	}
	if old, ch := ret.changed(); ch {
		bad("earlier-result-overwritten", "the bytes returned for an earlier message ("+old+") changed when this message was encoded")
	}
	first := append([]byte{}, b...)
	ret.add(b, label)
	// the second encoding of the same value is framed the same way
	if b2, err2, pn2 := safeEncode(m); pn2 == nil && err2 == nil {
		l2, _ := safeLen(m)
		if len(b2) < 8 || b2[0] != 4 || be16(b2[2:4]) != len(b2) || int(l2) != len(b2) || len(b2) != len(first) {
			bad("second-encoding", fmt.Sprintf("encoding the same value again: %d bytes, header length %d, Len() %d (first encoding: %d bytes)", len(b2), be16(b2[2:4]), l2, len(first)))
		}
	}
}

func shortModel(n *wire.N) string {
	s := n.String()
	if len(s) > 160 {
		s = s[:160] + "..."
	}
	return s
}

// c01Hello covers hello messages whose element list was changed through the exported fields (the
// API has no adder for hello elements).
func c01Hello(r *ev.Run, ret *retained) int64 {
	var n int64
	for nel := 0; nel <= 3; nel++ {
		for nbm := 1; nbm <= 2; nbm++ {
			h, _ := common.NewHello(4)
			h.Elements = h.Elements[:0]
			for i := 0; i < nel; i++ {
				e := common.NewHelloElemVersionBitmap()
				for len(e.Bitmaps) < nbm {
					e.Bitmaps = append(e.Bitmaps, 1<<4)
					e.Length += 4
				}
				h.Elements = append(h.Elements, e)
			}
			label := fmt.Sprintf("hello[elements=%d,bitmaps=%d]", nel, nbm)
			rep := map[string]any{"hello_elements": nel, "bitmaps": nbm}
			c01Message(r, h, "hello", func(clause, what string) {
				r.Violation(clause+":hello", what+" for "+label, rep)
			}, ret, label)
			n++
		}
	}
	return n
}

// c01OddAddresses: address-typed arguments (net.IP, net.HardwareAddr) whose Go type admits lengths the
// wire field has no room for - an IPv6 or nil address handed to an IPv4 field, an IPv4 address in its
// 16-byte form, a 4-byte address handed to an IPv6 field, EUI-64 / InfiniBand / nil hardware addresses.
// What the field then carries is not the subject here (the constructors are untyped about it); the
// message must still be framed exactly. Each odd field sits alone and in second position of the
// match of a flow-mod (followed by an instruction), a flow-stats and an aggregate-stats request, and
// as the hardware address of a port-mod.
func c01OddAddresses(r *ev.Run, ret *retained) int64 {
	var n int64
	ips := map[string]net.IP{
		"nil": nil, "empty": net.IP{}, "v4": net.IP{10, 1, 2, 3}, "v4in16": net.IPv4(10, 1, 2, 3), "v6": net.ParseIP("2001:db8::1"),
		"v4mapped-prefix-only": net.IP{0, 0, 0, 0, 0, 0, 0, 0, 0, 0, 0xff, 0xff, 0, 0, 0, 0}, "3bytes": net.IP{1, 2, 3}, "20bytes": net.IP(make([]byte, 20)),
	}
	macs := map[string]net.HardwareAddr{
		"nil": nil, "mac": {1, 2, 3, 4, 5, 6}, "4bytes": {1, 2, 3, 4}, "eui64": {1, 2, 3, 4, 5, 6, 7, 8}, "ipoib": net.HardwareAddr(make([]byte, 20)),
	}
	var ipNames, macNames []string
	for k := range ips {
		ipNames = append(ipNames, k)
	}
	for k := range macs {
		macNames = append(macNames, k)
	}
	sort.Strings(ipNames)
	sort.Strings(macNames)
	type mk struct {
		name string
		f    func() *of.MatchField
	}
	var fields []mk
	for _, vn := range ipNames {
		v := ips[vn]
		for _, mn := range ipNames {
			var mp *net.IP
			if mn != "empty" { // "empty" stands for: no mask
				m := ips[mn]
				mp = &m
			}
			vn, mn, v, mp := vn, mn, v, mp
			lbl := func(c string) string { return fmt.Sprintf("%s(value %s, mask %s)", c, vn, map[bool]string{true: "none", false: mn}[mp == nil]) }
			fields = append(fields,
				mk{lbl("NewIpv4SrcField"), func() *of.MatchField { return of.NewIpv4SrcField(v, mp) }},
				mk{lbl("NewIpv4DstField"), func() *of.MatchField { return of.NewIpv4DstField(v, mp) }},
				mk{lbl("NewIpv6SrcField"), func() *of.MatchField { return of.NewIpv6SrcField(v, mp) }},
				mk{lbl("NewIpv6DstField"), func() *of.MatchField { return of.NewIpv6DstField(v, mp) }},
				mk{lbl("NewTunnelIpv4SrcField"), func() *of.MatchField { return of.NewTunnelIpv4SrcField(v, mp) }},
				mk{lbl("NewTunnelIpv4DstField"), func() *of.MatchField { return of.NewTunnelIpv4DstField(v, mp) }})
			if mp != nil {
				m := *mp
				fields = append(fields,
					mk{lbl("NewNxARPSpaMatchField"), func() *of.MatchField { return of.NewNxARPSpaMatchField(v, m) }},
					mk{lbl("NewNxARPTpaMatchField"), func() *of.MatchField { return of.NewNxARPTpaMatchField(v, m) }})
			}
		}
		vn, v := vn, v
		fields = append(fields,
			mk{"NewArpSpaField(" + vn + ")", func() *of.MatchField { return of.NewArpSpaField(v) }},
			mk{"NewArpTpaField(" + vn + ")", func() *of.MatchField { return of.NewArpTpaField(v) }})
	}
	for _, vn := range macNames {
		v := macs[vn]
		for _, mn := range macNames {
			var mp *net.HardwareAddr
			if mn != "nil" {
				m := macs[mn]
				mp = &m
			}
			vn, mn, v, mp := vn, mn, v, mp
			lbl := func(c string) string { return fmt.Sprintf("%s(value %s, mask %s)", c, vn, mn) }
			fields = append(fields,
				mk{lbl("NewEthDstField"), func() *of.MatchField { return of.NewEthDstField(v, mp) }},
				mk{lbl("NewEthSrcField"), func() *of.MatchField { return of.NewEthSrcField(v, mp) }})
			if mp != nil {
				m := *mp
				fields = append(fields,
					mk{lbl("NewNxARPShaMatchField"), func() *of.MatchField { return of.NewNxARPShaMatchField(v, m) }},
					mk{lbl("NewNxARPThaMatchField"), func() *of.MatchField { return of.NewNxARPThaMatchField(v, m) }})
			}
		}
		vn, v := vn, v
		fields = append(fields,
			mk{"NewArpShaField(" + vn + ")", func() *of.MatchField { return of.NewArpShaField(v) }},
			mk{"NewArpThaField(" + vn + ")", func() *of.MatchField { return of.NewArpThaField(v) }})
	}
	one := func(label, kind string, build func() util.Message) {
		n++
		rep := map[string]any{"odd_address_case": label}
		var m util.Message
		func() {
			defer func() {
				if p := recover(); p != nil {
					r.Violation("build-panic:"+kind, fmt.Sprintf("building %s panicked: %v", label, p), rep)
				}
			}()
			m = build()
		}()
		if m == nil {
			return
		}
		c01Message(r, m, kind, func(clause, what string) {
			r.Violation(clause+":odd-address:"+kind, what+" for "+label, rep)
		}, ret, label)
	}
	for _, f := range fields {
		f := f
		for _, second := range []bool{false, true} {
			second := second
			match := func(add func(of.MatchField)) {
				if second {
					add(*of.NewEthTypeField(0x0800))
				}
				if mf := f.f(); mf != nil {
					add(*mf)
				}
			}
			pos := map[bool]string{false: "alone", true: "second"}[second]
			one("flow-mod with "+f.name+" "+pos+" in the match, then goto-table", "flow_mod", func() util.Message {
				fm := of.NewFlowMod()
				match(fm.Match.AddField)
				fm.AddInstruction(of.NewInstrGotoTable(3))
				return fm
			})
			one("flow-stats request with "+f.name+" "+pos+" in the match", "multipart_request", func() util.Message {
				req := &of.MultipartRequest{Header: of.NewOfp13Header(), Type: of.MultipartType_Flow}
				req.Header.Type = of.Type_MultiPartRequest
				fs := of.NewFlowStatsRequest()
				match(fs.Match.AddField)
				req.Body = fs
				return req
			})
			one("aggregate-stats request with "+f.name+" "+pos+" in the match", "multipart_request", func() util.Message {
				req := &of.MultipartRequest{Header: of.NewOfp13Header(), Type: of.MultipartType_Aggregate}
				req.Header.Type = of.Type_MultiPartRequest
				as := of.NewAggregateStatsRequest()
				match(as.Match.AddField)
				req.Body = as
				return req
			})
		}
		one("set-field action carrying "+f.name+" in a packet-out", "packet_out", func() util.Message {
			po := of.NewPacketOut()
			if mf := f.f(); mf != nil {
				po.AddAction(of.NewActionSetField(*mf))
			}
			return po
		})
	}
	for _, vn := range macNames {
		v := macs[vn]
		one("port-mod with hardware address "+vn, "port_mod", func() util.Message {
			pm := of.NewPortMod(7)
			pm.HWAddr = v
			return pm
		})
	}
	return n
}

// c01Direct: messages outside the model corpus - multipart requests of every type 0..19 without a
// body (a caller fills Body or leaves it nil), the values of direct.go that are top-level messages
// (flow-mod with a clear-actions instruction that holds actions, features reply with ports), an
// experimenter message without payload.
func c01Direct(r *ev.Run, ret *retained) int64 {
	var n int64
	one := func(label, kind string, m util.Message) {
		n++
		rep := map[string]any{"direct_message": label}
		c01Message(r, m, kind, func(clause, what string) {
			r.Violation(clause+":direct:"+kind, what+" for "+label, rep)
		}, ret, label)
	}
	for t := 0; t < 20; t++ {
		req := &of.MultipartRequest{Header: of.NewOfp13Header(), Type: uint16(t)}
		req.Header.Type = of.Type_MultiPartRequest
		one(fmt.Sprintf("multipart request of type %d with no body", t), "multipart_request", req)
	}
	for _, d := range directValues() {
		var v any
		if pn := safePkt(func() { v = d.mk() }); pn != nil {
			continue
		}
		switch m := v.(type) {
		case *of.FlowMod:
			one(d.name, "flow_mod", m)
		case *of.SwitchFeatures:
			one(d.name, "features_reply", m)
		}
	}
	return n
}

func c01(r *ev.Run, replay string) {
	ret := &retained{}
	if replay != "" {
		var c shapeCase
		if err := ev.LoadReplay(replay, &c); err != nil || c.Tree == nil {
			c01Hello(r, ret)
			c01Direct(r, ret)
			c01OddAddresses(r, ret)
			r.Set("states", 1)
			return
		}
		c01Check(r, c.Tree, c.Hist, ret)
		r.Set("states", 1)
		return
	}
	shapes := forEachControllerShape(r, func(n *wire.N, h bind.Hist) { c01Check(r, n, h, ret) })
	shapes += c01Hello(r, ret)
	r.Completed("hello with 0..3 elements x 1..2 bitmaps set through the exported fields")
	dn := c01Direct(r, ret)
	shapes += dn
	r.Add("histories", dn)
	r.Completed("multipart requests of every type 0..19 without a body; flow-mod with a clear-actions instruction holding 0..2 actions; features reply with 0..2 port descriptions")
	odd := c01OddAddresses(r, ret)
	shapes += odd
	r.Add("histories", odd)
	r.Set("odd_address_cases", odd)
	r.Completed("address arguments of every length the Go types admit (nil, 3, 4, 16, 20-byte IPs; nil, 4, 6, 8, 20-byte hardware addresses) as value and mask of every address-typed match-field constructor, in flow-mod / flow-stats / aggregate-stats matches, set-field actions and port-mod")
	r.Set("states", shapes)
	r.Set("traces_validated_against_impl", r.Counter("histories"))
	r.Set("evaluations", r.Counter("histories"))
	r.Set("rule", "a state is a model tree of the shape corpus; each is built through the API under up to 7 builder histories and encoded; outcome classes = encoded size modulo 8")
	r.Assume("children are completed before they are added (editing a child after insertion is outside the API contract)")
	r.Assume("messages above 65535 bytes are excluded (the property excludes them)")
}
