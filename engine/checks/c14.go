//go:build verif

package checks

import (
	"encoding/binary"
	"fmt"
	"net"
	"os"
	"os/exec"
	"reflect"
	"sort"
	"strings"
	"sync"
	"time"

	"github.com/contiv/libOpenflow/common"
	of "github.com/contiv/libOpenflow/openflow13"
	"github.com/contiv/libOpenflow/util"
	verifrt "github.com/contiv/libOpenflow/verifrt"

	"verif/bind"
	"verif/corpus"
	"verif/dump"
	"verif/ev"
	"verif/wire"
)

// C14: concurrent use is safe. Thread bodies of 1..3 library operations run on 2..4 threads under
// the controlled scheduler (rewrites R2/R3: one scheduling point per atomic operation and per
// access to a package-level variable that is written anywhere, with a point between the read and
// the write of a non-atomic update). All interleavings are explored. Oracle: transaction ids drawn
// in one execution are pairwise distinct; every result equals the result of the same operation
// run alone; no panic. A separate free-running -race pass monitors the same bodies on 2..64 real
// goroutines (the cooperative scheduler's hand-offs would blind the race detector).
func init() { Registry["C14"] = c14 }

// c14Op is one library operation of a thread body.
type c14Op struct {
	Kind string `json:"kind"` // G H E P F B
	Arg  int    `json:"arg"`
}

func (o c14Op) String() string { return fmt.Sprintf("%s%d", o.Kind, o.Arg) }

var (
	c14Once   sync.Once
	c14Models []*wire.N // messages built and encoded by E
	c14Frames [][]byte  // reference frames parsed by P
	c14Bad    [][]byte  // malformed frames parsed by Q
	c14Fields = []struct {
		name string
		mask bool
	}{{"NXM_NX_REG3", true}, {"OXM_OF_ETH_DST", false}, {"nxm_nx_ct_label", true}}
)

func c14Init() {
	c14Once.Do(func() {
		m2 := corpus.Match(corpus.OxmByName("OXM_OF_IN_PORT", false, 1), corpus.OxmByName("OXM_OF_ETH_DST", true, 2))
		m3 := corpus.Match(corpus.OxmByName("OXM_OF_IN_PORT", false, 7), corpus.OxmByName("OXM_OF_IPV4_SRC", true, 5))
		fm := corpus.FlowMod(0, m2, corpus.Instr("instr_apply_actions", 1, corpus.Action("act_output", 1), corpus.Action("nx_reg_load", 2)))
		fm2 := corpus.FlowMod(1, m3, corpus.Instr("instr_write_actions", 4, corpus.Action("act_group", 5)), corpus.Instr("instr_goto_table", 6))
		vary := func(n *wire.N) *wire.N {
			// the same kind with every scalar changed, so that cross-talk between two encoders of the
			// same kind is visible
			c := n.Clone()
			var walk func(x *wire.N)
			walk = func(x *wire.N) {
				if x == nil {
					return
				}
				for k, v := range x.U {
					switch k {
					case "Type", "Command", "Class", "Field", "HasMask", "Vendor", "ExperimenterType", "Length", "Flags":
					default:
						x.U[k] = (v ^ 0x5a5a5a5a5a5a5a5a) & maxOf(v)
					}
				}
				for _, ch := range x.S {
					walk(ch)
				}
				for _, l := range x.L {
					for _, ch := range l {
						walk(ch)
					}
				}
			}
			walk(c)
			return c
		}
		// even index: a model; odd index: the same kind with different values
		c14Models = []*wire.N{
			fm, fm2,
			corpus.GroupMod(0, 1, corpus.Bucket(1, corpus.Action("act_output", 1))), corpus.GroupMod(1, 2, corpus.Bucket(4, corpus.Action("act_group", 3)), corpus.Bucket(5)),
			corpus.BundleAdd(fm.Clone(), 1), corpus.BundleAdd(fm2.Clone(), 2),
			corpus.PacketOut(corpus.EthFrame("arp"), true, corpus.Action("act_output", 2)), corpus.PacketOut(corpus.EthFrame("ipv4-udp"), true, corpus.Action("act_output", 5), corpus.Action("act_group", 6)),
		}
		for _, b := range c05ControllerBases() {
			switch b.K {
			case "multipart_request", "port_mod", "set_config":
				c14Models = append(c14Models, b, vary(b))
			}
		}
		for _, n := range []*wire.N{
			corpus.PacketIn(1, corpus.Match(corpus.OxmByName("OXM_OF_IN_PORT", false, 1)), corpus.EthFrame("ipv4-udp")),
			corpus.FlowRemoved(m2.Clone()),
			corpus.MultipartReply(1, corpus.FlowStatsRec(1, m2.Clone(), corpus.Instr("instr_apply_actions", 1, corpus.Action("act_output", 1)))),
		} {
			b, _ := wire.Encode(n)
			c14Frames = append(c14Frames, b)
		}
		if len(c14Frames) >= 3 {
			c14Bad = [][]byte{
				append([]byte{}, c14Frames[0][:len(c14Frames[0])/2]...),
				func() []byte { b := append([]byte{}, c14Frames[2]...); b[16], b[17] = 0xff, 0xf0; return b }(),
				{4, 0, 0, 9, 0, 0, 0, 1, 0},
			}
		}
		// one frame of every kind the parser decodes (switch-originated base messages, and the
		// controller-originated kinds a bundle-add may embed), as further single-operation bodies
		more := append(c04Bases(), corpus.BundleAdd(fm.Clone(), 1), corpus.BundleAdd(corpus.BundleAdd(fm2.Clone(), 1), 2), corpus.BundleCtrl(0, 3), fm.Clone(),
			corpus.Experimenter(wire.NXVendor, 24, wire.New("nx_tlv_table_mod").Set("Command", 0).Add("TlvMaps", corpus.TlvMap(1))))
		for _, n := range more {
			b, _ := wire.Encode(n)
			if m, err, pn := safeParse(append([]byte{}, b...)); m == nil || err != nil || pn != nil {
				continue // kinds the parser does not decode are C07's subject
			}
			c14Alphabet = append(c14Alphabet, c14Op{"P", len(c14Frames)})
			c14Frames = append(c14Frames, b)
		}
	})
}

// xidsOf collects the transaction ids of an encoded message (outer, and embedded in a bundle-add).
func xidsOf(b []byte) []uint32 {
	var out []uint32
	for len(b) >= 8 {
		out = append(out, binary.BigEndian.Uint32(b[4:8]))
		if len(b) >= 32 && b[1] == 4 && be16(b[8:10]) == 0x4f4e && be16(b[10:12]) == 0x4600 && be16(b[14:16]) == 2301 {
			b = b[24:]
			continue
		}
		break
	}
	return out
}

// c14Run executes one operation; it returns the ids it drew and a canonical result (ids masked).
func c14Run(o c14Op) (xids []uint32, result string) {
	defer func() {
		if p := recover(); p != nil {
			result = fmt.Sprintf("panic: %v", p)
		}
	}()
	switch o.Kind {
	case "G":
		h := of.NewOfp13Header()
		return []uint32{h.Xid}, fmt.Sprintf("header v%d t%d l%d", h.Version, h.Type, h.Length)
	case "H":
		h := common.NewHeaderGenerator(4)()
		return []uint32{h.Xid}, fmt.Sprintf("header v%d t%d l%d", h.Version, h.Type, h.Length)
	case "E":
		n := c14Models[o.Arg%len(c14Models)]
		m, err := bind.BuildMsg(n, bind.Hist{})
		if err != nil {
			return nil, "build error: " + err.Error()
		}
		b, err := m.MarshalBinary()
		if err != nil {
			return nil, "encode error: " + err.Error()
		}
		b = append([]byte{}, b...)
		xids = xidsOf(b)
		maskXidsRaw(b)
		return xids, fmt.Sprintf("%x", b)
	case "P":
		f := c14Frames[o.Arg%len(c14Frames)]
		m, err := of.Parse(append([]byte{}, f...))
		if err != nil {
			return nil, "parse error: " + err.Error()
		}
		return nil, dump.Dump(m, dump.Options{Normalise: true})
	case "Q":
		// Parse of a frame the parser must reject: a packet-in cut short, a flow-stats reply whose
		// record length runs past the end, a hello with a one-byte element header
		f := c14Bad[o.Arg%len(c14Bad)]
		m, err := of.Parse(append([]byte{}, f...))
		if err == nil {
			return nil, "accepted: " + dump.Dump(m, dump.Options{Normalise: true})
		}
		return nil, "rejected"
	case "F":
		fl := c14Fields[o.Arg%len(c14Fields)]
		h, err := of.FindFieldHeaderByName(fl.name, fl.mask)
		if err != nil {
			return nil, "lookup error: " + err.Error()
		}
		r := fmt.Sprintf("%d/%d/%d/%v", h.Class, h.Field, h.Length, h.HasMask)
		// modify the result (must not affect anybody else), then build a match through the registry
		h.Class, h.Length = 0xdead, 0xee
		var mf *of.MatchField
		if fl.mask {
			mf, err = of.NewMatchField(fl.name, uint32(0x5a), 4, 8)
		} else {
			mf, err = of.NewMatchField[[]byte, int](fl.name, []byte{1, 2, 3, 4, 5, 6})
		}
		if err != nil {
			return nil, r + " build error: " + err.Error()
		}
		b, _ := mf.MarshalBinary()
		return nil, r + fmt.Sprintf(" %x", b)
	case "D":
		// decode into the receiver a constructor makes, from bytes whose padding is not zero (a peer
		// may send that): constructor-installed buffers are written by the decoders
		switch o.Arg % 3 {
		case 0:
			a := of.NewActionOutput(1)
			err := a.UnmarshalBinary([]byte{0, 0, 0, 16, 0, 0, 0, 9, 0xff, 0xe5, 0xde, 0xad, 0xbe, 0xef, 0xca, 0xfe})
			return nil, fmt.Sprintf("%v %s", err, dump.Dump(a, dump.Options{}))
		case 1:
			m := of.NewPacketOut()
			f := []byte{4, 13, 0, 40, 0, 0, 0, 7, 0xff, 0xff, 0xff, 0xff, 0, 0, 0, 3, 0, 16, 0xd1, 0xd2, 0xd3, 0xd4, 0xd5, 0xd6,
				0, 0, 0, 16, 0, 0, 0, 9, 0xff, 0xe5, 0xa1, 0xa2, 0xa3, 0xa4, 0xa5, 0xa6}
			err := m.UnmarshalBinary(f)
			return nil, fmt.Sprintf("%v %s", err, dump.Dump(m, dump.Options{Skip: map[string]bool{"Xid": true}}))
		default:
			m := of.NewPortStatus()
			f := make([]byte, 80)
			copy(f, []byte{4, 12, 0, 80, 0, 0, 0, 7, 2, 0xb1, 0xb2, 0xb3, 0xb4, 0xb5, 0xb6, 0xb7})
			for i := 16; i < 80; i++ {
				f[i] = byte(i)
			}
			err := m.UnmarshalBinary(f)
			return nil, fmt.Sprintf("%v %s", err, dump.Dump(m, dump.Options{Skip: map[string]bool{"Xid": true}}))
		}
	case "B":
		ctrl := of.NewBundleControl(&of.BundleControl{BundleID: 7, Type: of.OFPBCT_OPEN_REQUEST, Flags: of.OFPBCT_ATOMIC})
		fm := of.NewFlowMod()
		a1 := of.NewBundleAdd(&of.BundleAdd{BundleID: 7, Flags: of.OFPBCT_ATOMIC, Message: fm})
		gm := of.NewGroupMod()
		a2 := of.NewBundleAdd(&of.BundleAdd{BundleID: 7, Flags: of.OFPBCT_ATOMIC, Message: gm})
		var all []byte
		for _, m := range []*of.VendorHeader{ctrl, a1, a2} {
			b, err := m.MarshalBinary()
			if err != nil {
				return nil, "encode error: " + err.Error()
			}
			b = append([]byte{}, b...)
			xids = append(xids, xidsOf(b)...)
			maskXidsRaw(b)
			all = append(all, b...)
		}
		return xids, fmt.Sprintf("%x", all)
	}
	return nil, "unknown op"
}

// the first 7 operations are the core alphabet (bodies of several operations); the rest only occur
// as single-operation bodies. E operations: even argument = a model, odd = same kind, other values.
var c14Alphabet = []c14Op{{"G", 0}, {"H", 0}, {"E", 0}, {"E", 4}, {"P", 0}, {"F", 0}, {"B", 0}, {"E", 1}, {"E", 2}, {"E", 3}, {"E", 5}, {"E", 6}, {"E", 7},
	{"E", 8}, {"E", 9}, {"E", 10}, {"E", 11}, {"E", 12}, {"E", 13}, {"E", 14}, {"E", 15}, {"E", 16}, {"E", 17}, {"E", 18}, {"E", 19}, {"P", 1}, {"P", 2}, {"F", 1}, {"F", 2},
	{"D", 0}, {"D", 1}, {"D", 2}, {"Q", 0}, {"Q", 1}, {"Q", 2}}

func maxOf(v uint64) uint64 {
	switch {
	case v <= 0xff:
		return 0xff
	case v <= 0xffff:
		return 0xffff
	case v <= 0xffffffff:
		return 0xffffffff
	}
	return ^uint64(0)
}

type c14Ctor struct {
	name string
	f    func() any
}

// c14Ctors lists the constructors that hand out a message with a fresh header.
func c14Ctors() []c14Ctor {
	return []c14Ctor{
		{"common.NewHello", func() any { h, _ := common.NewHello(4); return h }},
		{"common.NewHeaderGenerator(4)()", func() any { h := common.NewHeaderGenerator(4)(); return &h }},
		{"NewOfp13Header", func() any { h := of.NewOfp13Header(); return &h }},
		{"NewEchoRequest", func() any { return of.NewEchoRequest() }},
		{"NewEchoReply", func() any { return of.NewEchoReply() }},
		{"NewConfigRequest", func() any { return of.NewConfigRequest() }},
		{"NewFeaturesRequest", func() any { return of.NewFeaturesRequest() }},
		{"NewFeaturesReply", func() any { return of.NewFeaturesReply() }},
		{"NewSetConfig", func() any { return of.NewSetConfig() }},
		{"NewPacketOut", func() any { return of.NewPacketOut() }},
		{"NewPacketIn", func() any { return of.NewPacketIn() }},
		{"NewFlowMod", func() any { return of.NewFlowMod() }},
		{"NewFlowRemoved", func() any { return of.NewFlowRemoved() }},
		{"NewGroupMod", func() any { return of.NewGroupMod() }},
		{"NewPortMod", func() any { return of.NewPortMod(1) }},
		{"NewPortStatus", func() any { return of.NewPortStatus() }},
		{"NewNXTVendorHeader", func() any { return of.NewNXTVendorHeader(of.Type_SetControllerId) }},
		{"NewSetControllerID", func() any { return of.NewSetControllerID(1) }},
		{"NewTLVTableModMessage", func() any { return of.NewTLVTableModMessage(of.NewTLVTableMod(0, nil)) }},
		{"NewTLVTableRequest", func() any { return of.NewTLVTableRequest() }},
		{"NewBundleControl", func() any { return of.NewBundleControl(&of.BundleControl{BundleID: 1}) }},
		{"NewBundleAdd", func() any { return of.NewBundleAdd(&of.BundleAdd{BundleID: 1, Message: of.NewEchoRequest()}) }},
		{"NewBundleError", func() any { return of.NewBundleError() }},
	}
}

// c14Xid calls a constructor and reads the transaction id of what it returns.
func c14Xid(f func() any) (x uint32, pn any) {
	defer func() {
		if p := recover(); p != nil {
			pn = p
		}
	}()
	v := reflect.ValueOf(f())
	for v.Kind() == reflect.Ptr {
		v = v.Elem()
	}
	if f := v.FieldByName("Xid"); f.IsValid() {
		return uint32(f.Uint()), nil
	}
	return uint32(v.FieldByName("Header").FieldByName("Xid").Uint()), nil
}

type c14Scenario struct {
	Bodies [][]c14Op `json:"bodies"`
	Start  uint32    `json:"start_xid"`
	Sched  []int     `json:"schedule,omitempty"`
}

func (s c14Scenario) String() string {
	var parts []string
	for _, b := range s.Bodies {
		var o []string
		for _, x := range b {
			o = append(o, x.String())
		}
		parts = append(parts, strings.Join(o, "."))
	}
	return fmt.Sprintf("[%s]@%#x", strings.Join(parts, " | "), s.Start)
}

type c14Result struct {
	xids    [][]uint32
	results [][]string
}

// c14Explore explores all interleavings of one scenario. ref gives the sequential results.
func c14Explore(r *ev.Run, sc c14Scenario, ref map[string]string, only []int) (execs int64, outcomes map[string]bool) {
	outcomes = map[string]bool{}
	var res *c14Result
	var doneCount int
	e := &verifrt.Explorer{Bound: -1, MaxSteps: 4000, Deadline: r.Deadline.Add(-45 * time.Second)}
	e.Setup = func() {
		common.VerifSetXid(sc.Start)
		res = &c14Result{xids: make([][]uint32, len(sc.Bodies)), results: make([][]string, len(sc.Bodies))}
		doneCount = 0
	}
	e.Body = func() {
		for i := range sc.Bodies {
			i := i
			verifrt.GoNamed(fmt.Sprintf("worker%d", i), func() {
				for _, o := range sc.Bodies[i] {
					x, s := c14Run(o)
					res.xids[i] = append(res.xids[i], x...)
					res.results[i] = append(res.results[i], s)
				}
				doneCount++
			})
		}
		verifrt.Wait("join", func() bool { return doneCount == len(sc.Bodies) })
	}
	e.Check = func(x *verifrt.Exec) {
		sched := make([]int, len(x.Trace))
		for i, p := range x.Trace {
			sched[i] = p.Chosen
		}
		rep := c14Scenario{Bodies: sc.Bodies, Start: sc.Start, Sched: sched}
		for _, evn := range x.Events {
			r.Violation("event:"+evn.Kind, fmt.Sprintf("%s in thread %s during %s: %s", evn.Kind, evn.Thread, sc, clip(evn.Detail)), rep)
		}
		if doneCount != len(sc.Bodies) {
			r.Violation("stuck", fmt.Sprintf("only %d of %d threads finished in %s; blocked: %v", doneCount, len(sc.Bodies), sc, x.Blocked()), rep)
			return
		}
		seen := map[uint32]string{}
		var order []string
		for i, xs := range res.xids {
			for _, v := range xs {
				who := fmt.Sprintf("thread %d", i)
				if prev, dup := seen[v]; dup {
					r.Violation("duplicate-xid", fmt.Sprintf("transaction id %#x was handed out twice (%s and %s) in %s, schedule %v", v, prev, who, sc, sched), rep)
					outcomes["duplicate"] = true
					return
				}
				seen[v] = who
			}
			order = append(order, fmt.Sprint(xs))
		}
		outcomes[strings.Join(order, ";")] = true
		for i, rs := range res.results {
			for j, got := range rs {
				o := sc.Bodies[i][j]
				if want := ref[o.String()]; got != want {
					r.Violation("cross-talk:"+o.Kind, fmt.Sprintf("operation %s of thread %d gives %s under concurrency and %s alone, in %s, schedule %v", o, i, clip(got), clip(want), sc, sched), rep)
					outcomes["cross-talk"] = true
					return
				}
			}
		}
	}
	if only != nil {
		e.RunOne(only)
	} else {
		// short scenarios: all interleavings; long ones (more than 9 scheduling points): all schedules
		// with at most 2 (thorough: 3) preemptions
		x := e.RunOne(nil)
		if d := len(x.Trace); d > 9 {
			e.Bound = 2
			if r.Thorough() {
				e.Bound = 3
			}
			r.Add("scenarios_preemption_bounded", 1)
		} else {
			r.Add("scenarios_all_interleavings", 1)
		}
		e.Execs, e.Transitions, e.Points = 0, 0, 0
		if !e.Run() && e.HarnessErr == nil {
			r.Incomplete("scenario " + sc.String() + " not fully explored (deadline)")
		}
	}
	if e.HarnessErr != nil {
		fmt.Println("HARNESS-ERROR:", e.HarnessErr)
		harnessFailed = true
	}
	r.Add("transitions", e.Transitions)
	r.Add("scheduling_points", e.Points)
	if int64(e.MaxDepth) > r.Counter("max_depth") {
		r.Add("max_depth", int64(e.MaxDepth)-r.Counter("max_depth"))
	}
	return e.Execs, outcomes
}

func c14Bodies(maxLen int, alpha []c14Op) [][]c14Op {
	var out [][]c14Op
	var rec func(p []c14Op)
	rec = func(p []c14Op) {
		if len(p) > 0 {
			out = append(out, append([]c14Op{}, p...))
		}
		if len(p) == maxLen {
			return
		}
		for _, o := range alpha {
			rec(append(p, o))
		}
	}
	rec(nil)
	return out
}

func bodyKey(b []c14Op) string { return fmt.Sprint(b) }

func c14(r *ev.Run, replay string) {
	c14Init()
	if len(os.Args) > 3 && os.Args[3] == "--race-pass" {
		c14RacePass()
		return
	}
	if !requireScheduler() {
		return
	}
	// sequential references
	ref := map[string]string{}
	for _, o := range c14Alphabet {
		_, s := c14Run(o)
		ref[o.String()] = s
		if _, s2 := c14Run(o); s2 != s {
			r.Violation("sequential-nondeterminism:"+o.Kind, fmt.Sprintf("operation %s gives different results on two sequential runs: %s vs %s", o, clip(s), clip(s2)), map[string]any{"op": o})
		}
	}
	if replay != "" {
		var sc c14Scenario
		if err := ev.LoadReplay(replay, &sc); err != nil || len(sc.Bodies) == 0 {
			fmt.Println("HARNESS-ERROR: cannot load replay", err)
			harnessFailed = true
			return
		}
		c14Explore(r, sc, ref, sc.Sched)
		r.Set("states", 1)
		return
	}
	// independent values share no writable memory: every message of the controller-originated
	// corpus (and its parser-made counterpart) is built twice and the two object graphs are compared
	var pairs int64
	corpus.Controller(false, r.Expired, func(string, bool) {}, func(n *wire.N) {
		if modelSize(n) > 4000 {
			return
		}
		a, err1, p1 := safeBuild(n, bind.Hist{})
		b, err2, p2 := safeBuild(n, bind.Hist{})
		if err1 != nil || err2 != nil || p1 != nil || p2 != nil {
			return
		}
		pairs++
		if sh := dump.SharedMemory(a, b); len(sh) > 0 {
			r.Violation("shared-memory:"+rootSig(n)+":"+locus(strings.SplitN(strings.TrimPrefix(sh[0], "first"), " ", 2)[0]), fmt.Sprintf("two values built independently share memory: %s (%d places) in %s", sh[0], len(sh), shortModel(n)), shapeCase{Model: n.String(), Tree: n})
		}
		f, _ := wire.Encode(n)
		if c05Parseable[n.K] {
			pa, e1, q1 := safeParse(append([]byte{}, f...))
			pb, e2, q2 := safeParse(append([]byte{}, f...))
			if e1 == nil && e2 == nil && q1 == nil && q2 == nil && pa != nil && pb != nil {
				pairs++
				if sh := dump.SharedMemory(pa, pb); len(sh) > 0 {
					r.Violation("shared-memory:parsed:"+rootSig(n)+":"+locus(strings.SplitN(strings.TrimPrefix(sh[0], "first"), " ", 2)[0]), fmt.Sprintf("two messages parsed independently share memory: %s (%d places) in %s", sh[0], len(sh), shortModel(n)), shapeCase{Model: n.String(), Tree: n})
				}
			}
		}
	})
	// every constructor that stamps a header draws its own id: all ordered pairs (a, b) of the 24
	// constructors, called a, b, a on one goroutine from two start values; the three ids are distinct.
	// (The interleavings of the draw itself are explored below with the generators G and H, which every
	// constructor calls; this sweep is about which constructors draw at all.)
	{
		ctors := c14Ctors()
		var n int64
		for _, st := range []uint32{1, 0xfffffffe} {
			for i, a := range ctors {
				for j, b := range ctors {
					common.VerifSetXid(st)
					x1, p1 := c14Xid(a.f)
					x2, p2 := c14Xid(b.f)
					x3, p3 := c14Xid(a.f)
					n++
					rep := map[string]any{"constructors": []string{a.name, b.name, a.name}, "start_xid": st}
					if p1 != nil || p2 != nil || p3 != nil {
						if i == j {
							r.Violation("constructor-panic:"+a.name, fmt.Sprintf("%s panicked: %v %v %v", a.name, p1, p2, p3), rep)
						}
						continue
					}
					if x1 == x2 || x2 == x3 || x1 == x3 {
						who := a.name
						if x1 != x3 {
							who = b.name
						}
						r.Violation("duplicate-xid:constructor:"+who, fmt.Sprintf("%s, %s, %s called one after the other carry the transaction ids %#x, %#x, %#x", a.name, b.name, a.name, x1, x2, x3), rep)
					}
				}
			}
		}
		r.Add("transitions", 3*n)
		r.Set("constructor_triples", n)
		r.Completed(fmt.Sprintf("X all ordered pairs of the %d header-stamping constructors called a, b, a: three distinct ids", len(ctors)))
	}
	// a long run of draws on one goroutine, from the start of the process on: every id is new. (Pairs and
	// triples of draws cannot see a generator that starts over early - at 2^8, 2^16, 2^24 draws - because
	// the ids it repeats were handed out long before.) Quick: the first 2^24 + 2^17 draws; thorough: all
	// 2^32 - 1 draws up to the wrap.
	{
		n := uint64(1<<24 + 1<<17)
		if r.Thorough() {
			n = 1<<32 - 1
		}
		bits := make([]uint64, (uint64(1)<<32)/64)
		common.VerifSetXid(0)
		var dup, first uint64
		for i := uint64(0); i < n; i++ {
			x := uint64(of.NewOfp13Header().Xid)
			w, b := x/64, x%64
			if bits[w]>>b&1 == 1 {
				if dup == 0 {
					first = i
				}
				dup++
				if dup > 1000 {
					break
				}
			}
			bits[w] |= 1 << b
		}
		bits = nil
		r.Add("transitions", int64(n))
		r.Set("sequential_id_run", n)
		if dup > 0 {
			r.Violation("duplicate-xid:long-run", fmt.Sprintf("in a run of %d consecutive draws on one goroutine from the start of the counter, draw number %d returned a transaction id that had been handed out before (%d repeats seen)", n, first+1, dup), map[string]any{"long_run": n, "first_repeat_at_draw": first + 1})
		}
		r.Completed(fmt.Sprintf("L a run of %d consecutive draws from the start of the counter: every id new", n))
	}
	r.Set("independent_value_pairs_compared", pairs)
	r.Completed("M every message of the controller-originated corpus built twice (constructors, and through Parse): the two object graphs share no slice backing array and no struct")
	var scenarios, execs int64
	distinct := map[string]bool{}
	run := func(sc c14Scenario) {
		if r.Expired() {
			return
		}
		scenarios++
		n, oc := c14Explore(r, sc, ref, nil)
		execs += n
		if len(oc) > 1 {
			r.Outcome("scenario-with-several-id-orders")
		} else {
			r.Outcome("scenario-with-one-id-order")
		}
		for k := range oc {
			distinct[k] = true
		}
		if scenarios&(scenarios-1) == 0 {
			r.Sample(map[string]any{"scenario": sc.String(), "schedules": n, "distinct_id_assignments": len(oc)})
		}
	}
	small := c14Alphabet[:7]
	starts := []uint32{1, 0xfffffff0}
	// 2 threads: all unordered pairs of bodies of length <= 2 over the core alphabet, both start values
	// bodies: every single operation of the core alphabet, every pair of id-drawing operations, and
	// a few two-operation bodies that mix lookups/parsing with id draws
	b2 := c14Bodies(1, small)
	for _, b := range c14Bodies(2, []c14Op{{"G", 0}, {"H", 0}, {"E", 0}, {"B", 0}}) {
		if len(b) == 2 {
			b2 = append(b2, b)
		}
	}
	b2 = append(b2, []c14Op{{"Q", 0}, {"G", 0}}, []c14Op{{"G", 0}, {"Q", 1}, {"G", 0}}, []c14Op{{"Q", 2}}, []c14Op{{"F", 0}, {"F", 1}}, []c14Op{{"P", 0}, {"F", 0}}, []c14Op{{"F", 0}, {"G", 0}}, []c14Op{{"E", 4}, {"P", 0}}, []c14Op{{"E", 4}, {"E", 5}})
	drawsOnly := func(b []c14Op) bool {
		for _, o := range b {
			if o.Kind == "P" || o.Kind == "F" || o.Kind == "Q" {
				return false
			}
		}
		return true
	}
	for i := range b2 {
		for j := i; j < len(b2); j++ {
			for _, st := range starts {
				if st != 1 && !(drawsOnly(b2[i]) && drawsOnly(b2[j])) {
					continue // the start value only matters to bodies that draw ids
				}
				run(c14Scenario{Bodies: [][]c14Op{b2[i], b2[j]}, Start: st})
			}
		}
	}
	r.Completed(fmt.Sprintf("T2 2 threads x all unordered pairs of the %d bodies (7 single operations, 16 pairs over {G,H,E0,B}, 5 mixed pairs) x start id 1 (and 0xfffffff0 for id-drawing bodies)", len(b2)))
	// every operation of the full alphabet against every other, single-op bodies
	for i := range c14Alphabet {
		for j := i; j < len(c14Alphabet); j++ {
			run(c14Scenario{Bodies: [][]c14Op{{c14Alphabet[i]}, {c14Alphabet[j]}}, Start: 1})
		}
	}
	r.Completed(fmt.Sprintf("T2b all unordered pairs of the %d single operations (every controller-originated kind in two value variants, a parser of every decodable kind incl. bundle-add nesting, 3 registry users, 2 generators, bundle)", len(c14Alphabet)))
	// 3 threads: all multisets of single-op bodies over the core alphabet; two-op bodies over the id-drawing ops
	for i := range small {
		for j := i; j < len(small); j++ {
			for k := j; k < len(small); k++ {
				run(c14Scenario{Bodies: [][]c14Op{{small[i]}, {small[j]}, {small[k]}}, Start: 1})
			}
		}
	}
	idOps := []c14Op{{"G", 0}, {"E", 0}, {"B", 0}}
	b3 := c14Bodies(2, []c14Op{{"G", 0}, {"H", 0}})
	for i := range b3 {
		for j := i; j < len(b3); j++ {
			for k := j; k < len(b3); k++ {
				run(c14Scenario{Bodies: [][]c14Op{b3[i], b3[j], b3[k]}, Start: 0xfffffff0})
			}
		}
	}
	for _, sc := range [][][]c14Op{
		{{{"E", 0}, {"G", 0}}, {{"B", 0}}, {{"G", 0}, {"G", 0}}},
		{{{"B", 0}}, {{"B", 0}}, {{"B", 0}}},
		{{{"E", 0}}, {{"E", 1}}, {{"E", 0}, {"E", 1}}},
		{{{"E", 4}, {"H", 0}}, {{"E", 5}}, {{"B", 0}}},
	} {
		run(c14Scenario{Bodies: sc, Start: 0xfffffff0})
	}
	r.Completed("T3 3 threads: all multisets of single operations over the core alphabet; all multisets of the 6 bodies of length <= 2 over {G,H}; 4 mixed scenarios with encoders and bundles")
	if r.Thorough() {
		b23 := c14Bodies(3, idOps)
		for i := range b23 {
			for j := i; j < len(b23); j++ {
				run(c14Scenario{Bodies: [][]c14Op{b23[i], b23[j]}, Start: 1})
			}
		}
		b4 := c14Bodies(1, small)
		for i := range b4 {
			for j := i; j < len(b4); j++ {
				for k := j; k < len(b4); k++ {
					for l := k; l < len(b4); l++ {
						run(c14Scenario{Bodies: [][]c14Op{b4[i], b4[j], b4[k], b4[l]}, Start: 1})
					}
				}
			}
		}
		g2 := []c14Op{{"G", 0}, {"G", 0}, {"G", 0}}
		run(c14Scenario{Bodies: [][]c14Op{g2, g2, g2, g2}, Start: 0xfffffff0})
		if !r.Expired() {
			r.Completed("T4 2 threads x bodies of length <= 3 over {G,E0,B}; 4 threads x all multisets of single operations; 4 threads x 3 draws each")
		}
	}
	// free-running race pass on the same bodies (uninstrumented -race build)
	racePass(r, "C14")
	r.Set("states", execs)
	r.Set("schedules", execs)
	r.Set("scenarios", scenarios)
	r.Set("distinct_id_assignments_observed", len(distinct))
	r.Set("traces_validated_against_impl", execs)
	r.Set("evaluations", execs)
	r.Set("rule", "a state is a complete schedule of one scenario (thread bodies x start id); scheduling points at every atomic operation and every access to a package-level variable that is written anywhere (rewrite R3, regenerated from the working tree); outcome classes = scenarios in which several id assignments were observed / one")
	r.Assume("scenarios with more than 9 scheduling points are explored up to 2 (thorough: 3) preemptions, shorter ones without a bound")
	r.Assume("sequentially consistent scheduler: memory-model effects are left to the free-running -race monitor")
	r.Assume("ids are checked up to the 32-bit wrap, which the property excludes (start ids 1 and 0xfffffff0)")
}

// ---- free-running race pass -------------------------------------------------------------------

// racePass runs the second, uninstrumented binary built with -race (path in VERIF_RACE_BIN).
func racePass(r *ev.Run, id string) {
	bin := os.Getenv("VERIF_RACE_BIN")
	if bin == "" {
		r.Set("race_pass", "not run (no -race binary was built)")
		return
	}
	ctx := time.Until(r.Deadline)
	if ctx < 20*time.Second {
		r.Set("race_pass", "not run (deadline)")
		return
	}
	cmd := exec.Command(bin, id, r.Tier, "--race-pass")
	cmd.Env = append(os.Environ(), "GORACE=halt_on_error=0 exitcode=66", "GOMAXPROCS=16")
	out, err := cmd.CombinedOutput()
	s := string(out)
	n := strings.Count(s, "WARNING: DATA RACE")
	r.Set("race_pass", fmt.Sprintf("free-running pass of the same bodies on 2..64 goroutines under the race detector: %d race reports", n))
	if n > 0 {
		// signature: the first libOpenflow frame of the first report
		where := "unknown"
		for _, l := range strings.Split(s, "\n") {
			if i := strings.Index(l, "libOpenflow/"); i >= 0 && !strings.Contains(l, "verifrt") {
				where = strings.Fields(l[i+len("libOpenflow/"):])[0]
				break
			}
		}
		if len(s) > 6000 {
			s = s[:6000]
		}
		r.Violation("data-race:"+where, fmt.Sprintf("the race detector reported %d data races in the free-running pass, first in %s", n, where), map[string]any{"race_pass": true, "report": s})
	} else if err != nil {
		fmt.Printf("HARNESS-ERROR: race pass failed: %v\n%s\n", err, clip(s))
		harnessFailed = true
	}
	if i := strings.Index(s, "RACEPASS "); i >= 0 {
		r.Set("race_pass_detail", strings.TrimSpace(strings.SplitN(s[i:], "\n", 2)[0]))
	}
}

// c14RacePass is the body of the -race binary: the same operations on real goroutines.
// c14StreamRound drives one MessageStream over net.Pipe with real goroutines.
func c14StreamRound(nIn, nOut int) string {
	a, b := net.Pipe()
	ms := util.NewMessageStream(a, ofParser{})
	done := make(chan string, 3)
	go func() { // the switch side: writes nIn echo requests, cut at odd places
		var all []byte
		for i := 0; i < nIn; i++ {
			f := []byte{4, 2, 0, 12, 0, 0, byte(i >> 8), byte(i), byte(i), byte(i + 1), byte(i + 2), byte(i + 3)}
			if i%7 == 3 {
				// a frame larger than a pool buffer's initial capacity: the buffer grows
				f = append(f, make([]byte, 2988)...)
				f[2], f[3] = 3000>>8, 3000&0xff
				for k := 12; k < len(f); k++ {
					f[k] = byte(i + k)
				}
			}
			all = append(all, f...)
		}
		for len(all) > 0 {
			n := 7 + 1000*(len(all)%3)
			if n > len(all) {
				n = len(all)
			}
			if _, err := b.Write(all[:n]); err != nil {
				done <- "write to the pipe failed: " + err.Error()
				return
			}
			all = all[n:]
		}
		done <- ""
	}()
	go func() { // the switch side reads what the stream writes
		buf := make([]byte, 4096)
		got := 0
		for got < nOut*8 {
			n, err := b.Read(buf)
			if err != nil {
				done <- "read from the pipe failed: " + err.Error()
				return
			}
			got += n
		}
		done <- ""
	}()
	go func() {
		for i := 0; i < nOut; i++ {
			ms.Outbound <- of.NewEchoRequest()
		}
	}()
	seen := map[uint32]bool{}
	timeout := time.After(60 * time.Second)
	for len(seen) < nIn {
		select {
		case m := <-ms.Inbound:
			h, ok := m.(*common.Header)
			if !ok || h == nil {
				return fmt.Sprintf("delivery %d is a %T", len(seen), m)
			}
			if seen[h.Xid] {
				return fmt.Sprintf("frame %d was delivered twice", h.Xid)
			}
			seen[h.Xid] = true
		case err := <-ms.Error:
			return "the stream reported an error: " + err.Error()
		case <-timeout:
			fmt.Printf("RACEPASS stream round cut short after a minute (%d of %d frames delivered): no verdict from it\n", len(seen), nIn)
			return "" // wall-clock time is no oracle: losses are C10's subject, this pass is here for the race detector
		}
	}
	for i := 0; i < 2; i++ {
		select {
		case e := <-done:
			if e != "" {
				return e
			}
		case <-timeout:
			return ""
		}
	}
	ms.Shutdown <- true
	return ""
}

func c14RacePass() {
	c14Init()
	ref := map[string]string{}
	for _, o := range c14Alphabet {
		_, s := c14Run(o)
		ref[o.String()] = s
	}
	rounds, mism, dups := 0, 0, 0
	for _, g := range []int{2, 3, 4, 8, 16, 64} {
		for rep := 0; rep < 30; rep++ {
			rounds++
			xs := make([][]uint32, g)
			bad := make([]int, g)
			var wg sync.WaitGroup
			for i := 0; i < g; i++ {
				wg.Add(1)
				go func(i int) {
					defer wg.Done()
					for k := 0; k < 4; k++ {
						o := c14Alphabet[(i+k+rep)%len(c14Alphabet)]
						x, s := c14Run(o)
						xs[i] = append(xs[i], x...)
						if s != ref[o.String()] {
							bad[i]++
						}
					}
				}(i)
			}
			wg.Wait()
			seen := map[uint32]bool{}
			for i := range xs {
				mism += bad[i]
				for _, v := range xs[i] {
					if seen[v] {
						dups++
					}
					seen[v] = true
				}
			}
		}
	}
	// the stream's goroutines (reader, 25 parsers, writer) on a real in-memory connection, free-running:
	// 150 frames in (three times round the buffer pool) while 40 messages go out; the race detector
	// watches the buffers change hands
	for rep := 0; rep < 3; rep++ {
		if lost := c14StreamRound(150, 40); lost != "" {
			fmt.Println("RACEPASS stream:", lost)
			mism++
		}
		rounds++
	}
	fmt.Printf("RACEPASS rounds=%d mismatches=%d duplicate_ids=%d\n", rounds, mism, dups)
	if mism > 0 || dups > 0 {
		os.Exit(67)
	}
	os.Exit(0) // never reaches the evidence writer: the pass reports to its parent only
}

var _ = sort.Strings
