//go:build verif

package checks

import (
	"bytes"
	"fmt"

	"verif/bind"
	"verif/corpus"
	"verif/ev"
	"verif/wire"
)

// C03: fields at their specified offsets with the supplied values. The library's encoding of the
// value built from a model tree must equal, byte for byte (transaction ids masked), the reference
// encoding of that tree; on mismatch the reference field map names the field.
func init() { Registry["C03"] = c03 }

// maskXids zeroes every transaction id (also in embedded messages) in both byte strings, using
// the reference field map.
func xidRanges(marks []wire.Mark) [][2]int {
	var out [][2]int
	for _, m := range marks {
		if m.Name == "Xid" {
			out = append(out, [2]int{m.Off, m.Off + m.W})
		}
	}
	return out
}

func fieldAt(marks []wire.Mark, off int) string {
	best := ""
	for _, m := range marks {
		if off >= m.Off && off < m.Off+m.W {
			best = m.Path
		}
	}
	if best == "" {
		return fmt.Sprintf("offset %d (beyond the reference encoding)", off)
	}
	return best
}

func c03Compare(r *ev.Run, n *wire.N, h bind.Hist, what string, bad func(sig, what string)) {
	m, err, pn := safeBuild(n, h)
	if pn != nil || err != nil {
		if err == bind.ErrNoAPI {
			r.Add("not_buildable_through_api", 1)
		} else if err != nil {
			r.Add("bind_errors", 1)
			r.Set("last_bind_error", err.Error())
		}
		return
	}
	b, err, pn := safeEncode(m)
	if pn != nil {
		bad("encode-panic:"+rootSig(n), fmt.Sprintf("MarshalBinary panicked: %v", pn))
		return
	}
	if err != nil {
		return
	}
	r.Add("transitions", 3)
	// the second encoding of the same value (resend, several switches) must carry the same fields
	first := append([]byte{}, b...)
	if b2, err2, pn2 := safeEncode(m); pn2 == nil && err2 == nil && !bytes.Equal(first, b2) {
		i := 0
		for i < len(first) && i < len(b2) && first[i] == b2[i] {
			i++
		}
		_, marks := wire.Encode(expectedTree(n))
		bad("second-encoding:"+locus(fieldAt(marks, i)), fmt.Sprintf("encoding the same value a second time gives different bytes from offset %d (%s): first %x, second %x%s", i, fieldAt(marks, i), clipB(first, i), clipB(b2, i), what))
		r.Outcome("mismatch")
		return
	}
	want, marks := wire.Encode(expectedTree(n))
	g := append([]byte{}, first...)
	for _, x := range xidRanges(marks) {
		for i := x[0]; i < x[1] && i < len(g); i++ {
			g[i] = 0
		}
		for i := x[0]; i < x[1] && i < len(want); i++ {
			want[i] = 0
		}
	}
	lim := len(g)
	if len(want) < lim {
		lim = len(want)
	}
	for i := 0; i < lim; i++ {
		if g[i] != want[i] {
			f := fieldAt(marks, i)
			lo := i - 4
			if lo < 0 {
				lo = 0
			}
			hi := i + 12
			if hi > lim {
				hi = lim
			}
			bad("field:"+locus(f), fmt.Sprintf("byte %d (%s) is %#02x, the specification puts %#02x there; library ...%x, reference ...%x%s", i, f, g[i], want[i], g[lo:hi], want[lo:hi], what))
			r.Outcome("mismatch")
			return
		}
	}
	if len(g) != len(want) {
		bad("size:"+rootSig(n), fmt.Sprintf("library encodes %d bytes, the reference %d%s", len(g), len(want), what))
		r.Outcome("mismatch")
		return
	}
	r.Outcome("equal")
}

func c03(r *ev.Run, replay string) {
	if replay != "" {
		var rc struct {
			Range []int  `json:"range"`
			Field string `json:"field"`
		}
		if err := ev.LoadReplay(replay, &rc); err == nil && len(rc.Range) == 2 {
			c03Range(r, rc.Range[0], rc.Range[1], rc.Field)
			r.Set("states", 1)
			return
		}
		var c shapeCase
		if err := ev.LoadReplay(replay, &c); err == nil && c.Tree != nil {
			c03Compare(r, c.Tree, c.Hist, "", func(sig, what string) { r.Violation(sig, what, c) })
		}
		r.Set("states", 1)
		return
	}
	// (1) the whole shape corpus at base values, all histories: structure, optional parts, list order
	shapes := forEachControllerShape(r, func(n *wire.N, h bind.Hist) {
		rep := shapeCase{Model: n.String(), Hist: h, Tree: n}
		c03Compare(r, n, h, "", func(sig, what string) {
			r.Violation(sig, what+" [history "+histName(h)+"] for "+shortModel(n), rep)
		})
	})
	// (2) every field of every kind, one at a time, over its whole value alphabet
	sel := baseSelector{max: 4096}
	corpus.Controller(false, func() bool { return false }, func(string, bool) {}, sel.offer)
	bases := sel.bases
	r.Set("variation_bases", len(bases))
	var nvar int64
	for _, base := range bases {
		if r.Expired() {
			r.Incomplete("single-field variations")
			break
		}
		corpus.Variations(base, func(t *wire.N) []wire.Mark { _, m := wire.Encode(t); return m }, r.Seed, func(t *wire.N, what string) {
			nvar++
			rep := shapeCase{Model: t.String(), Tree: t}
			c03Compare(r, t, bind.Hist{}, " [varied "+what+"]", func(sig, w string) {
				r.Violation(sig, w+" for "+shortModel(t), rep)
			})
		})
	}
	if !r.Expired() {
		r.Completed(fmt.Sprintf("every scalar and fixed-width byte field of %d base messages varied alone over its value alphabet (Appendix B)", len(bases)))
	}
	// (2b) pairs of scalar fields of one element, each at {0, 1, largest, largest-2}
	{
		np, ok := sel.varyPairs(r.Expired, func(t *wire.N, what string) {
			rep := shapeCase{Model: t.String(), Tree: t}
			c03Compare(r, t, bind.Hist{}, " [varied "+what+"]", func(sig, w string) {
				r.Violation(sig, w+" for "+shortModel(t), rep)
			})
		})
		nvar += np
		r.Set("same_element_pair_variations", np)
		if ok {
			r.Completed("every pair of scalar fields of one element set to {0, 1, largest, largest-2} x {0, 1, largest, largest-2}")
		} else {
			r.Incomplete("same-element field-pair variations")
		}
	}
	// (3) thorough: adjacent field pairs ("two deviations from base")
	if r.Thorough() {
		var npair int64
		for _, base := range bases {
			if r.Expired() {
				r.Incomplete("adjacent-field-pair variations")
				break
			}
			corpus.PairVariations(base, func(t *wire.N) []wire.Mark { _, m := wire.Encode(t); return m }, func(t *wire.N, what string) {
				npair++
				rep := shapeCase{Model: t.String(), Tree: t}
				c03Compare(r, t, bind.Hist{}, " [varied "+what+"]", func(sig, w string) {
					r.Violation(sig, w+" for "+shortModel(t), rep)
				})
			})
		}
		nvar += npair
		r.Set("adjacent_pair_variations", npair)
		if !r.Expired() {
			r.Completed(fmt.Sprintf("every pair of fields adjacent on the wire of the %d base messages set to {0, all-ones, pattern} x {0, all-ones, pattern}", len(bases)))
		}
	}
	nrange := c03Ranges(r)
	r.Set("bit_range_encodings", nrange)
	nvar += nrange
	r.Set("states", shapes+nvar)
	r.Set("single_field_variations", nvar-nrange)
	r.Set("traces_validated_against_impl", r.Counter("histories")+nvar)
	r.Set("evaluations", r.Counter("histories")+nvar)
	r.Set("rule", "states are model trees: the shape corpus under all builder histories plus one-field-off-base variations; each is built through the API and compared byte for byte with the reference encoding")
	r.Assume("encoders only move bits: each single input bit landing on its own output bit, plus all-zero/all-one inputs, determines the mapping for all values (DESIGN 4/C03)")
	r.Assume("delete flow-mods / group-mods carry no instructions / buckets (the library's Len() defines this)")
}
