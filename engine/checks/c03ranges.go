//go:build verif

package checks

import (
	"encoding/binary"
	"fmt"

	of "github.com/contiv/libOpenflow/openflow13"

	"verif/bind"
	"verif/corpus"
	"verif/ev"
)

// c03Range: the bit range [ofs, ofs+nbits) of a field, given as an NXRange built either way, has to
// appear as (ofs << 6 | nbits-1) in the ofs_nbits slot of the three actions that carry one:
// reg_load and output_reg (offset 10, the caller passes NXRange.ToOfsBits()) and ct (zone_ofs_nbits,
// offset 16, through ZoneRange), next to the header word of the field.
func c03Range(r *ev.Run, ofs, nbits int, field string) (n int64) {
	word := corpus.HeaderWordByName(field)
	want := uint16(ofs<<6 | (nbits - 1))
	rep := map[string]any{"range": []int{ofs, nbits}, "field": field}
	for how, mk := range []func() *of.NXRange{
		func() *of.NXRange { return of.NewNXRangeByOfsNBits(ofs, nbits) },
		func() *of.NXRange { return of.NewNXRange(ofs, ofs+nbits-1) },
	} {
		f, err := bind.HeaderField(word)
		if err != nil {
			return
		}
		type enc interface{ MarshalBinary() ([]byte, error) }
		for _, c := range []struct {
			name    string
			a       enc
			at, hdr int
		}{
			{"reg_load", of.NewNXActionRegLoad(mk().ToOfsBits(), f, 0x55), 10, 12},
			{"output_reg", of.NewOutputFromField(f, mk().ToOfsBits()), 10, 12},
			{"ct", of.NewNXActionConnTrack().ZoneRange(f, mk()), 16, 12},
		} {
			n++
			b, err := c.a.MarshalBinary()
			if err != nil || len(b) < 24 {
				r.Violation("range:"+c.name+":encode", fmt.Sprintf("%s with bits [%d,%d) of %s does not encode: %v (%d bytes)", c.name, ofs, ofs+nbits, field, err, len(b)), rep)
				continue
			}
			if g := binary.BigEndian.Uint16(b[c.at:]); g != want {
				r.Violation("range:"+c.name+":ofs_nbits", fmt.Sprintf("%s with bits [%d,%d) of %s (range built %s): ofs_nbits at offset %d is %#04x, want %#04x", c.name, ofs, ofs+nbits, field, []string{"by offset and width", "by first and last bit"}[how], c.at, g, want), rep)
			}
			if g := binary.BigEndian.Uint32(b[c.hdr:]); uint64(g) != word {
				r.Violation("range:"+c.name+":field", fmt.Sprintf("%s with bits [%d,%d) of %s: field header at offset %d is %#08x, want %#08x", c.name, ofs, ofs+nbits, field, c.hdr, g, word), rep)
			}
		}
	}
	return
}

// c03Ranges sweeps the whole 16-bit ofs_nbits space (offset 0..1023 x width 1..64).
func c03Ranges(r *ev.Run) int64 {
	var n int64
	fields := []string{"NXM_NX_REG2", "NXM_NX_TUN_ID", "NXM_NX_XXREG0"}
	for ofs := 0; ofs < 1024; ofs++ {
		for nbits := 1; nbits <= 64; nbits++ {
			n += c03Range(r, ofs, nbits, fields[(ofs+nbits)%len(fields)])
		}
	}
	r.Completed("every bit range (offset 0..1023 x width 1..64), built both ways, in the ofs_nbits slot of reg_load, output_reg and ct")
	return n
}
