//go:build verif

package checks

import (
	"fmt"
	"sort"
	"strings"

	of "github.com/contiv/libOpenflow/openflow13"
	"github.com/contiv/libOpenflow/util"

	"verif/bind"
	"verif/corpus"
	"verif/ev"
	"verif/wire"
)

// C04: parsing specification-conformant bytes (written by the reference encoder, never by the
// library) through openflow13.Parse yields a message of the right kind whose fields, read back
// through the exported fields, equal the model tree that was serialised.
func init() { Registry["C04"] = c04 }

type c04Case struct {
	Model string  `json:"model"`
	Tree  *wire.N `json:"tree"`
	Hex   string  `json:"frame_hex,omitempty"`
	What  string  `json:"variation,omitempty"`
	Minimal *wire.N `json:"minimal_failing_tree,omitempty"`
	Earlier *wire.N `json:"earlier_message,omitempty"`
}

func safeParse(b []byte) (m util.Message, err error, panicked any) {
	defer func() {
		if r := recover(); r != nil {
			panicked = r
		}
	}()
	m, err = of.Parse(b)
	return
}

func safeExtract(m util.Message) (n *wire.N, err error) {
	defer func() {
		if r := recover(); r != nil {
			err = fmt.Errorf("reading the parsed message panicked: %v", r)
		}
	}()
	return bind.ExtractMsg(m)
}

// c04Undecodable lists the match fields of the reference tables that the library, at the pinned
// commit, has no payload decoder for (an empty case in DecodeMatchField, or the whole NXM_0 class).
// The property quantifies over *supported* match-field kinds, so trees carrying one of these are
// not generated for C04/C05. The list is fixed here, not computed at run time: a decoder that
// disappears from the library is therefore reported.
var c04Undecodable = map[string]bool{}

func init() {
	for _, n := range strings.Fields(`NXM_NX_DP_HASH NXM_NX_IP_ECN NXM_NX_IP_FRAG NXM_NX_IP_TTL NXM_NX_MPLS_TTL
		NXM_NX_RECIRC_ID NXM_NX_TCP_FLAGS NXM_NX_TUN_FLAGS NXM_NX_TUN_GBP_FLAGS NXM_NX_TUN_GBP_ID NXM_NX_TUN_ID
		NXM_OF_ARP_OP NXM_OF_ARP_SPA NXM_OF_ARP_TPA NXM_OF_ETH_DST NXM_OF_ETH_SRC NXM_OF_ETH_TYPE NXM_OF_ICMP_CODE
		NXM_OF_ICMP_TYPE NXM_OF_IN_PORT NXM_OF_IP_DST NXM_OF_IP_PROTO NXM_OF_IP_SRC NXM_OF_IP_TOS NXM_OF_TCP_DST
		NXM_OF_TCP_SRC NXM_OF_UDP_DST NXM_OF_UDP_SRC NXM_OF_VLAN_TCI OXM_OF_ACTSET_OUTPUT OXM_OF_IN_PHY_PORT
		OXM_OF_IPV6_EXTHDR OXM_OF_IP_ECN OXM_OF_MPLS_TC OXM_OF_PBB_ISID OXM_OF_PBB_UCA OXM_OF_VLAN_PCP`) {
		c04Undecodable[n] = true
	}
}

// hasUndecodableOxm reports whether the tree carries a match field outside the supported set.
func hasUndecodableOxm(n *wire.N) bool {
	m := map[string]bool{}
	kindsIn(n, m)
	for k := range m {
		if strings.HasPrefix(k, "oxm:") && c04Undecodable[strings.TrimPrefix(k, "oxm:")] {
			return true
		}
	}
	return false
}

// parsedRing remembers the last few parsed messages with the model each was parsed from: a
// message that no longer reads back as its own frame after *later* frames were parsed shares
// state with them (fields "read from a neighbouring" message).
type parsedRing struct {
	ring [8]struct {
		m    util.Message
		want *wire.N
	}
	n int
}

var c04Ring parsedRing

// c04Shared is the receive buffer shared by consecutive parses.
var c04Shared []byte

func (p *parsedRing) add(m util.Message, want *wire.N) {
	s := &p.ring[p.n%len(p.ring)]
	s.m, s.want = m, want
	p.n++
}

// stale returns the description of an earlier message that changed.
func (p *parsedRing) stale() (string, *wire.N) {
	for i := range p.ring {
		s := &p.ring[i]
		if s.m == nil {
			continue
		}
		got, err := safeExtract(s.m)
		d := ""
		if err != nil {
			d = err.Error()
		} else {
			d = wire.Diff(s.want, normaliseParsed(got))
		}
		if d != "" {
			w := s.want
			s.m = nil
			return d, w
		}
	}
	return "", nil
}

// c04One parses the reference encoding of n and compares. It returns the signature of the
// violation it reported ("" when the message was recovered intact).
func c04One(r *ev.Run, n *wire.N, what string) string {
	if hasUndecodableOxm(n) {
		r.Add("skipped_unsupported_match_field", 1)
		return ""
	}
	if n.K == "error" && n.U["Type"] == 0xffff {
		return "" // type 0xffff is the experimenter error, a different kind (generated separately)
	}
	frame, _ := wire.Encode(n)
	if len(frame) > 65535 {
		r.Add("skipped_over_65535", 1)
		return ""
	}
	r.Add("transitions", 2)
	root := rootSig(n)
	rep := c04Case{Model: shortModel(n), Tree: n, What: what}
	if len(frame) <= 4096 {
		rep.Hex = ev.Hex(frame)
	}
	bad := func(sig, msg string) string {
		r.Violation(sig, msg+" ["+what+"] for "+shortModel(n), rep)
		return sig
	}
	// frames are received the way the stream receives them: into one reused buffer (a message
	// that still refers to the buffer is overwritten by the next frame; C12 states this directly,
	// here it shows as "an earlier message no longer exposes what was on its wire")
	if cap(c04Shared) < len(frame) {
		c04Shared = make([]byte, 0, 70000)
	}
	in := append(c04Shared[:0], frame...)
	m, err, pn := safeParse(in)
	if pn != nil {
		r.Outcome("panic")
		return bad("parse-panic:"+root, fmt.Sprintf("Parse panicked on a conformant frame: %v", pn))
	}
	if err != nil {
		r.Outcome("rejected")
		cls := errClassTail(err.Error())
		min := minimiseTree(n, func(t *wire.N) bool {
			f, _ := wire.Encode(t)
			_, e, p := safeParse(f)
			return p == nil && e != nil && errClassTail(e.Error()) == cls
		})
		rep.Minimal = min
		if of10Root(root) {
			return bad("of10-record-layout:"+root, "Parse rejected a conformant frame: "+err.Error())
		}
		if lk := leafKinds(min); lk != "" {
			return bad("rejected:"+root+":"+lk, "Parse rejected a conformant frame: "+err.Error())
		}
		return bad("rejected:"+root+":"+cls, "Parse rejected a conformant frame: "+err.Error())
	}
	got, err := safeExtract(m)
	if err != nil {
		r.Outcome("unreadable")
		return bad("kind:"+root, "parsed value is not a message of the corresponding kind: "+err.Error())
	}
	want := expectedParsed(n)
	if d := wire.Diff(want, normaliseParsed(got)); d != "" {
		r.Outcome("field-mismatch")
		if of10Root(root) {
			return bad("of10-record-layout:"+root, "parsed message differs from what was on the wire: "+d)
		}
		min := minimiseTree(n, func(t *wire.N) bool { return c04Diff(t) != "" })
		rep.Minimal = min
		if dm := c04Diff(min); dm != "" {
			d = dm
		}
		return bad("field:"+root+"/"+locus(d), "parsed message differs from what was on the wire: "+d)
	}
	r.Outcome("recovered:" + n.K)
	if d, old := c04Ring.stale(); d != "" {
		rep.Earlier = old
		return bad("earlier-message-changed:"+old.K+"/"+locus(d), "a message parsed earlier ("+shortModel(old)+") no longer exposes what was on its wire after this frame was parsed: "+d)
	}
	c04Ring.add(m, want)
	return ""
}

// of10Root: table, port and queue statistics records are declared with their OpenFlow 1.0 layouts in
// the library (its source says so); every disagreement under these reply types is one finding.
func of10Root(root string) bool {
	return root == "multipart_reply[type=3]" || root == "multipart_reply[type=4]" || root == "multipart_reply[type=5]"
}

// c04Diff parses the reference encoding of t and returns the first field difference ("" when the
// message is recovered intact or is not parsed at all).
func c04Diff(t *wire.N) string {
	f, _ := wire.Encode(t)
	m, err, pn := safeParse(f)
	if pn != nil || err != nil {
		return ""
	}
	got, err := safeExtract(m)
	if err != nil {
		return ""
	}
	return wire.Diff(expectedParsed(t), normaliseParsed(got))
}

// expectedParsed is the model tree as the extractor reports it: absent optional parts normalised.
func expectedParsed(n *wire.N) *wire.N {
	c := n.Clone()
	normTree(c)
	return c
}

func normaliseParsed(n *wire.N) *wire.N {
	normTree(n)
	return n
}

// normTree drops empty byte strings / empty lists and zero scalars so that "absent" and "empty"
// compare equal on both sides (wire.Diff already treats absent as zero; this only removes keys).
func normTree(n *wire.N) {
	if n == nil {
		return
	}
	if n.K == "nx_note" {
		// the note is zero-padded on the wire to fill the action; a decoder cannot tell padding from
		// trailing zero bytes of the note, so notes compare modulo trailing zeros
		v := n.B["Note"]
		for len(v) > 0 && v[len(v)-1] == 0 {
			v = v[:len(v)-1]
		}
		n.B["Note"] = v
	}
	for k, v := range n.B {
		if len(v) == 0 {
			delete(n.B, k)
		}
	}
	for k, l := range n.L {
		if len(l) == 0 {
			delete(n.L, k)
			continue
		}
		for _, c := range l {
			normTree(c)
		}
	}
	for k, c := range n.S {
		if c == nil {
			delete(n.S, k)
			continue
		}
		normTree(c)
	}
}

func c04(r *ev.Run, replay string) {
	if replay != "" {
		var c c04Case
		if err := ev.LoadReplay(replay, &c); err != nil || c.Tree == nil {
			fmt.Println("HARNESS-ERROR: cannot load replay", err)
			harnessFailed = true
			return
		}
		if c.Earlier != nil {
			c04One(r, c.Earlier, "earlier message of the replayed pair")
		}
		c04One(r, c.Tree, c.What)
		r.Set("states", 1)
		return
	}
	kinds := map[string]bool{}
	var shapes int64
	corpus.Switch(r.Thorough(), r.Expired, func(name string, complete bool) {
		if complete {
			r.Completed(name)
		} else {
			r.Incomplete(name)
		}
	}, func(n *wire.N) {
		shapes++
		kindsIn(n, kinds)
		if shapes&(shapes-1) == 0 {
			r.Sample(corpus.Label(n))
		}
		c04One(r, n, "shape")
	})
	// one field off base at a time over its whole value alphabet, for a base message of every kind
	var fields int64
	// bases: the hand-picked one per kind plus, from the switch corpus itself, every frame that shows a
	// (kind, field) not seen before under its root kind - every field of every match-field, action,
	// instruction and record kind a switch can send is varied over its alphabet
	sel := baseSelector{max: 2048}
	corpus.Switch(false, func() bool { return false }, func(string, bool) {}, sel.offer)
	r.Set("variation_bases", len(c04Bases())+len(sel.bases))
	for _, base := range c04Bases() {
		if r.Expired() {
			r.Incomplete("V1 single-field value alphabets")
			break
		}
		corpus.Variations(base, func(t *wire.N) []wire.Mark { _, m := wire.Encode(t); return m }, r.Seed, func(t *wire.N, what string) {
			fields++
			c04One(r, t, what)
		})
	}
	nv, complete := sel.vary(r.Seed, r.Expired, func(t *wire.N, what string) { c04One(r, t, what) })
	fields += nv
	if np, ok := sel.varyPairs(r.Expired, func(t *wire.N, what string) { c04One(r, t, what) }); ok {
		fields += np
		r.Set("same_element_pair_variations", np)
		r.Completed("V1b every pair of scalar fields of one element set to {0, 1, largest, largest-2} x {0, 1, largest, largest-2}")
	} else {
		r.Incomplete("V1b same-element field pairs")
	}
	if complete && !r.Expired() {
		r.Completed(fmt.Sprintf("V1 every scalar / fixed-width byte field (match-field values and masks included) varied alone over its value alphabet: all fields of %d hand-picked base messages, and each (root kind, element kind, field) of the switch corpus in the first of %d frames that shows it", len(c04Bases()), len(sel.bases)))
	} else {
		r.Incomplete("V1 single-field value alphabets")
	}
	if r.Thorough() {
		var npair int64
		for _, base := range append(c04Bases(), sel.bases...) {
			if r.Expired() {
				r.Incomplete("V2 adjacent-field-pair variations")
				break
			}
			corpus.PairVariations(base, func(t *wire.N) []wire.Mark { _, m := wire.Encode(t); return m }, func(t *wire.N, what string) {
				npair++
				c04One(r, t, what)
			})
		}
		fields += npair
		r.Set("adjacent_pair_variations", npair)
		if !r.Expired() {
			r.Completed("V2 every pair of fields adjacent on the wire of every base message set to {0, all-ones, pattern} x {0, all-ones, pattern}")
		}
	}
	// history independence of the parser: whatever was parsed before, a frame parses to what it parses
	// to alone. Probes: one frame per root kind plus frames whose decoding consults tables (every
	// tunnel-metadata index at three widths, registers, conntrack label); after every frame of the
	// corpus and every single-field variation of the bases all probes are parsed again and compared
	// (re-encoding and size) with their standalone result.
	probes := c04Probes()
	var probeRuns int64
	probeBad := map[string]bool{}
	afterOp := func(t *wire.N, what string) {
		f, _ := wire.Encode(t)
		if len(f) > 65535 {
			return
		}
		// the probes are themselves parses and may undo what the frame left behind (a table that every
		// reply of some kind rewrites): the frame is parsed again and the probes observed in the opposite
		// order, so that every probe is at most one parse of another kind away from the frame at least once
		for pass := 0; pass < 2; pass++ {
			safeParse(append([]byte{}, f...))
			for k := range probes {
				i := k
				if pass == 1 {
					i = len(probes) - 1 - k
				}
				p := &probes[i]
				probeRuns++
				if got := p.observe(); got != p.alone && !probeBad[p.name] {
					probeBad[p.name] = true
					r.Violation("history-dependent-parse:"+p.name, fmt.Sprintf("after parsing %s [%s] the probe frame %s parses to %s; parsed alone it gives %s", shortModel(t), what, p.name, clip(got), clip(p.alone)),
						c04Case{Tree: p.tree, Earlier: t, What: "probe after an earlier parse"})
				}
			}
		}
	}
	corpus.Switch(false, r.Expired, func(string, bool) {}, func(t *wire.N) { afterOp(t, "shape") })
	selP := baseSelector{max: 2048}
	for _, b := range c04Bases() {
		selP.offer(b)
	}
	corpus.Switch(false, func() bool { return false }, func(string, bool) {}, selP.offer)
	_, okP := selP.vary(r.Seed, r.Expired, afterOp)
	r.Set("probe_parses_after_other_frames", probeRuns)
	if okP && !r.Expired() {
		r.Completed(fmt.Sprintf("H2 %d probe frames re-parsed after every frame of the switch corpus and after every single-field variation of its bases: same result as alone", len(probes)))
	} else {
		r.Incomplete("H2 probes after every frame")
	}
	// two-step histories: parse A, parse B, observe A again - all ordered pairs of the base messages
	var pairs int64
	bases := c04Bases()
	for _, a := range bases {
		for _, b := range bases {
			c04Ring = parsedRing{}
			if c04One(r, a, "first of a pair") == "" {
				c04One(r, b, "second of a pair")
			}
			pairs++
		}
	}
	r.Completed(fmt.Sprintf("H2 all %d ordered pairs of base messages: the first is read back again after the second was parsed", pairs))
	r.Set("history_pairs", pairs)
	r.Set("states", shapes+fields)
	r.Set("shape_states", shapes)
	r.Set("value_states", fields)
	r.Set("element_kinds_covered", len(kinds))
	r.Set("traces_validated_against_impl", shapes+fields)
	r.Set("evaluations", shapes+fields)
	r.Set("rule", "a state is a model tree of the switch-originated corpus; it is serialised by the reference encoder (engine/wire), parsed by openflow13.Parse, read back through exported fields and compared with the tree; outcome classes = recovered kind / rejected / field-mismatch")
	r.Assume("the reference encoder (DESIGN Appendix A) is the conforming switch")
	r.Assume("kinds the library has no type for (port-desc, group, meter, table-features multiparts, role, async, queue-config replies) are outside this property (C07 covers them)")
}

// c04Bases returns one base message per switch-originated kind for the value enumeration.
func c04Bases() []*wire.N {
	m2 := corpus.Match(corpus.OxmByName("OXM_OF_IN_PORT", false, 1), corpus.OxmByName("OXM_OF_ETH_DST", true, 2))
	var out []*wire.N
	e := wire.New("hello_elem_versionbitmap").Set("Type", 1).SetB("Bitmaps", corpus.Pat(4, 1))
	out = append(out, wire.New("hello").Set("Xid", 7).Add("Elements", e))
	out = append(out, corpus.ErrorMsg(1, 2, corpus.Payload(8)))
	out = append(out, wire.New("error_exp").Set("Xid", 5).Set("Code", 2301).Set("ExperimenterID", wire.ONFVendor).SetB("Data", corpus.Payload(8)))
	out = append(out, wire.New("echo_request").Set("Xid", 9), wire.New("echo_reply").Set("Xid", 9), wire.New("barrier_reply").Set("Xid", 9))
	out = append(out, wire.New("features_reply").Set("Xid", 1).SetB("DPID", corpus.Pat(8, 1)).Set("Buffers", corpus.PatU(4, 2)).Set("NumTables", corpus.PatU(1, 3)).
		Set("AuxilaryId", corpus.PatU(1, 4)).Set("Capabilities", corpus.PatU(4, 5)).Set("Actions", corpus.PatU(4, 6)))
	out = append(out, corpus.SetConfig("get_config_reply").Set("Xid", 3))
	out = append(out, wire.New("port_status").Set("Xid", 4).Set("Reason", 1).SetS("Desc", corpus.PortDesc(1)))
	out = append(out, corpus.FlowRemoved(m2.Clone()))
	out = append(out, corpus.PacketIn(1, m2.Clone(), corpus.EthFrame("arp")))
	out = append(out, corpus.MultipartReply(1, corpus.FlowStatsRec(1, m2.Clone(), corpus.Instr("instr_apply_actions", 1, corpus.Action("act_output", 1), corpus.Action("nx_reg_load", 2)), corpus.Instr("instr_write_metadata", 2)),
		corpus.FlowStatsRec(2, nil, corpus.Instr("instr_goto_table", 3))))
	for _, t := range []struct {
		typ  uint64
		kind string
	}{{0, "desc_stats"}, {2, "aggregate_stats"}, {3, "table_stats"}, {4, "port_stats"}, {5, "queue_stats"}} {
		out = append(out, corpus.MultipartReply(t.typ, corpus.StatsRec(t.kind, 1)))
		if t.typ >= 3 {
			out = append(out, corpus.MultipartReply(t.typ, corpus.StatsRec(t.kind, 1), corpus.StatsRec(t.kind, 2)))
		}
	}
	tr := wire.New("nx_tlv_table_reply").Set("MaxSpace", corpus.PatU(4, 1)).Set("MaxFields", corpus.PatU(2, 2)).Add("TlvMaps", corpus.TlvMap(1), corpus.TlvMap(2))
	out = append(out, corpus.Experimenter(wire.NXVendor, 26, tr).Set("Xid", 4))
	out = append(out, corpus.BundleCtrl(1, 3).Set("Xid", 6))
	return out
}

// errClass reduces an error text to its class: digits and byte dumps removed, bounded length.
func errClassTail(s string) string {
	var b []rune
	inBr := false
	for _, c := range s {
		switch {
		case c == '[':
			inBr = true
		case c == ']':
			inBr = false
		case inBr:
		case c >= '0' && c <= '9':
			if len(b) == 0 || b[len(b)-1] != 'N' {
				b = append(b, 'N')
			}
		case c == ' ' || c == '\t' || c == ':':
			if len(b) > 0 && b[len(b)-1] != '-' {
				b = append(b, '-')
			}
		default:
			b = append(b, c)
		}
	}
	if len(b) > 70 {
		b = b[len(b)-70:]
	}
	return string(b)
}

// minimiseTree removes list elements and optional single children while the predicate holds
// (delta debugging on the model tree), so that a signature can name the elements that matter.
func minimiseTree(n *wire.N, fails func(*wire.N) bool) *wire.N {
	cur := n.Clone()
	for changed := true; changed; {
		changed = false
		var nodes []*wire.N
		var walk func(x *wire.N)
		walk = func(x *wire.N) {
			if x == nil {
				return
			}
			nodes = append(nodes, x)
			for _, c := range x.S {
				walk(c)
			}
			for _, l := range x.L {
				for _, c := range l {
					walk(c)
				}
			}
		}
		walk(cur)
	outer:
		for _, x := range nodes {
			for k, l := range x.L {
				for i := range l {
					saved := l
					nl := append(append([]*wire.N{}, l[:i]...), l[i+1:]...)
					x.L[k] = nl
					if fails(cur) {
						changed = true
						break outer
					}
					x.L[k] = saved
				}
			}
			for k, b := range x.B {
				if len(b) > 0 && (k == "Data" || k == "Note") {
					x.B[k] = nil
					if fails(cur) {
						changed = true
						break outer
					}
					x.B[k] = b
				}
			}
		}
	}
	return cur
}

// leafKinds lists the element kinds (match fields by name) below the root of a tree.
func leafKinds(n *wire.N) string {
	m := map[string]bool{}
	kindsIn(n, m)
	for _, k := range []string{n.K, "oxm", "match", "flow_stats", "instr_apply_actions", "instr_write_actions", "port"} {
		delete(m, k)
	}
	ks := sorted2(m)
	if len(ks) > 6 {
		ks = ks[:6]
	}
	return strings.Join(ks, "+")
}

func sorted2(m map[string]bool) []string {
	var ks []string
	for k := range m {
		ks = append(ks, k)
	}
	sort.Strings(ks)
	return ks
}

// c04Probe is a frame with its standalone observation.
type c04Probe struct {
	name  string
	tree  *wire.N
	frame []byte
	alone string
}

func (p *c04Probe) observe() string {
	m, err, pn := safeParse(append([]byte{}, p.frame...))
	if pn != nil {
		return fmt.Sprintf("panic: %v", pn)
	}
	if err != nil || m == nil {
		return fmt.Sprintf("error: %v", err)
	}
	b, err, pn := safeEncode(m)
	if pn != nil || err != nil {
		return fmt.Sprintf("parsed, but re-encoding fails: %v %v", err, pn)
	}
	l, _ := safeLen(m)
	return fmt.Sprintf("len=%d %x", l, b)
}

func c04Probes() []c04Probe {
	var out []c04Probe
	add := func(name string, t *wire.N) {
		f, _ := wire.Encode(t)
		p := c04Probe{name: name, tree: t, frame: f}
		p.alone = p.observe()
		out = append(out, p)
	}
	// frames whose match fields are decoded through the registry / width tables
	for _, in := range corpus.OxmInfos() {
		if in.Width != 0 {
			continue
		}
		for _, l := range []int{4, 8, 124} {
			add(fmt.Sprintf("flow_removed with %s of %d bytes", in.Name, l), corpus.FlowRemoved(corpus.Match(corpus.Oxm(in, false, l, l), corpus.OxmByName("OXM_OF_IN_PORT", false, 1))))
		}
		add(fmt.Sprintf("flow_removed with masked %s of 8 bytes", in.Name), corpus.FlowRemoved(corpus.Match(corpus.Oxm(in, true, 8, 8))))
	}
	add("flow_removed with reg and ct_label", corpus.FlowRemoved(corpus.Match(corpus.OxmByName("NXM_NX_REG3", true, 2), corpus.OxmByName("NXM_NX_CT_LABEL", true, 3))))
	for _, b := range c04Bases() {
		add(rootSig(b), b)
	}
	return out
}
