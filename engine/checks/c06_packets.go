//go:build verif

package checks

import (
	"verif/ev"
)

// c06Packets covers the packet-header kinds (filled in with the packet model, see c09.go).
func c06Packets(r *ev.Run, ret *retained) int64 { return packetSizes(r, ret) }
