//go:build verif

package checks

import (
	"bytes"
	"fmt"
	"strings"

	of "github.com/contiv/libOpenflow/openflow13"
	"github.com/contiv/libOpenflow/util"

	"verif/dump"
	"verif/ev"
)

// C12: a message returned by Parse shares no memory with the byte slice it was parsed from.
// Histories explored for every frame Parse accepts - the reference encodings of both corpora and
// every accepted input within one deviation of them (truncations, length/count/type fields at
// boundary values; thorough: every byte x every value): parse; observe; overwrite the buffer
// (zeros, ones, complement, every single byte for short seeds); observe; parse another frame into
// the same buffer; observe. Oracle: deep dump (all fields) and re-encoding are unchanged, and the
// overlap walker finds no slice or string of the message inside the input buffer.
func init() {
	Registry["C12"] = c12
	Workers["C12"] = c12Worker
}

type c12Case struct {
	Seed string `json:"seed"`
	Dev  string `json:"deviation"`
	Hex  string `json:"input_hex"`
	Step string `json:"history_step"`
}

// observe encodes first (encoders write derived lengths back into the value) and dumps afterwards.
func observe(m util.Message) (string, []byte) {
	b, err, pn := safeEncode(m)
	d := dump.Dump(m, dump.Options{})
	if pn != nil {
		return d, []byte(fmt.Sprintf("panic:%v", pn))
	}
	if err != nil {
		return d, []byte("error:" + err.Error())
	}
	return d, append([]byte{}, b...)
}

var c12Other = []byte{4, 2, 0, 16, 0xde, 0xad, 0xbe, 0xef, 0xa5, 0x5a, 0xa5, 0x5a, 0xa5, 0x5a, 0xa5, 0x5a} // an echo request with payload

// c12History runs the histories on one accepted input. singleBytes enables the per-byte overwrites.
func c12History(r *ev.Run, seed, dev string, in []byte, singleBytes bool) (parsed bool) {
	buf := append(make([]byte, 0, len(in)), in...)
	m, err, pn := safeParse(buf)
	if pn != nil || err != nil || m == nil {
		return false
	}
	rep := func(step string) c12Case {
		c := c12Case{Seed: seed, Dev: dev, Step: step}
		if len(in) <= 8192 {
			c.Hex = ev.Hex(in)
		}
		return c
	}
	r.Add("transitions", 1)
	if ov := dump.Overlaps(m, buf); len(ov) > 0 {
		r.Outcome("aliases")
		r.Violation("aliases-input:"+locus(strings.SplitN(ov[0], " (", 2)[0]), fmt.Sprintf("the parsed message keeps memory of the input buffer: %s [%s, %s]", ov[0], seed, dev), rep("overlap walk after parse"))
		return true
	}
	observe(m) // settles the encoders' write-backs (C13's subject), so that observations are comparable
	d0, e0 := observe(m)
	check := func(step string) bool {
		r.Add("transitions", 1)
		d1, e1 := observe(m)
		if d1 != d0 {
			r.Outcome("changed")
			r.Violation("changed-by-overwrite:fields", fmt.Sprintf("a field of the parsed message changed after %s: %s [%s, %s]", step, firstDiff(d0, d1), seed, dev), rep(step))
			return false
		}
		if !bytes.Equal(e0, e1) {
			r.Outcome("changed")
			r.Violation("changed-by-overwrite:encoding", fmt.Sprintf("the re-encoding of the parsed message changed after %s [%s, %s]", step, seed, dev), rep(step))
			return false
		}
		return true
	}
	for i := range buf {
		buf[i] = 0
	}
	if !check("overwriting the buffer with zeros") {
		return true
	}
	for i := range buf {
		buf[i] = 0xff
	}
	if !check("overwriting the buffer with 0xff") {
		return true
	}
	for i := range buf {
		buf[i] = ^in[i]
	}
	if !check("overwriting the buffer with its complement") {
		return true
	}
	if singleBytes {
		copy(buf, in)
		for i := range buf {
			buf[i] = ^buf[i]
			if !check(fmt.Sprintf("complementing byte %d of the buffer", i)) {
				return true
			}
			buf[i] = in[i]
		}
	}
	// the stream's reuse pattern: the next frame is received into the same buffer
	if len(buf) >= len(c12Other) {
		copy(buf, in)
		copy(buf, c12Other)
		m2, _, _ := safeParse(buf[:len(c12Other)])
		_ = m2
		if !check("parsing another frame into the same buffer") {
			return true
		}
	}
	r.Outcome("independent")
	return true
}

func c12Worker(w *Worker) {
	seeds := c07Seeds(w.Thorough())
	var idx, accepted, rejected int64
	for si, s := range seeds {
		if w.Expired() {
			w.Incomplete(fmt.Sprintf("seeds %d..%d not explored (deadline)", si, len(seeds)-1))
			break
		}
		if w.Index == 0 && (si&(si-1)) == 0 {
			w.Sample(map[string]any{"seed": s.Name, "seed_len": len(s.B)})
		}
		// the seed itself, with the per-byte overwrites
		idx++
		if w.Mine(idx) {
			w.Mark("C12|"+s.Name+"|seed", s.B)
			if c12History(w.Run, s.Name, "seed", s.B, len(s.B) <= 512) {
				accepted++
			} else {
				rejected++
			}
		}
		// every accepted input within the deviation bound (quick: truncations, structural fields,
		// trailing bytes; thorough: every byte as well)
		q := &devSeed{Name: s.Name, B: s.B, Marks: s.Marks}
		devEnumerate(q, false, true, func(dev string, in []byte) {
			if dev == "seed" {
				return
			}
			if !w.Thorough() && len(dev) > 5 && dev[:5] == "byte@" {
				return
			}
			idx++
			if !w.Mine(idx) {
				return
			}
			w.Mark("C12|"+s.Name+"|"+dev, in)
			if c12History(w.Run, s.Name, dev, in, false) {
				accepted++
			} else {
				rejected++
			}
		})
	}
	w.Add("accepted_inputs", accepted)
	w.Add("rejected_inputs", rejected)
	if w.Index == 0 {
		w.Set("seeds", len(seeds))
	}
}

func c12(r *ev.Run, replay string) {
	if replay != "" {
		var c c12Case
		if err := ev.LoadReplay(replay, &c); err != nil {
			fmt.Println("HARNESS-ERROR: cannot load replay", err)
			harnessFailed = true
			return
		}
		in := ev.UnHex(c.Hex)
		c12History(r, c.Seed, c.Dev, in, len(in) <= 512)
		r.Set("states", 1)
		return
	}
	RunSharded(r, NumWorkers(), false)
	acc := r.Counter("accepted_inputs")
	r.Set("states", acc)
	r.Set("traces_validated_against_impl", acc)
	r.Set("evaluations", r.Counter("transitions"))
	lv := "every reference-encoded frame of both corpora (with every single byte of the buffer complemented in turn for frames <= 512 bytes) and every accepted input one deviation away (truncations, length/count/type fields x boundary alphabet, trailing bytes): parse; observe; overwrite x {zeros, ones, complement}; observe; parse another frame into the same buffer; observe"
	if r.Thorough() {
		lv += "; plus every accepted single-byte corruption"
	}
	r.Completed(lv)
	r.Set("rule", "a state is (frame accepted by Parse, overwrite history); observations = deep dump of all fields (exported or not), re-encoding, and the set of slices/strings of the message whose backing store intersects the input buffer (must be empty)")
	r.Assume("frames Parse rejects are outside the property (it is about returned messages)")
	var _ = of.Parse
}
