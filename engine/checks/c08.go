//go:build verif

package checks

import (
	"fmt"
	"sort"

	"github.com/contiv/libOpenflow/protocol"
	"github.com/contiv/libOpenflow/util"

	"verif/bind"
	"verif/corpus"
	"verif/ev"
	"verif/pkt"
	"verif/wire"
)

// C08: packet-header decoders are total. Deviation explorer (deviate.go) with one entry point per
// decoder, seeds from the reference packet encoder (engine/pkt), plus the Ethernet decoder and
// Parse of a packet-in as the routes by which packet bytes reach the controller.
func init() {
	Registry["C08"] = c08
	Workers["C08"] = c08Worker
	corpus.PktEncoder = func(n *wire.N) []byte { b, _ := pkt.Encode(n); return b }
}

type rwDec interface {
	Write([]byte) (int, error)
}

func pktTarget(kind string) *devTarget {
	return &devTarget{Name: "decode:" + kind, Run: func(b []byte) (bool, bool) {
		f := bind.FreshPkt(kind)
		switch x := f.(type) {
		case util.Message:
			return true, x.UnmarshalBinary(b) != nil
		case rwDec:
			_, err := x.Write(b)
			return true, err != nil
		}
		panic("no decoder for kind " + kind)
	}}
}

var c08Kinds = []string{"eth", "vlan", "arp", "ipv4", "ipv6", "option", "hbh", "routing", "fragment", "icmp", "tcp", "udp", "igmp12", "igmp3q", "grouprec", "igmp3r", "dhcp", "lldp"}

func c08Targets() []*devTarget {
	var ts []*devTarget
	for _, k := range c08Kinds {
		ts = append(ts, pktTarget(k))
	}
	ts = append(ts,
		&devTarget{Name: "DHCPParseOptions", Run: func(b []byte) (bool, bool) {
			_, err := protocol.DHCPParseOptions(b)
			return true, err != nil
		}},
		&devTarget{Name: "lldp:ChassisTLV", Run: func(b []byte) (bool, bool) { _, err := new(protocol.ChassisTLV).Write(b); return true, err != nil }},
		&devTarget{Name: "lldp:PortTLV", Run: func(b []byte) (bool, bool) { _, err := new(protocol.PortTLV).Write(b); return true, err != nil }},
		&devTarget{Name: "lldp:TTLTLV", Run: func(b []byte) (bool, bool) { _, err := new(protocol.TTLTLV).Write(b); return true, err != nil }},
		&devTarget{Name: "Parse(packet-in)", Run: parseTarget.Run},
	)
	return ts
}

// c08Seeds: reference encodings of the packet corpus, grouped by the decoder they are meant for.
func c08Seeds(thorough bool) map[string][]*devSeed {
	out := map[string][]*devSeed{}
	seen := map[string]bool{}
	add := func(target string, name string, b []byte, marks []wire.Mark) {
		k := target + "|" + string(b)
		if seen[k] {
			return
		}
		seen[k] = true
		out[target] = append(out[target], &devSeed{Name: name, B: b, Marks: marks})
	}
	corpus.Packets(thorough, func(n *wire.N) {
		b, marks := pkt.Encode(n)
		if len(b) > 700 && !thorough {
			return
		}
		name := shortModel(n)
		add("decode:"+n.K, name, b, marks)
		switch n.K {
		case "dhcp":
			var om []wire.Mark
			for _, m := range marks {
				if m.Off >= 240 {
					m.Off -= 240
					om = append(om, m)
				}
			}
			add("DHCPParseOptions", name, b[240:], om)
		case "lldp":
			// the three TLVs, each 2 bytes of type/length and as many bytes as the 9-bit length says
			tlv := func(off int) int { return off + 2 + (int(b[off]&1)<<8 | int(b[off+1])) }
			c := tlv(0)
			p := tlv(c)
			add("lldp:ChassisTLV", name, b[:c], nil)
			add("lldp:PortTLV", name, b[c:p], nil)
			add("lldp:TTLTLV", name, b[p:], nil)
		case "eth":
			// the same frame inside a packet-in, as it reaches the controller
			pin := corpus.PacketIn(1, corpus.Match(corpus.OxmByName("OXM_OF_IN_PORT", false, 1)), b)
			fb, fm := wire.Encode(pin)
			// keep only deviations inside the payload: structural marks of the packet, shifted
			off := len(fb) - len(b)
			var pm []wire.Mark
			for _, m := range marks {
				m.Off += off
				pm = append(pm, m)
			}
			_ = fm
			add("Parse(packet-in)", "packet-in carrying "+name, fb, pm)
		}
	})
	// long chains: an endpoint may repeat extension headers, options, records and TLVs as often as the
	// frame has room for; the decoders follow them one by one, so the number of steps is a dimension of
	// its own (a bound on it, a table indexed by it, a slot reused by it show only beyond some count)
	depths := []int{4, 7, 8, 9, 16, 33}
	if thorough {
		depths = nil
		for k := 4; k <= 20; k++ {
			depths = append(depths, k)
		}
		depths = append(depths, 24, 31, 32, 33, 40, 63, 64, 65, 100, 180)
	}
	for _, k := range depths {
		mk := map[string]func(i int) *wire.N{
			"hop-by-hop": func(int) *wire.N { return corpus.Hbh(0, corpus.Option(1, 4)) },
			"routing":    func(int) *wire.N { return corpus.Routing(0, 0) },
			"fragment":   func(i int) *wire.N { return corpus.Fragment(0, uint64(i), 1) },
		}
		mk["mixed"] = func(i int) *wire.N { return mk[[]string{"hop-by-hop", "routing", "fragment"}[i%3]](i) }
		for _, kind := range []string{"hop-by-hop", "routing", "fragment", "mixed"} {
			var chain []*wire.N
			for i := 0; i < k; i++ {
				chain = append(chain, mk[kind](i))
			}
			for _, fin := range []struct {
				nh uint64
				n  *wire.N
			}{{58, corpus.Icmp(128, 4)}, {59, nil}} {
				var pl *wire.N
				if fin.n != nil {
					pl = fin.n.Clone()
				}
				ip := corpus.IPv6(chain, fin.nh, pl)
				b, marks := pkt.Encode(ip)
				name := fmt.Sprintf("ipv6 with a chain of %d %s extension headers ending in next-header %d", k, kind, fin.nh)
				add("decode:ipv6", name, b, marks)
				if fin.nh == 58 {
					eb, em := pkt.Encode(corpus.Eth(nil, 0x86dd, ip.Clone()))
					add("decode:eth", "eth carrying "+name, eb, em)
					fb, _ := wire.Encode(corpus.PacketIn(1, corpus.Match(corpus.OxmByName("OXM_OF_IN_PORT", false, 1)), eb))
					off := len(fb) - len(eb)
					var pm []wire.Mark
					for _, m := range em {
						m.Off += off
						pm = append(pm, m)
					}
					add("Parse(packet-in)", "packet-in carrying "+name, fb, pm)
				}
			}
		}
		// k hop-by-hop options in one header, k DHCP options, k IGMPv3 group records
		var opts []*wire.N
		for i := 0; i < k; i++ {
			opts = append(opts, corpus.Option(uint64(5+i%3), 2))
		}
		if k%2 == 1 { // 2 + 4k is 6 mod 8: two more bytes fill the header; otherwise six more
			opts = append(opts, corpus.Option(1, 0))
		} else {
			opts = append(opts, corpus.Option(1, 4))
		}
		if 2+4*len(opts) <= 2048 {
			b, marks := pkt.Encode(corpus.Hbh(59, opts...))
			add("decode:hbh", fmt.Sprintf("hop-by-hop header with %d options", len(opts)), b, marks)
		}
		var recs []*wire.N
		for i := 0; i < k; i++ {
			recs = append(recs, corpus.GroupRec(uint64(1+i%6), i%3))
		}
		{
			b, marks := pkt.Encode(corpus.Igmp3Report(recs...))
			add("decode:igmp3r", fmt.Sprintf("igmpv3 report with %d group records", k), b, marks)
			b, marks = pkt.Encode(corpus.Igmp3Query(k, 1, 2))
			add("decode:igmp3q", fmt.Sprintf("igmpv3 query with %d sources", k), b, marks)
			b, marks = pkt.Encode(corpus.GroupRec(2, k))
			add("decode:grouprec", fmt.Sprintf("group record with %d sources", k), b, marks)
		}
		var dopts []*wire.N
		for i := 0; i < k; i++ {
			dopts = append(dopts, corpus.DhcpOpt(uint64(1+i%60), 1+i%3))
		}
		dopts = append(dopts, corpus.DhcpOpt(255, 0))
		{
			b, marks := pkt.Encode(corpus.Dhcp(dopts...))
			add("decode:dhcp", fmt.Sprintf("dhcp with %d options", k), b, marks)
			var om []wire.Mark
			for _, m := range marks {
				if m.Off >= 240 {
					m.Off -= 240
					om = append(om, m)
				}
			}
			add("DHCPParseOptions", fmt.Sprintf("%d dhcp options", k), b[240:], om)
		}
	}
	if thorough {
		// jumbo payloads for the proportionality clauses
		for _, n := range []*wire.N{corpus.Eth(nil, 0x0800, corpus.IPv4(17, 0, corpus.Udp(8972))), corpus.Eth(corpus.Vlan(1, 0, 5), 0x86dd, corpus.IPv6(nil, 58, corpus.Icmp(128, 8952))), corpus.Icmp(8, 8996), corpus.Tcp(8980)} {
			b, marks := pkt.Encode(n)
			add("decode:"+n.K, "jumbo "+n.K, b, marks)
		}
	}
	for _, l := range out {
		sort.SliceStable(l, func(i, j int) bool { return len(l[i].B) < len(l[j].B) })
	}
	return out
}

func c08Worker(w *Worker) {
	seeds := c08Seeds(w.Thorough())
	devRun(w, c08Targets(), func(t *devTarget) []*devSeed { return seeds[t.Name] }, false, func(t *devTarget, yield func(seed, dev string, in []byte)) {
		// seed-independent: every input of length 0..2 for every decoder
		yield("short", "empty", []byte{})
		for a := 0; a < 256; a++ {
			yield("short", fmt.Sprintf("%02x", a), []byte{byte(a)})
			for b := 0; b < 256; b += 1 {
				yield("short", fmt.Sprintf("%02x%02x", a, b), []byte{byte(a), byte(b)})
			}
		}
	})
	if w.Index == 0 {
		n, tot := 0, 0
		per := map[string]int{}
		for k, l := range seeds {
			n += len(l)
			per[k] = len(l)
			for _, s := range l {
				tot += len(s.B)
			}
		}
		w.Set("seeds", n)
		w.Set("seeds_per_target", per)
		w.Set("seed_bytes_total", tot)
	}
}

func c08(r *ev.Run, replay string) {
	r.Level = "fault_enumeration"
	if replay != "" {
		devReplay(r, c08Targets(), replay)
		return
	}
	RunSharded(r, NumWorkers(), true)
	n := r.Counter("transitions")
	r.Set("states", n)
	r.Set("faults_injected", n)
	r.Set("traces_validated_against_impl", n)
	r.Set("evaluations", n)
	lv := "bound 1 for each of 23 entry points: every truncation, every byte x every value (seeds <= 256 bytes; boundary values above), every length/count/type field x boundary alphabet (incl. wrap-around values 254, 255, 0x3fff, 0x4000, 0x7fff, 0x8000, 0xffff), trailing bytes; all inputs of length 0..2"
	if r.Thorough() {
		lv += "; bound 2: all pairs of length-like fields and (length-like field x truncation); jumbo seeds"
	}
	r.Completed(lv)
	r.Set("rule", "an execution is one call of one packet decoder on one byte string of the deviation set, under a step budget of 64*len+4096 instrumented steps and an allocation budget of 64*len+256 KiB; outcome classes = value / error per decoder; a panic, a budget overrun or the death of the process is a violation")
	r.Assume("seeds come from the reference packet encoder (engine/pkt), so the explored set does not depend on the library's encoders")
}
