//go:build verif

package checks

import (
	"strings"
	"bytes"
	"fmt"
	"net"

	of "github.com/contiv/libOpenflow/openflow13"
	"github.com/contiv/libOpenflow/protocol"
	"github.com/contiv/libOpenflow/util"

	"verif/bind"
	"verif/ev"
)

// Values that the model corpora do not reach because they exist only through a dedicated
// constructor or through exported fields of a type without constructor: the DHCP message and option
// constructors, the IGMP constructors, headers whose optional members are left nil, an action-list
// instruction carrying the clear-actions code, a features reply with port descriptions. Each entry
// builds a fresh value; kids (optional) returns the standalone encodings that must sit, in order,
// at the end of the value's encoding; decode (optional) decodes into the receiver a user would use.

type directValue struct {
	name string
	kind string
	mk   func() any
	kids func(v any) [][]byte
	// fresh receiver for the round trip (nil: none)
	recv func() any
	// refused: the encoder cannot represent the value and says so on the unchanged tree; an error is
	// then a fine answer, and if an encoding is produced after all it must still have the reported size
	refused bool
}

func mustDHCP(d *protocol.DHCP, err error) *protocol.DHCP {
	if err != nil {
		panic(err)
	}
	return d
}

func directValues() []directValue {
	mac := net.HardwareAddr{0x02, 0x11, 0x22, 0x33, 0x44, 0x55}
	var out []directValue
	add := func(name, kind string, mk func() any) *directValue {
		out = append(out, directValue{name: name, kind: kind, mk: mk})
		return &out[len(out)-1]
	}
	// DHCP: the five message constructors, bare and with options made by every option constructor
	dhcpCtors := map[string]func(uint32, net.HardwareAddr) (*protocol.DHCP, error){
		"NewDHCPDiscover": protocol.NewDHCPDiscover, "NewDHCPOffer": protocol.NewDHCPOffer, "NewDHCPRequest": protocol.NewDHCPRequest,
		"NewDHCPAck": protocol.NewDHCPAck, "NewDHCPNak": protocol.NewDHCPNak,
	}
	for _, cn := range []string{"NewDHCPDiscover", "NewDHCPOffer", "NewDHCPRequest", "NewDHCPAck", "NewDHCPNak"} {
		c := dhcpCtors[cn]
		for _, hw := range []net.HardwareAddr{mac, {1, 2, 3, 4, 5, 6, 7, 8}, make(net.HardwareAddr, 16)} {
			hw := hw
			add(fmt.Sprintf("%s(xid, %d-byte hardware address)", cn, len(hw)), "dhcp", func() any { return mustDHCP(c(0x01020304, hw)) }).recv = func() any { return new(protocol.DHCP) }
			add(fmt.Sprintf("%s(xid, %d-byte hardware address) + IP, IP-list, string, raw, pad and end options", cn, len(hw)), "dhcp", func() any {
				d := mustDHCP(c(0x01020304, hw))
				o1, _ := protocol.DHCPIP4Option(protocol.DHCP_OPT_SUBNET_MASK, net.IPv4(255, 255, 255, 0))
				o2, _ := protocol.DHCPIP4sOption(protocol.DHCP_OPT_DEFAULT_GATEWAY, []net.IP{net.IPv4(10, 0, 0, 1), {10, 0, 0, 2}})
				o3, _ := protocol.DHCPStringOption(protocol.DHCP_OPT_HOST_NAME, "host-17")
				o4 := protocol.DHCPNewOption(protocol.DHCP_OPT_CLIENT_ID, []byte{1, 2, 3, 4, 5, 6, 7})
				d.Options = append(d.Options, o1, o2, o3, protocol.DHCPNewOption(protocol.DHCP_OPT_PAD, nil), o4, protocol.DHCPNewOption(protocol.DHCP_OPT_END, nil))
				return d
			}).recv = func() any { return new(protocol.DHCP) }
		}
	}
	add("NewDHCP(0, reply) (transaction id drawn by the constructor) with a 253-byte option", "dhcp", func() any {
		d := mustDHCP(protocol.NewDHCP(0, protocol.DHCP_MSG_ACK, protocol.DHCP_HW_ETHERNET))
		d.Options = append(d.Options, protocol.DHCPNewOption(protocol.DHCP_OPT_CLASS_ID, bytes.Repeat([]byte{7}, 253)))
		return d
	}).recv = func() any { return new(protocol.DHCP) }
	// an explicit end option that is not the last element of the list (the BOOTP habit of filling up
	// with pad options behind it; options appended to a message that already had its end)
	for _, lay := range []string{"end,pad,pad", "opt,end,pad", "opt,end,opt", "end,opt", "pad,end,end", "end"} {
		lay := lay
		add("NewDHCP with the options "+lay, "dhcp", func() any {
			d := mustDHCP(protocol.NewDHCP(7, protocol.DHCP_MSG_ACK, protocol.DHCP_HW_ETHERNET))
			for i, k := range strings.Split(lay, ",") {
				switch k {
				case "end":
					d.Options = append(d.Options, protocol.DHCPNewOption(protocol.DHCP_OPT_END, nil))
				case "pad":
					d.Options = append(d.Options, protocol.DHCPNewOption(protocol.DHCP_OPT_PAD, nil))
				default:
					d.Options = append(d.Options, protocol.DHCPNewOption(protocol.DHCP_OPT_CLIENT_ID, []byte{1, 2, 3, byte(i)}))
				}
			}
			return d
		})
	}
	// options longer than the one-byte option length can say: the encoder has to refuse the message, or
	// else produce every byte it counted
	for _, ol := range []int{254, 255, 256, 300, 600} {
		for _, pos := range []string{"alone", "first", "middle", "last"} {
			ol, pos := ol, pos
			add(fmt.Sprintf("NewDHCP with a %d-byte option (%s)", ol, pos), "dhcp", func() any {
				d := mustDHCP(protocol.NewDHCP(7, protocol.DHCP_MSG_ACK, protocol.DHCP_HW_ETHERNET))
				big := protocol.DHCPNewOption(protocol.DHCP_OPT_CLASS_ID, bytes.Repeat([]byte{9}, ol))
				o1, _ := protocol.DHCPStringOption(protocol.DHCP_OPT_HOST_NAME, "host-17")
				o2 := protocol.DHCPNewOption(protocol.DHCP_OPT_CLIENT_ID, []byte{1, 2, 3, 4, 5, 6, 7})
				switch pos {
				case "alone":
					d.Options = append(d.Options, big)
				case "first":
					d.Options = append(d.Options, big, o1, o2)
				case "middle":
					d.Options = append(d.Options, o1, big, o2)
				case "last":
					d.Options = append(d.Options, o1, o2, big)
				}
				return d
			}).refused = true
		}
	}
	// IGMP constructors
	grp := net.IPv4(224, 0, 0, 251)
	for _, g := range []struct {
		n string
		f func() any
	}{
		{"NewIGMPv1Query", func() any { return protocol.NewIGMPv1Query(grp) }},
		{"NewIGMPv1Report", func() any { return protocol.NewIGMPv1Report(grp) }},
		{"NewIGMPv2Query", func() any { return protocol.NewIGMPv2Query(grp, 100) }},
		{"NewIGMPv2Report", func() any { return protocol.NewIGMPv2Report(grp) }},
		{"NewIGMPv2Leave", func() any { return protocol.NewIGMPv2Leave(grp) }},
		{"NewIGMPv2Query(4-byte group)", func() any { return protocol.NewIGMPv2Query(net.IP{224, 0, 0, 1}, 10) }},
	} {
		add(g.n, "igmp12", g.f).recv = func() any { return new(protocol.IGMPv1or2) }
	}
	for nsrc := 0; nsrc <= 2; nsrc++ {
		var srcs []net.IP
		for i := 0; i < nsrc; i++ {
			srcs = append(srcs, net.IPv4(10, 0, byte(i), 1))
		}
		add(fmt.Sprintf("NewIGMPv3Query(%d sources)", nsrc), "igmp3q", func() any { return protocol.NewIGMPv3Query(grp, 100, 125, srcs) }).recv = func() any { return new(protocol.IGMPv3Query) }
		add(fmt.Sprintf("NewIGMPv3Report(NewGroupRecord(%d sources) x 2)", nsrc), "igmp3r", func() any {
			return protocol.NewIGMPv3Report([]protocol.IGMPv3GroupRecord{protocol.NewGroupRecord(1, grp, srcs), protocol.NewGroupRecord(4, net.IPv4(239, 1, 1, 1), srcs)})
		}).recv = func() any { return new(protocol.IGMPv3MembershipReport) }
	}
	// headers fresh from their constructor, nothing else set, and with only the payload set
	add("NewTCP()", "tcp", func() any { return protocol.NewTCP() }).recv = func() any { return protocol.NewTCP() }
	add("NewUDP()", "udp", func() any { return protocol.NewUDP() }).recv = func() any { return protocol.NewUDP() }
	add("NewICMP()", "icmp", func() any { return protocol.NewICMP() }).recv = func() any { return protocol.NewICMP() }
	add("NewIPv4() with addresses and a UDP payload, header length left at the constructor's value", "ipv4", func() any {
		ip := protocol.NewIPv4()
		ip.NWSrc, ip.NWDst, ip.Protocol = net.IPv4(10, 0, 0, 1), net.IPv4(10, 0, 0, 2), protocol.Type_UDP
		u := protocol.NewUDP()
		u.PortSrc, u.PortDst, u.Length = 68, 67, 8
		ip.Data = u
		ip.Length = ip.Len()
		return ip
	}).recv = func() any { return protocol.NewIPv4() }
	add("IPv4 literal with header length 0 (never set by the caller)", "ipv4", func() any {
		return &protocol.IPv4{Version: 4, TTL: 64, Protocol: 253, NWSrc: net.IPv4(1, 2, 3, 4), NWDst: net.IPv4(5, 6, 7, 8), Data: util.NewBuffer([]byte{1, 2, 3})}
	})
	add("NewEthernet() untouched", "eth", func() any { return protocol.NewEthernet() })
	add("NewARP(request)", "arp", func() any { a, _ := protocol.NewARP(protocol.Type_Request); return a }).recv = func() any { a, _ := protocol.NewARP(protocol.Type_Request); return a }
	// OpenFlow values outside the model corpora
	for nact := 0; nact <= 2; nact++ {
		nact := nact
		mkInstr := func() *of.InstrActions {
			in := of.NewInstrWriteActions()
			in.Type = of.InstrType_CLEAR_ACTIONS
			for i := 0; i < nact; i++ {
				in.AddAction(of.NewActionOutput(uint32(i+1)), false)
			}
			return in
		}
		d := add(fmt.Sprintf("action-list instruction with the clear-actions code holding %d actions", nact), "instr_clear_actions", func() any { return mkInstr() })
		d.kids = func(v any) [][]byte {
			var k [][]byte
			for _, a := range v.(*of.InstrActions).Actions {
				b, _ := a.MarshalBinary()
				k = append(k, b)
			}
			return k
		}
		f := add(fmt.Sprintf("flow-mod whose instruction list is goto-table + a clear-actions instruction holding %d actions", nact), "flow_mod", func() any {
			fm := of.NewFlowMod()
			fm.AddInstruction(of.NewInstrGotoTable(1))
			fm.AddInstruction(mkInstr())
			return fm
		})
		f.kids = func(v any) [][]byte {
			var k [][]byte
			for _, in := range v.(*of.FlowMod).Instructions {
				b, _ := in.MarshalBinary()
				k = append(k, b)
			}
			return k
		}
	}
	for nports := 0; nports <= 2; nports++ {
		nports := nports
		d := add(fmt.Sprintf("features reply carrying %d port descriptions", nports), "features_reply", func() any {
			s := of.NewFeaturesReply()
			for i := 0; i < nports; i++ {
				p := of.NewPhyPort()
				p.PortNo = uint32(i + 1)
				copy(p.Name, fmt.Sprintf("eth%d", i))
				s.Ports = append(s.Ports, *p)
			}
			return s
		})
		d.kids = func(v any) [][]byte {
			var k [][]byte
			for i := range v.(*of.SwitchFeatures).Ports {
				b, _ := v.(*of.SwitchFeatures).Ports[i].MarshalBinary()
				k = append(k, b)
			}
			return k
		}
	}
	return out
}

// directSizes (C06): reported size == bytes produced before and after encoding, children embedded.
func directSizes(r *ev.Run, ret *retained) int64 {
	var n int64
	for _, d := range directValues() {
		d := d
		rep := map[string]any{"direct_value": d.name}
		bad := func(sig, what string) { r.Violation(sig, what+" for "+d.name, rep) }
		var v any
		if pn := safePkt(func() { v = d.mk() }); pn != nil || v == nil {
			bad("build-panic:"+d.kind, fmt.Sprintf("the constructor panicked: %v", pn))
			continue
		}
		n++
		var b []byte
		if le, ok := v.(lenEnc); ok {
			b = sizeCheck(r, le, d.kind, ret, bad)
		} else {
			codec := bind.CodecOf(v, func() any { return nil })
			if codec.Encode == nil {
				continue
			}
			var l0, l1 int
			var err error
			if pn := safePkt(func() { l0 = codec.Len(); b, err = codec.Encode(); l1 = codec.Len() }); pn != nil {
				bad("panic:"+d.kind, fmt.Sprintf("sizing or encoding panicked: %v", pn))
				continue
			}
			if err != nil && d.refused {
				r.Add("refused_values", 1)
				continue
			}
			if err != nil {
				bad("encode-error:"+d.kind, "encoding failed: "+err.Error())
				continue
			}
			if l0 != len(b) || l1 != len(b) {
				bad("size:"+d.kind, fmt.Sprintf("reports %d bytes before and %d after encoding, its encoding has %d", l0, l1, len(b)))
			}
		}
		if b != nil && d.kids != nil {
			var kids [][]byte
			if pn := safePkt(func() { kids = d.kids(v) }); pn == nil && len(kids) > 0 {
				if dd := embedded(b, kids, 0); dd != "" {
					bad("embed:"+d.kind+".children", dd)
				}
			}
		}
	}
	r.Completed("values reachable only through dedicated constructors or exported fields: DHCP message/option constructors, IGMP constructors, bare headers, clear-actions instruction with actions, features reply with ports")
	return n
}

// directRoundTrips (C09): encode, decode into the receiver a user would use, re-encode: same bytes,
// same size; a second decode into the same receiver gives the same again.
func directRoundTrips(r *ev.Run) int64 {
	var n int64
	for _, d := range directValues() {
		d := d
		if d.recv == nil {
			continue
		}
		rep := map[string]any{"direct_value": d.name}
		bad := func(sig, what string) { r.Violation(sig, what+" for "+d.name, rep) }
		var v any
		if pn := safePkt(func() { v = d.mk() }); pn != nil || v == nil {
			continue
		}
		n++
		enc := bind.CodecOf(v, d.recv)
		var b, b2 []byte
		var err, derr, err2 error
		var back any
		pn := safePkt(func() {
			b, err = enc.Encode()
			b = append([]byte{}, b...)
			back, derr = enc.Decode(append([]byte{}, b...))
			if derr == nil {
				bc := bind.CodecOf(back, d.recv)
				b2, err2 = bc.Encode()
				if bc.Len() != len(b) {
					bad("direct-size-after-decode:"+d.kind, fmt.Sprintf("the decoded value reports %d bytes, %d were decoded", bc.Len(), len(b)))
				}
			}
		})
		switch {
		case pn != nil:
			bad("direct-panic:"+d.kind, fmt.Sprintf("panicked: %v", pn))
		case err != nil:
			bad("direct-encode-error:"+d.kind, "encoding failed: "+err.Error())
		case derr != nil:
			bad("direct-decode-error:"+d.kind, "the library cannot decode its own encoding: "+derr.Error())
		case err2 != nil || !bytes.Equal(b, b2):
			bad("direct-reencode:"+d.kind, fmt.Sprintf("re-encoding the decoded value gives %x..., the original encoding is %x... (err %v)", head(b2, 48), head(b, 48), err2))
		default:
			r.Outcome("direct-round-trip")
		}
		r.Add("transitions", 3)
	}
	r.Completed("constructor-built packet values (DHCP message/option constructors, IGMP constructors, bare headers): encode, decode, re-encode")
	return n
}
