//go:build verif

package checks

import (
	"bytes"
	"encoding/binary"
	"fmt"
	"strings"

	of "github.com/contiv/libOpenflow/openflow13"

	"verif/ev"
)

// C18: conntrack-state builder. Explicit-state breadth-first search from NewCTStates() over the
// 16 builder operations; states keyed by the complete printed form of the builder struct (every
// field, so a field added later is part of the key); successors by rebuilding the state on a fresh
// builder (replaying its shortest path) and calling the real method. Reference model: eight
// tri-state flags, last call wins. Builders that do not come from the constructor (zero values) and
// by-value copies of builders are covered from every reachable state as well.
func init() { Registry["C18"] = c18 }

type ctOp struct {
	name string
	bit  int
	set  bool
	f    func(*of.CTStates)
}

var ctOps = []ctOp{
	{"SetNew", 0, true, (*of.CTStates).SetNew}, {"UnsetNew", 0, false, (*of.CTStates).UnsetNew},
	{"SetEst", 1, true, (*of.CTStates).SetEst}, {"UnsetEst", 1, false, (*of.CTStates).UnsetEst},
	{"SetRel", 2, true, (*of.CTStates).SetRel}, {"UnsetRel", 2, false, (*of.CTStates).UnsetRel},
	{"SetRpl", 3, true, (*of.CTStates).SetRpl}, {"UnsetRpl", 3, false, (*of.CTStates).UnsetRpl},
	{"SetInv", 4, true, (*of.CTStates).SetInv}, {"UnsetInv", 4, false, (*of.CTStates).UnsetInv},
	{"SetTrk", 5, true, (*of.CTStates).SetTrk}, {"UnsetTrk", 5, false, (*of.CTStates).UnsetTrk},
	{"SetSNAT", 6, true, (*of.CTStates).SetSNAT}, {"UnsetSNAT", 6, false, (*of.CTStates).UnsetSNAT},
	{"SetDNAT", 7, true, (*of.CTStates).SetDNAT}, {"UnsetDNAT", 7, false, (*of.CTStates).UnsetDNAT},
}

// ctRef is the reference: per flag 0 = untouched, 1 = last call was Unset, 2 = last call was Set.
type ctRef [8]uint8

func (m ctRef) apply(o ctOp) ctRef {
	if o.set {
		m[o.bit] = 2
	} else {
		m[o.bit] = 1
	}
	return m
}

func (m ctRef) expect() (val, mask uint32) {
	for i, t := range m {
		if t != 0 {
			mask |= 1 << uint(i)
		}
		if t == 2 {
			val |= 1 << uint(i)
		}
	}
	return
}

func ctBuild(path []int) (*of.CTStates, ctRef) {
	s := of.NewCTStates()
	var m ctRef
	for _, i := range path {
		ctOps[i].f(s)
		m = m.apply(ctOps[i])
	}
	return s, m
}

func pathNames(path []int) []string {
	out := make([]string, len(path))
	for i, p := range path {
		out[i] = ctOps[p].name
	}
	return out
}

// ctOracle checks the encoded ct_state match against the reference and returns a description of
// the first discrepancy ("" if none) and a short clause name.
func ctOracle(s *of.CTStates, m ctRef) (clause, what string) {
	defer func() {
		if p := recover(); p != nil {
			clause, what = "panic", fmt.Sprintf("building or encoding the ct_state match panicked: %v", p)
		}
	}()
	f := of.NewCTStateMatchField(s)
	if f == nil {
		return "nil-field", "NewCTStateMatchField returned nil"
	}
	b, err := f.MarshalBinary()
	if err != nil {
		return "encode-error", "encoding the ct_state match failed: " + err.Error()
	}
	wantHdr := []byte{0x00, 0x01, 105<<1 | 1, 8}
	if len(b) != 12 || !bytes.Equal(b[:4], wantHdr) {
		return "header", fmt.Sprintf("ct_state match encodes to % x; want the masked NXM_NX_CT_STATE TLV 00 01 d3 08 + value(4) + mask(4)", b)
	}
	val, mask := m.expect()
	gv, gm := binary.BigEndian.Uint32(b[4:]), binary.BigEndian.Uint32(b[8:])
	if gm != mask {
		return "mask", fmt.Sprintf("mask %#08x, want %#08x (a flag is constrained exactly when it was touched)", gm, mask)
	}
	if gv != val {
		return "value", fmt.Sprintf("value %#08x, want %#08x (last call per flag wins; untouched flags are 0)", gv, val)
	}
	return "", ""
}

func c18(r *ev.Run, replay string) {
	if replay != "" {
		var c struct {
			Path []string `json:"ops"`
		}
		if err := ev.LoadReplay(replay, &c); err != nil {
			fmt.Println("cannot load replay:", err)
			return
		}
		var path []int
		for _, n := range c.Path {
			for i, o := range ctOps {
				if o.name == n {
					path = append(path, i)
				}
			}
		}
		s, m := ctBuild(path)
		if cl, what := ctOracle(s, m); cl != "" {
			r.Violation(cl+":"+strings.Join(c.Path, ","), what, c)
		}
		r.Set("states", 1)
		return
	}
	type node struct {
		path []int
		ref  ctRef
	}
	report := func(cl, what string, path []int) {
		// signature: clause + the last operation + which flags had been touched before (coarse
		// enough that one wrong setter is a handful of signatures, fine enough to tell setters apart)
		last := "init"
		if len(path) > 0 {
			last = ctOps[path[len(path)-1]].name
		}
		r.Violation(fmt.Sprintf("%s:after-%s", cl, last), what+" after "+strings.Join(pathNames(path), ","), map[string]any{"ops": pathNames(path)})
	}
	seen := map[string]*node{}
	s0 := of.NewCTStates()
	key := func(s *of.CTStates) string { return fmt.Sprintf("%+v", *s) }
	seen[key(s0)] = &node{}
	frontier := []*node{seen[key(s0)]}
	var transitions int64
	refs := map[ctRef]bool{{}: true}
	if cl, what := ctOracle(s0, ctRef{}); cl != "" {
		report(cl, what, nil)
	}
	for len(frontier) > 0 {
		var next []*node
		for _, nd := range frontier {
			for oi, o := range ctOps {
				base, _ := ctBuild(nd.path) // fresh real object: live builders are rebuilt by replay, not copied
				o.f(base)
				transitions++
				ref := nd.ref.apply(o)
				refs[ref] = true
				path := append(append([]int{}, nd.path...), oi)
				if cl, what := ctOracle(base, ref); cl != "" {
					report(cl, what, path)
				}
				k := key(base)
				if old, ok := seen[k]; ok {
					if old.ref != ref {
						report("merged-histories", fmt.Sprintf("two histories with different last-call-per-flag outcomes (%v vs %v) reach the same builder state %s", old.ref, ref, k), path)
					}
					continue
				}
				nn := &node{path: path, ref: ref}
				seen[k] = nn
				next = append(next, nn)
				if len(seen) > 50000 {
					report("closure-size", "more than 50000 reachable builder states; 3^8 = 6561 expected", path)
					next = nil
					frontier = nil
					goto done
				}
			}
		}
		frontier = next
	}
done:
	r.Set("states", len(seen))
	r.Set("reference_states_reached", len(refs))
	if len(seen) != 6561 || len(refs) != 6561 {
		r.Violation("closure-size", fmt.Sprintf("reachable builder states: %d, reference states: %d; both must be 3^8 = 6561", len(seen), len(refs)), map[string]any{"ops": []string{}})
	}
	r.Completed("breadth-first closure from NewCTStates() under the 16 operations")
	// Redundant with the closure when the key is complete; kept as the guard against an incomplete key:
	// every sequence of length <= 4 from the initial state, and every sequence of length <= 2 from every state.
	var seqs int64
	var rec func(path []int, depth int)
	rec = func(path []int, depth int) {
		s, m := ctBuild(path)
		seqs++
		transitions += int64(len(path))
		if cl, what := ctOracle(s, m); cl != "" {
			report(cl, what, path)
		}
		if depth == 0 {
			return
		}
		for oi := range ctOps {
			rec(append(append([]int{}, path...), oi), depth-1)
		}
	}
	rec(nil, 4)
	r.Completed("all 69,905 call sequences of length <= 4 from the initial state")
	i := 0
	for _, nd := range seen {
		rec(nd.path, 2)
		if i%1500 == 0 {
			r.Sample(map[string]any{"ops": pathNames(nd.path), "expect_value_mask": fmt.Sprint(nd.ref.expect())})
		}
		i++
	}
	r.Completed("all sequences of length <= 2 from every reachable state")
	// A match that has been built belongs to the calls made before it: from every reachable state,
	// build the match, keep it, apply each of the 16 operations to the same builder, and look at the
	// kept match again (it must not have moved) and at a second match built afterwards (building in
	// between must not have disturbed the builder).
	var kept int64
	for _, nd := range seen {
		for oi, o := range ctOps {
			s, m := ctBuild(nd.path)
			path := append(append([]int{}, nd.path...), oi)
			cl, what := func() (cl, what string) {
				defer func() {
					if p := recover(); p != nil {
						cl, what = "panic", fmt.Sprintf("panicked: %v", p)
					}
				}()
				f := of.NewCTStateMatchField(s)
				if f == nil {
					return "", ""
				}
				before, _ := f.MarshalBinary()
				before = append([]byte{}, before...)
				o.f(s)
				after, _ := f.MarshalBinary()
				if !bytes.Equal(before, after) {
					return "built-match-moved", fmt.Sprintf("a match built before the last call encoded to % x when it was built and to % x after the call", before, after)
				}
				return "", ""
			}()
			kept++
			transitions++
			if cl != "" {
				report(cl, what, path)
				continue
			}
			if cl, what := ctOracle(s, m.apply(o)); cl != "" {
				report("after-build:"+cl, what+" (a match had been built from the builder before the last call)", path)
			}
		}
	}
	// A builder need not come from the constructor: the type is exported and its zero value is what the
	// constructor returns. Every reachable state is rebuilt on a zero-value builder (var, new, literal).
	var zero int64
	for _, nd := range seen {
		for vi, mk := range []func() *of.CTStates{
			func() *of.CTStates { var s of.CTStates; return &s },
			func() *of.CTStates { return new(of.CTStates) },
			func() *of.CTStates { s := of.NewCTStates(); *s = of.CTStates{}; return s }, // a builder reset for reuse
		} {
			if vi > 0 && len(nd.path) > 2 {
				continue
			}
			s := mk()
			for _, i := range nd.path {
				ctOps[i].f(s)
			}
			zero++
			transitions += int64(len(nd.path))
			if cl, what := ctOracle(s, nd.ref); cl != "" {
				report("zero-value-builder:"+cl, what+" (builder declared as a zero value instead of coming from NewCTStates())", nd.path)
				break
			}
		}
	}
	r.Set("zero_value_builders", zero)
	r.Completed("every reachable state rebuilt on a zero-value builder")
	// A builder copied by value is a builder of its own: from every reachable state, copy it, apply each
	// operation to the copy (the original must still give its own match, the copy the extended one), and
	// the other way round.
	var forks int64
	for _, nd := range seen {
		for oi, o := range ctOps {
			path := append(append([]int{}, nd.path...), oi)
			for dir := 0; dir < 2; dir++ {
				base, m := ctBuild(nd.path)
				fork := *base
				moved, still := &fork, base
				if dir == 1 {
					moved, still = base, &fork
				}
				o.f(moved)
				forks++
				transitions++
				if cl, what := ctOracle(still, m); cl != "" {
					report("copy-shares-state:"+cl, what+fmt.Sprintf(" (the builder was copied by value after %d calls; the last call was made on the %s only and this is the match of the other one)", len(nd.path), []string{"copy", "original"}[dir]), path)
					break
				}
				if cl, what := ctOracle(moved, m.apply(o)); cl != "" {
					report("copy:"+cl, what+" (builder copied by value before the last call)", path)
					break
				}
			}
		}
	}
	r.Set("forked_builders", forks)
	r.Completed("every reachable state x 16 operations on a by-value copy of the builder, and on the original with the copy looked at")
	r.Set("built_matches_reinspected_after_a_further_call", kept)
	r.Completed("every reachable state x 16 operations with a match built and kept before the operation")
	r.Set("transitions", transitions)
	r.Set("traces_validated_against_impl", seqs+int64(len(seen)))
	r.Set("evaluations", seqs+transitions)
	r.Set("distinct_nontrivial", len(refs))
	r.Set("rule", "explicit-state BFS; a state is the printed builder struct; distinct = distinct reference outcomes (tri-state vectors) reached")
	r.OutcomeN("distinct-(value,mask)-outcomes", int64(len(refs)))
	r.Outcome("closure-complete")
	r.Set("exhaustive", true)
}
