//go:build verif

package checks

import (
	"bytes"
	"fmt"
	"math/big"
	"net"
	"sort"
	"strings"

	of "github.com/contiv/libOpenflow/openflow13"

	"verif/ev"
	"verif/wire"
)

// C17: the generic match-field builder NewMatchField places value and mask at the window or
// reports an error. Enumeration: every registered fixed-width field x calling convention x
// windows inside the field x values spanning the window x argument types, against a big-integer
// reference; out-of-range inputs must give an error (never a panic, never a different match); the
// caller's arguments must be left unmodified.
func init() { Registry["C17"] = c17 }

type c17Case struct {
	Name  string `json:"name"`
	Value string `json:"value"` // decimal
	Type  string `json:"arg_type"`
	Mask  []int  `json:"mask_args"`
	// window arguments of a type other than int, as two's complement values
	TypedMask []uint64 `json:"typed_mask_args,omitempty"`
}

var c17MaskTypes = []string{"int8", "int16", "int32", "int64", "uint8", "uint16", "uint32", "uint64", "uint", "uintptr"}

// c17MaskRange returns the smallest and largest value of the type as two's complement 64-bit words.
func c17MaskRange(t string) (lo, hi uint64) {
	switch t {
	case "int8":
		return uint64(0xffffffffffffff80), 0x7f
	case "int16":
		return uint64(0xffffffffffff8000), 0x7fff
	case "int32":
		return uint64(0xffffffff80000000), 0x7fffffff
	case "int64":
		return 1 << 63, 1<<63 - 1
	case "uint8":
		return 0, 0xff
	case "uint16":
		return 0, 0xffff
	case "uint32":
		return 0, 0xffffffff
	}
	return 0, ^uint64(0)
}

func c17Signed(t string, m []uint64) string {
	var out []string
	for _, x := range m {
		if t[0] == 'i' {
			out = append(out, fmt.Sprint(int64(x)))
		} else {
			out = append(out, fmt.Sprint(x))
		}
	}
	return "[" + strings.Join(out, " ") + "]"
}

func c17TypedMask[M int8 | int16 | int32 | int64 | uint8 | uint16 | uint32 | uint64 | uint | uintptr](name string, v uint32, m []uint64) (*of.MatchField, error) {
	tm := make([]M, len(m))
	for i, x := range m {
		tm[i] = M(x)
	}
	return of.NewMatchField(name, v, tm...)
}

func c17CallTyped(name string, v uint32, t string, m []uint64) (f *of.MatchField, err error, pn any) {
	defer func() {
		if p := recover(); p != nil {
			pn = p
		}
	}()
	switch t {
	case "int8":
		f, err = c17TypedMask[int8](name, v, m)
	case "int16":
		f, err = c17TypedMask[int16](name, v, m)
	case "int32":
		f, err = c17TypedMask[int32](name, v, m)
	case "int64":
		f, err = c17TypedMask[int64](name, v, m)
	case "uint8":
		f, err = c17TypedMask[uint8](name, v, m)
	case "uint16":
		f, err = c17TypedMask[uint16](name, v, m)
	case "uint32":
		f, err = c17TypedMask[uint32](name, v, m)
	case "uint64":
		f, err = c17TypedMask[uint64](name, v, m)
	case "uint":
		f, err = c17TypedMask[uint](name, v, m)
	case "uintptr":
		f, err = c17TypedMask[uintptr](name, v, m)
	}
	return
}

var c17Types = []string{"uint8", "uint16", "uint32", "uint64", "int", "int8", "int16", "int32", "int64", "bytes", "ip", "mac", "big"}

// fits reports whether v can be passed as the argument type.
func c17Fits(v *big.Int, typ string) bool {
	switch typ {
	case "uint8":
		return v.Sign() >= 0 && v.BitLen() <= 8
	case "uint16":
		return v.Sign() >= 0 && v.BitLen() <= 16
	case "uint32":
		return v.Sign() >= 0 && v.BitLen() <= 32
	case "uint64":
		return v.Sign() >= 0 && v.BitLen() <= 64
	case "int8":
		return v.IsInt64() && v.Int64() >= -128 && v.Int64() <= 127
	case "int16":
		return v.IsInt64() && v.Int64() >= -32768 && v.Int64() <= 32767
	case "int32":
		return v.IsInt64() && v.Int64() >= -(1<<31) && v.Int64() < 1<<31
	case "int", "int64":
		return v.IsInt64()
	case "bytes":
		return v.Sign() >= 0
	case "ip":
		return v.Sign() >= 0 && v.BitLen() <= 128
	case "mac":
		return v.Sign() >= 0 && v.BitLen() <= 48
	case "big":
		return true
	}
	return false
}

// c17Call invokes the instantiation of NewMatchField for the argument type. It also reports
// whether the caller's argument was modified.
func c17Call(name string, v *big.Int, typ string, mask []int) (f *of.MatchField, err error, pn any, argModified string) {
	// the mask arguments are handed over as a slice with spare capacity (the way a caller slicing a
	// table of windows does): neither the arguments nor the elements behind them may be written
	const sentinel = -7777
	whole := make([]int, len(mask)+4)
	copy(whole, mask)
	for i := len(mask); i < len(whole); i++ {
		whole[i] = sentinel
	}
	given := append([]int{}, mask...)
	mask = whole[:len(mask):len(whole)]
	defer func() {
		if p := recover(); p != nil {
			pn = p
		}
		for i, x := range whole {
			want := sentinel
			if i < len(given) {
				want = given[i]
			}
			if x != want && argModified == "" {
				argModified = fmt.Sprintf("the caller's mask arguments %v (backing array %v...) were changed to %v", given, append(append([]int{}, given...), sentinel), whole)
			}
		}
	}()
	switch typ {
	case "uint8":
		f, err = of.NewMatchField(name, uint8(v.Uint64()), mask...)
	case "uint16":
		f, err = of.NewMatchField(name, uint16(v.Uint64()), mask...)
	case "uint32":
		f, err = of.NewMatchField(name, uint32(v.Uint64()), mask...)
	case "uint64":
		f, err = of.NewMatchField(name, v.Uint64(), mask...)
	case "int":
		f, err = of.NewMatchField(name, int(v.Int64()), mask...)
	case "int8":
		f, err = of.NewMatchField(name, int8(v.Int64()), mask...)
	case "int16":
		f, err = of.NewMatchField(name, int16(v.Int64()), mask...)
	case "int32":
		f, err = of.NewMatchField(name, int32(v.Int64()), mask...)
	case "int64":
		f, err = of.NewMatchField(name, v.Int64(), mask...)
	case "bytes", "ip", "mac":
		n := (v.BitLen() + 7) / 8
		if typ == "ip" {
			n = 16
		} else if typ == "mac" {
			n = 6
		} else if n == 0 {
			n = 1
		}
		arg := make([]byte, n)
		v.FillBytes(arg)
		keep := append([]byte{}, arg...)
		switch typ {
		case "bytes":
			f, err = of.NewMatchField(name, arg, mask...)
		case "ip":
			f, err = of.NewMatchField(name, net.IP(arg), mask...)
		case "mac":
			f, err = of.NewMatchField(name, net.HardwareAddr(arg), mask...)
		}
		if !bytes.Equal(arg, keep) {
			argModified = fmt.Sprintf("the caller's byte slice %x was changed to %x", keep, arg)
		}
	case "big":
		arg := new(big.Int).Set(v)
		f, err = of.NewMatchField(name, arg, mask...)
		if arg.Cmp(v) != 0 {
			argModified = fmt.Sprintf("the caller's *big.Int %s was changed to %s", v, arg)
		}
	}
	return
}

// c17Expect is the big-integer reference: expected value/mask bytes, or wantErr.
func c17Expect(width int, v *big.Int, mask []int) (val, msk []byte, wantErr bool) {
	bits := 8 * width
	if v.Sign() < 0 {
		return nil, nil, true
	}
	switch len(mask) {
	case 0:
		if v.BitLen() > bits {
			return nil, nil, true
		}
		val = make([]byte, width)
		v.FillBytes(val)
		return val, nil, false
	case 2, 3:
		off, w := mask[0], mask[1]
		if off < 0 || w < 0 || off+w > bits {
			return nil, nil, true
		}
		placed := new(big.Int).Set(v)
		if len(mask) == 2 || mask[2] == 1 {
			placed.Lsh(placed, uint(off))
		}
		m := new(big.Int).Lsh(big.NewInt(1), uint(w))
		m.Sub(m, big.NewInt(1)).Lsh(m, uint(off))
		if new(big.Int).AndNot(placed, m).Sign() != 0 {
			return nil, nil, true // the value does not fit the window
		}
		val, msk = make([]byte, width), make([]byte, width)
		placed.FillBytes(val)
		m.FillBytes(msk)
		return val, msk, false
	}
	return nil, nil, true
}

func payloadOfField(m any) []byte {
	if b, ok := m.(*of.ByteArrayField); ok && b != nil {
		return b.Data
	}
	if m == nil {
		return nil
	}
	if e, ok := m.(interface{ MarshalBinary() ([]byte, error) }); ok {
		b, _ := e.MarshalBinary()
		return b
	}
	return nil
}

// c17One runs one call and compares. Returns true if a violation was reported.
func c17One(r *ev.Run, name string, info *wire.OxmInfo, v *big.Int, typ string, mask []int) bool {
	r.Add("transitions", 1)
	rep := c17Case{Name: name, Value: v.String(), Type: typ, Mask: mask}
	conv := fmt.Sprintf("%d-mask-args", len(mask))
	bad := func(clause, what string) bool {
		r.Outcome("wrong")
		r.Violation(clause+":"+conv, fmt.Sprintf("%s: NewMatchField(%q, %s(%s), %v)", what, name, typ, v.String(), mask), rep)
		return true
	}
	f, err, pn, mod := c17Call(name, v, typ, mask)
	if pn != nil {
		return bad("panic", fmt.Sprintf("panicked: %v", pn))
	}
	if mod != "" {
		return bad("argument-modified:"+typ, mod)
	}
	if len(mask) == 1 {
		// the one-argument form derives its window from the value: only the window-free clauses
		if err == nil && f != nil {
			val, msk := payloadOfField(f.Value), payloadOfField(f.Mask)
			if len(val) != info.Width || len(msk) != info.Width {
				return bad("size", fmt.Sprintf("value/mask have %d/%d bytes, the field is %d wide", len(val), len(msk), info.Width))
			}
			for i := range val {
				if val[i]&^msk[i] != 0 {
					return bad("value-outside-mask", fmt.Sprintf("value %x has bits outside the mask %x", val, msk))
				}
			}
		}
		r.Outcome("one-arg-form")
		return false
	}
	wv, wm, wantErr := c17Expect(info.Width, v, mask)
	if wantErr {
		if err == nil {
			got := ""
			if f != nil {
				got = fmt.Sprintf("value %x mask %x", payloadOfField(f.Value), payloadOfField(f.Mask))
			}
			return bad("unrepresentable-accepted", "an input that cannot be represented was accepted ("+got+")")
		}
		r.Outcome("error-as-expected")
		return false
	}
	if err != nil || f == nil {
		return bad("representable-rejected", fmt.Sprintf("a representable input was rejected: %v", err))
	}
	if f.Class != info.Class || f.Field != info.Field || f.HasMask != (len(mask) > 0) {
		return bad("header", fmt.Sprintf("header class %#x field %d mask %v", f.Class, f.Field, f.HasMask))
	}
	wantLen := info.Width
	if len(mask) > 0 {
		wantLen *= 2
	}
	if int(f.Length) != wantLen {
		return bad("header-length", fmt.Sprintf("header length %d, want %d", f.Length, wantLen))
	}
	val, msk := payloadOfField(f.Value), payloadOfField(f.Mask)
	if !bytes.Equal(val, wv) {
		return bad("value-placement", fmt.Sprintf("value bytes %x, the input placed at the window gives %x", val, wv))
	}
	if len(mask) > 0 && !bytes.Equal(msk, wm) {
		return bad("mask-window", fmt.Sprintf("mask bytes %x, the window gives %x", msk, wm))
	}
	if len(mask) == 0 && f.Mask != nil {
		return bad("mask-window", "a mask was produced although none was requested")
	}
	// 32-bit registers: same bytes as the dedicated constructor
	if info.Class == 1 && info.Field < 16 && info.Width == 4 && len(mask) >= 2 && mask[1] > 0 {
		placed := new(big.Int).SetBytes(wv)
		ref := of.NewRegMatchField(int(info.Field), uint32(placed.Uint64()), of.NewNXRangeByOfsNBits(mask[0], mask[1]))
		rb, _ := ref.MarshalBinary()
		gb, _ := f.MarshalBinary()
		if !bytes.Equal(rb, gb) {
			return bad("differs-from-register-constructor", fmt.Sprintf("encodes to %x, NewRegMatchField gives %x", gb, rb))
		}
	}
	r.Outcome(fmt.Sprintf("placed:width%d", info.Width))
	return false
}

// values spanning a window of w bits.
func c17Values(w int) []*big.Int {
	var out []*big.Int
	if w <= 8 {
		for x := int64(0); x < 1<<uint(w); x++ {
			out = append(out, big.NewInt(x))
		}
		return out
	}
	max := new(big.Int).Lsh(big.NewInt(1), uint(w))
	max.Sub(max, big.NewInt(1))
	alt := new(big.Int)
	for i := 0; i < w; i += 2 {
		alt.SetBit(alt, i, 1)
	}
	out = append(out, big.NewInt(0), big.NewInt(1), max, new(big.Int).Sub(max, big.NewInt(1)), new(big.Int).Lsh(big.NewInt(1), uint(w-1)), alt)
	for i := 1; i < w-1; i++ {
		if w > 40 && i%7 != 0 && i != w-2 {
			continue
		}
		out = append(out, new(big.Int).Lsh(big.NewInt(1), uint(i)))
	}
	return out
}

func c17(r *ev.Run, replay string) {
	if replay != "" {
		var c c17Case
		if err := ev.LoadReplay(replay, &c); err != nil {
			harnessFailed = true
			return
		}
		v, _ := new(big.Int).SetString(c.Value, 10)
		info := wire.OxmByName[strings.ToUpper(c.Name)]
		if info == nil || v == nil {
			// unknown-name cases
			_, err, pn, _ := c17Call(c.Name, big.NewInt(1), c.Type, c.Mask)
			if pn != nil || err == nil {
				r.Violation("unknown-name", "an unknown name did not give an error", c)
			}
		} else {
			c17One(r, c.Name, info, v, c.Type, c.Mask)
		}
		r.Set("states", 1)
		return
	}
	// registered fixed-width fields
	var names []string
	byWidth := map[int][]string{}
	for _, k := range of.VerifRegistryKeys() {
		info := wire.OxmByName[k]
		if info == nil || info.Width == 0 {
			continue
		}
		names = append(names, k)
		byWidth[info.Width] = append(byWidth[info.Width], k)
	}
	sort.Strings(names)
	r.Set("registered_fixed_width_fields", len(names))
	var widths []int
	for w := range byWidth {
		widths = append(widths, w)
	}
	sort.Ints(widths)
	var calls int64
	typesFor := func(v *big.Int, all bool) []string {
		var ts []string
		for _, t := range c17Types {
			if c17Fits(v, t) {
				ts = append(ts, t)
				if !all && len(ts) == 2 {
					break
				}
			}
		}
		if !all {
			ts = append(ts, "big")
		}
		return ts
	}
	// (1) one representative per width (registers for 4 bytes): every window x values x conventions
	for _, w := range widths {
		rep := byWidth[w][0]
		if w == 4 {
			rep = "NXM_NX_REG3"
		}
		info := wire.OxmByName[rep]
		bits := 8 * w
		step := 1
		if bits > 64 && !r.Thorough() {
			step = 5 // 128-bit fields: every 5th offset plus the boundaries (quick); thorough takes all
		}
		for off := 0; off < bits; off++ {
			if step > 1 && off%step != 0 && off != bits-1 && off != 1 {
				continue
			}
			for width := 1; off+width <= bits; width++ {
				if step > 1 && width%step != 0 && width != 1 && off+width != bits && width != 2 {
					continue
				}
				if r.Expired() {
					break
				}
				for _, v := range c17Values(width) {
					if width > 12 && !r.Thorough() && v.BitLen() > 1 && v.BitLen() < width-1 && v.BitLen()%4 != 0 {
						continue
					}
					for _, typ := range typesFor(v, width <= 3 && off < 4) {
						calls += 3
						c17One(r, rep, info, v, typ, []int{off, width})
						c17One(r, rep, info, v, typ, []int{off, width, 1})
						placed := new(big.Int).Lsh(v, uint(off))
						c17One(r, rep, info, placed, typ2(placed, typ), []int{off, width, 0})
						// already-placed values with one bit just below / just above the window: not representable
						if off > 0 {
							below := new(big.Int).SetBit(new(big.Int).Set(placed), off-1, 1)
							calls++
							c17One(r, rep, info, below, typ2(below, typ), []int{off, width, 0})
						}
						if off+width < bits {
							above := new(big.Int).SetBit(new(big.Int).Set(placed), off+width, 1)
							calls++
							c17One(r, rep, info, above, typ2(above, typ), []int{off, width, 0})
							// and shifted values one bit wider than the window
							wide := new(big.Int).SetBit(new(big.Int).Set(v), width, 1)
							calls++
							c17One(r, rep, info, wide, typ2(wide, typ), []int{off, width})
						}
					}
				}
			}
		}
		// no mask: values spanning the field
		for _, v := range c17Values(bits) {
			for _, typ := range typesFor(v, true) {
				calls++
				c17One(r, rep, info, v, typ, nil)
			}
		}
		r.Completed(fmt.Sprintf("W%d %s: every window (offset, width) inside the %d-bit field x values spanning the window x {(o,w), (o,w,1), (o,w,0)} x argument types; unmasked values spanning the field", w, rep, bits))
	}
	// (2) every registered name: boundary windows x boundary values
	for _, name := range names {
		info := wire.OxmByName[name]
		bits := 8 * info.Width
		for _, win := range [][2]int{{0, 1}, {0, bits}, {bits - 1, 1}, {0, bits - 1}, {1, bits - 1}, {bits / 2, bits / 2}, {3, 5}} {
			if win[0]+win[1] > bits || win[1] <= 0 {
				continue
			}
			for _, v := range []*big.Int{big.NewInt(0), big.NewInt(1), new(big.Int).Sub(new(big.Int).Lsh(big.NewInt(1), uint(win[1])), big.NewInt(1))} {
				for _, typ := range typesFor(v, false) {
					calls += 2
					c17One(r, name, info, v, typ, []int{win[0], win[1]})
					c17One(r, strings.ToLower(name), info, v, typ, []int{win[0], win[1], 1})
				}
			}
		}
		calls++
		c17One(r, name, info, big.NewInt(1), "uint8", nil)
	}
	r.Completed(fmt.Sprintf("N every one of the %d registered fixed-width names x 7 boundary windows x 3 values", len(names)))
	// (3) out-of-range inputs on one field per width
	for _, w := range widths {
		rep := byWidth[w][0]
		info := wire.OxmByName[rep]
		bits := 8 * w
		one := big.NewInt(1)
		tooWide := new(big.Int).Lsh(one, uint(bits)) // one bit wider than the field
		cases := []struct {
			v    *big.Int
			mask []int
		}{
			{tooWide, nil}, {new(big.Int).Lsh(tooWide, 7), nil}, {big.NewInt(-1), nil}, {big.NewInt(-128), nil},
			{big.NewInt(2), []int{0, 1}}, {big.NewInt(4), []int{3, 2}}, // value one bit too wide for the window
			{one, []int{bits, 1}}, {one, []int{bits - 1, 2}}, {one, []int{0, bits + 1}}, {one, []int{bits + 8, 4}}, // window beyond the field
			{tooWide, []int{0, bits}}, {one, []int{bits - 1, 1, 1}}, {new(big.Int).Lsh(one, uint(bits)), []int{0, bits, 0}},
			{big.NewInt(-1), []int{0, 4}}, {big.NewInt(-1), []int{0, 4, 0}},
			{one, []int{0, 1, 1, 1}}, {one, []int{0, 1, 0, 0}}, // more than three mask arguments
			{one, []int{3}}, {big.NewInt(0), []int{0}}, {new(big.Int).Lsh(one, uint(bits-1)), []int{1}},
			// windows far beyond the field whose offset or width is congruent to a valid one modulo
			// 2^8 / 2^16 (arithmetic narrowed to a small integer type would accept them), and negative ones
			{one, []int{256, 1}}, {one, []int{256 + 3, 2}}, {one, []int{0, 256 + 1}}, {one, []int{65536, 1}}, {one, []int{65536 + 3, 2}}, {big.NewInt(5), []int{65536 + 4, 4}},
			{one, []int{0, 65536 + 1}}, {one, []int{2, 65536 + 2}}, {one, []int{65536, 65536 + 1}}, {one, []int{1 << 20, 1}}, {one, []int{0, 1 << 20}}, {one, []int{65536 + 3, 2, 1}}, {one, []int{65536 + 3, 2, 0}},
			// an empty window (width 0) holds the value 0 only
			{one, []int{0, 0}}, {one, []int{3, 0}}, {big.NewInt(5), []int{1, 0}}, {one, []int{bits - 1, 0}}, {one, []int{2, 0, 1}}, {one, []int{2, 0, 0}},
			{big.NewInt(0), []int{0, 0}}, {big.NewInt(0), []int{5, 0}},
			{one, []int{-1, 1}}, {one, []int{0, -1}}, {one, []int{-8, 4}}, {one, []int{4, -4}}, {one, []int{-1, 1, 0}}, {big.NewInt(0), []int{-65536, 1}},
		}
		for _, c := range cases {
			for _, typ := range c17Types {
				if !c17Fits(c.v, typ) {
					continue
				}
				calls++
				c17One(r, rep, info, c.v, typ, c.mask)
			}
		}
	}
	// the window arguments may have any integer type. In every type: a window inside the field gives the
	// same field as with int arguments; the type's largest value and (signed types) its smallest value as
	// offset or as width lie beyond every field and are refused with an error, whatever they turn into
	// when converted to another integer type on the way
	for _, mt := range c17MaskTypes {
		for _, rep := range []string{"NXM_NX_REG3", "NXM_NX_TUN_ID", "NXM_NX_XXREG0"} {
			info := wire.OxmByName[rep]
			if info == nil {
				continue
			}
			bits := uint64(8 * info.Width)
			lo, hi := c17MaskRange(mt)
			type tc struct {
				v    uint32
				mask []uint64 // two's complement of the typed value
				ok   bool
			}
			cases := []tc{{0xb, []uint64{4, 8}, true}, {1, []uint64{bits - 1, 1}, true}, {0, []uint64{0, bits}, true}, {3, []uint64{1, 2, 0}, false}}
			for _, ext := range []uint64{hi, lo, hi - 1, hi/2 + 1} {
				if int64(ext) >= 0 && ext <= bits {
					continue
				}
				cases = append(cases, tc{1, []uint64{ext, 1}, false}, tc{1, []uint64{0, ext}, false}, tc{0, []uint64{ext, 0}, false}, tc{0, []uint64{0, ext}, false}, tc{1, []uint64{ext, ext}, false}, tc{1, []uint64{ext}, false})
			}
			for _, c := range cases {
				fits := true
				for _, x := range c.mask {
					if c.ok && x > hi {
						fits = false // the window itself cannot be said in this type
					}
				}
				if !fits {
					continue
				}
				calls++
				r.Add("transitions", 1)
				f, err, pn := c17CallTyped(rep, c.v, mt, c.mask)
				cs := c17Case{Name: rep, Value: fmt.Sprint(c.v), Type: "uint32 with " + mt + " window arguments", Mask: nil, TypedMask: c.mask}
				what := fmt.Sprintf("NewMatchField(%q, uint32(%d), %s window %v)", rep, c.v, mt, c17Signed(mt, c.mask))
				switch {
				case pn != nil:
					r.Violation("panic:typed-window:"+mt, fmt.Sprintf("panicked: %v: %s", pn, what), cs)
				case c.ok:
					var im []int
					for _, x := range c.mask {
						im = append(im, int(x))
					}
					g, gerr := of.NewMatchField(rep, c.v, im...)
					if gerr != nil {
						continue
					}
					if err != nil || f == nil {
						r.Violation("representable-rejected:typed-window:"+mt, fmt.Sprintf("a window that int arguments describe as well is rejected: %v: %s", err, what), cs)
						continue
					}
					fb, _ := f.MarshalBinary()
					gb, _ := g.MarshalBinary()
					if !bytes.Equal(fb, gb) {
						r.Violation("typed-window-differs:"+mt, fmt.Sprintf("encodes to %x, the same window given as int arguments to %x: %s", fb, gb, what), cs)
					}
				case len(c.mask) == 3 && c.ok == false && c.mask[0] <= bits:
					// three-argument form inside the field: only no panic
				case err == nil:
					got := ""
					if f != nil {
						got = fmt.Sprintf("value %x mask %x", payloadOfField(f.Value), payloadOfField(f.Mask))
					}
					if len(c.mask) == 1 {
						continue // the one-argument form derives its width from the value
					}
					r.Violation("unrepresentable-accepted:typed-window:"+mt, fmt.Sprintf("a window beyond the field was accepted (%s): %s", got, what), cs)
				default:
					r.Outcome("error-as-expected")
				}
			}
		}
	}
	r.Completed("window arguments of every integer type (int8..int64, uint8..uint64, uint, uintptr): windows inside the field agree with int arguments; the extreme values of each type are refused without a panic")
	for _, bogus := range []string{"", "NXM_NX_REG16", "OXM_OF_NOPE"} {
		calls++
		f, err, pn, _ := c17Call(bogus, big.NewInt(1), "uint8", []int{0, 1})
		if pn != nil || err == nil || f != nil {
			r.Violation("unknown-name", fmt.Sprintf("NewMatchField(%q, ...) returned %v, %v, panic %v", bogus, f, err, pn), c17Case{Name: bogus, Value: "1", Type: "uint8", Mask: []int{0, 1}})
		}
	}
	r.Completed("X out-of-range inputs per width: value wider than field/window, window beyond the field, negative values, > 3 mask arguments, windows with offsets/widths of 2^8, 2^16, 2^20 and more, negative offsets/widths, the one-argument form, unknown names")
	r.Set("states", calls)
	r.Set("traces_validated_against_impl", calls)
	r.Set("evaluations", calls)
	r.Set("rule", "a state is one call NewMatchField(name, value as one of 13 argument types, mask arguments); the reference places the value with math/big; outcome classes = placed per field width / error as expected / one-argument form")
	r.Assume("field widths come from engine/wire's OXM table (DESIGN Appendix A); the variable-length tunnel-metadata names are excluded (no fixed width)")
	r.Assume("the one-argument mask form derives its window from the value's bit length; only the window-free clauses (no panic, value within mask, sizes, arguments untouched) are checked for it")
}

// typ2 keeps the argument type when the shifted value still fits it, otherwise falls back to big.
func typ2(v *big.Int, typ string) string {
	if c17Fits(v, typ) {
		return typ
	}
	return "big"
}
