//go:build verif

package checks

import (
	"fmt"
	"strings"

	"verif/bind"
	"verif/ev"
	"verif/wire"
)

// C02: nested lengths, alignment, padding and type codes. Every message built through the API
// (shape corpus x builder histories) is encoded and walked by the independent TLV walker
// (wire.Decode): declared lengths must match extents, alignment and zero padding must hold, every
// code must be defined, and the walk must end exactly at the header length. The walker must also
// visit exactly the elements that were added (same kinds, same list lengths).
func init() { Registry["C02"] = c02 }

// structDiff compares only structure: kinds and list lengths.
func structDiff(path string, a, b *wire.N) string {
	if a == nil || b == nil {
		if a == b {
			return ""
		}
		return path + ": element present on one side only"
	}
	if a.K != b.K {
		return fmt.Sprintf("%s: added a %s, the walker finds a %s", path, a.K, b.K)
	}
	for k, la := range a.L {
		lb := b.L[k]
		if len(la) != len(lb) {
			return fmt.Sprintf("%s%s.%s: %d elements added, the walker visits %d", path, a.K, k, len(la), len(lb))
		}
		for i := range la {
			if d := structDiff(fmt.Sprintf("%s%s.%s[%d]/", path, a.K, k, i), la[i], lb[i]); d != "" {
				return d
			}
		}
	}
	for k, lb := range b.L {
		if len(a.L[k]) != len(lb) {
			return fmt.Sprintf("%s%s.%s: %d elements added, the walker visits %d", path, a.K, k, len(a.L[k]), len(lb))
		}
	}
	for k, sa := range a.S {
		if d := structDiff(path+a.K+"."+k+"/", sa, b.S[k]); d != "" {
			return d
		}
	}
	return ""
}

// expectedTree is what the message is specified to contain: delete commands carry no
// instructions / buckets (the library's size function defines this), everything else as added.
func expectedTree(n *wire.N) *wire.N {
	e := n.Clone()
	var fix func(t *wire.N)
	fix = func(t *wire.N) {
		if t == nil {
			return
		}
		if t.K == "flow_mod" && (t.U["Command"] == 3 || t.U["Command"] == 4) {
			delete(t.L, "Instructions")
		}
		if t.K == "group_mod" && t.U["Command"] == 2 {
			delete(t.L, "Buckets")
		}
		for _, c := range t.S {
			fix(c)
		}
		for _, l := range t.L {
			for _, c := range l {
				fix(c)
			}
		}
	}
	fix(e)
	return e
}

func errClass(msg string) string {
	// first words of the walker's message, without numbers
	var b strings.Builder
	words := 0
	for _, w := range strings.Fields(msg) {
		if strings.IndexAny(w, "0123456789") >= 0 {
			continue
		}
		b.WriteString(w + "-")
		words++
		if words == 5 {
			break
		}
	}
	return strings.TrimSuffix(b.String(), "-")
}

func c02Check(r *ev.Run, n *wire.N, h bind.Hist) {
	rep := shapeCase{Model: n.String(), Hist: h, Tree: n}
	bad := func(sig, what string) {
		r.Violation(sig, what+" [history "+histName(h)+"] for "+shortModel(n), rep)
	}
	m, err, pn := safeBuild(n, h)
	if pn != nil || err != nil {
		if err == bind.ErrNoAPI {
			r.Add("not_buildable_through_api", 1)
		}
		return // build panics are C01's subject
	}
	b, err, pn := safeEncode(m)
	if pn != nil || err != nil {
		return
	}
	r.Add("transitions", 3)
	// a message may be sent more than once (several switches, resend): the second encoding of the
	// same value is held to the same grammar
	b = append([]byte{}, b...)
	b2, err2, pn2 := safeEncode(m)
	for i, enc := range [][]byte{b, b2} {
		which := ""
		if i == 1 {
			if pn2 != nil || err2 != nil {
				break
			}
			which = " (second encoding of the same value)"
		}
		got, werr := wire.Decode(enc)
		if werr != nil {
			we := werr.(*wire.Err)
			bad("walk:"+locus(we.Path)+":"+errClass(we.Msg), "the walker fails"+which+": "+we.Error())
			r.Outcome("walk-fails")
			return
		}
		if d := structDiff("", expectedTree(n), got); d != "" {
			bad("visit:"+locus(d), "the walker does not visit what was added"+which+": "+d)
			return
		}
	}
	r.Outcome("walk-ok")
}

func c02(r *ev.Run, replay string) {
	if replay != "" {
		var c shapeCase
		if err := ev.LoadReplay(replay, &c); err == nil && c.Tree != nil {
			c02Check(r, c.Tree, c.Hist)
		}
		r.Set("states", 1)
		return
	}
	shapes := forEachControllerShape(r, func(n *wire.N, h bind.Hist) { c02Check(r, n, h) })
	r.Set("states", shapes)
	r.Set("traces_validated_against_impl", r.Counter("histories"))
	r.Set("evaluations", r.Counter("histories"))
	r.Set("rule", "a state is a model tree of the shape corpus built under up to 7 builder histories; the encoding is walked by the independent TLV walker")
	r.Assume("the walker (engine/wire) is written from DESIGN.md Appendix A, not from the library; its self-tests (round trip over the corpus, OVS byte vectors) run in setup")
	r.Assume("OXM fields 41-43 of the basic class (OpenFlow 1.4/1.5 numbers that OVS accepts on 1.3 connections) are accepted")
}
