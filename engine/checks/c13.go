//go:build verif

package checks

import (
	"bytes"
	"fmt"
	"reflect"
	"strings"

	of "github.com/contiv/libOpenflow/openflow13"
	"github.com/contiv/libOpenflow/util"
	verifrt "github.com/contiv/libOpenflow/verifrt"

	"verif/bind"
	"verif/corpus"
	"verif/dump"
	"verif/ev"
	"verif/wire"
)

// C13: sizing and encoding are repeatable and do not disturb the value. For every value of the
// corpus (messages and standalone elements; packet headers in c09.go): all operation sequences up
// to a depth over {L = Len(), M = MarshalBinary(), W = Len()+MarshalBinary() of an enclosing
// wrapper (bundle-add / instruction / match / flow-mod), D = encode, decode into a fresh receiver
// and dump}, each on a fresh instance rebuilt from its builder recipe. Oracle: history
// independence - every observation equals the one the same operation gives first on a fresh
// instance.
func init() { Registry["C13"] = c13 }

// subject is one value under test: fresh() rebuilds it from scratch.
type subject struct {
	name  string
	kind  string
	fresh func() (v lenEnc, wrap func() lenEnc, decode func(b []byte) (any, error))
	isMsg bool
	// viaStream adds the operation S: the value is sent through a MessageStream's writer
	viaStream bool
	rep       any
}

// bufferSubject is a pre-encoded message held in a util.Buffer (the stream and packet-out accept any
// util.Message): raw is what the buffer holds.
func bufferSubject(name string, raw []byte) *subject {
	return &subject{name: name, kind: "util.Buffer", isMsg: true, viaStream: true, rep: map[string]any{"buffer_hex": fmt.Sprintf("%x", raw), "buffer": name},
		fresh: func() (lenEnc, func() lenEnc, func([]byte) (any, error)) {
			b := util.NewBuffer(append([]byte{}, raw...))
			return b, func() lenEnc {
					po := of.NewPacketOut()
					po.Header.Xid = 0x33440000
					po.Data = b
					return po
				}, func(x []byte) (any, error) {
					d := new(util.Buffer)
					err := d.UnmarshalBinary(x)
					return d, err
				}
		}}
}

func obsL(v lenEnc) (s string) {
	defer func() {
		if p := recover(); p != nil {
			s = fmt.Sprintf("panic: %v", p)
		}
	}()
	return fmt.Sprint(v.Len())
}

func obsM(v lenEnc, isMsg bool) (s string) {
	defer func() {
		if p := recover(); p != nil {
			s = fmt.Sprintf("panic: %v", p)
		}
	}()
	b, err := v.MarshalBinary()
	if err != nil {
		return "error: " + err.Error()
	}
	b = append([]byte{}, b...)
	return fmt.Sprintf("%x", b)
}

func obsD(v lenEnc, decode func([]byte) (any, error)) (s string) {
	defer func() {
		if p := recover(); p != nil {
			s = "panic while decoding"
		}
	}()
	b, err := v.MarshalBinary()
	if err != nil {
		return "error: " + err.Error()
	}
	d, err := decode(append([]byte{}, b...))
	if err != nil {
		return "decode error"
	}
	return dump.Dump(d, dump.Options{Normalise: true})
}

// streamSend hands m to the Outbound channel of a real MessageStream (on a scripted connection, run
// under the controlled scheduler with its default schedule) and returns what the stream wrote.
func streamSend(m util.Message) (s string) {
	defer func() {
		if p := recover(); p != nil {
			s = fmt.Sprintf("panic: %v", p)
		}
	}()
	conn := &scriptConn{}
	e := &verifrt.Explorer{Bound: 0, MaxSteps: 2000}
	e.Body = func() {
		ms := util.NewMessageStream(conn, ofParser{})
		verifrt.GoNamed("producer", func() { verifrt.Send(ms.Outbound, m) })
	}
	x := e.RunOne(nil)
	if e.HarnessErr != nil {
		return "harness error: " + e.HarnessErr.Error()
	}
	for _, evn := range x.Events {
		return "event: " + evn.Kind + " " + evn.Detail
	}
	var wr []byte
	for _, w := range conn.written {
		wr = append(wr, w...)
	}
	return fmt.Sprintf("%x", wr)
}

// lastGuard is what the argument guard found after the last runOps (byte-string arguments are handed
// to the library with sentinel-filled spare capacity; sizing and encoding must not write there).
var lastGuard string

func runOps(s *subject, ops string) []string {
	bind.GuardReset(true)
	defer func() { lastGuard = bind.GuardCheck(); bind.GuardReset(false) }()
	v, wrap, decode := s.fresh()
	var w lenEnc
	out := make([]string, len(ops))
	for i, op := range ops {
		switch op {
		case 'V':
			// the value itself: every field, exported or not, except the derived ones that encoders
			// and size functions are known to write back (length fields and the IPv4 header length)
			out[i] = dump.Dump(v, dump.Options{Normalise: true, Skip: c13Derived, FieldHook: func(st, f string, _ reflect.Value) (string, bool) {
				// the plain resubmit action has no table on the wire; its encoder stores "all tables" in
				// the unused member, which no size, encoding or decoding can observe
				if st == "NXActionResubmit" && f == "TableID" {
					return "(unused)", true
				}
				return "", false
			}})
		case 'S':
			out[i] = streamSend(v.(util.Message))
		case 'L':
			out[i] = obsL(v)
		case 'M':
			out[i] = obsM(v, s.isMsg)
		case 'W':
			if w == nil {
				w = wrap()
			}
			out[i] = obsL(w) + "/" + obsM(w, true)
		case 'D':
			out[i] = obsD(v, decode)
		case 'R', 'Z':
			// a Read into a buffer that is too short (half the size) or empty: what it returns is its own
			// business, what the later operations return is not
			func() {
				defer func() {
					if p := recover(); p != nil {
						out[i] = fmt.Sprintf("panic: %v", p)
					}
				}()
				size := 0
				if op == 'R' {
					size = int(v.Len()) / 2
				}
				out[i] = v.(interface{ shortRead(int) string }).shortRead(size)
			}()
		}
	}
	return out
}

// c13Derived are the fields an encoder or a size function may legitimately write back into the value
// (derived from the rest of it); everything else must be left as it was.
var c13Derived = map[string]bool{"Length": true, "ActionsLen": true, "IHL": true, "HELength": true}

func c13Subject(r *ev.Run, s *subject, depth int) int64 {
	ref := map[rune]string{}
	alpha := "LMWD"
	if s.viaStream {
		alpha = "LMWDS"
	}
	if v, _, _ := s.fresh(); v != nil {
		if _, ok := v.(interface{ shortRead(int) string }); ok {
			alpha = "LMDRZ"
		}
	}
	// V is an observation only (it cannot disturb anything): it is looked at once at the end of
	// every sequence instead of being a letter of the alphabet
	ref['V'] = runOps(s, "V")[0]
	for _, op := range alpha {
		ref[op] = runOps(s, string(op))[0]
	}
	// two fresh instances must agree to begin with (otherwise the recipe itself is not deterministic)
	for _, op := range alpha {
		if again := runOps(s, string(op))[0]; again != ref[op] {
			r.Violation("fresh-instances-differ:"+s.kind, fmt.Sprintf("operation %c on two fresh instances of %s gives different results (shared state between values?): %s vs %s", op, s.name, clip(ref[op]), clip(again)), s.rep)
			return 2
		}
	}
	var n int64
	var rec func(prefix string)
	rec = func(prefix string) {
		if len(prefix) >= 2 {
			n++
			obs := runOps(s, prefix+"V")
			if v := obs[len(prefix)]; v != ref['V'] {
				r.Violation("value-disturbed:"+s.kind, fmt.Sprintf("after the operations %s on %s the value itself has changed: %s", prefix, s.name, dumpDiff(ref['V'], v)),
					map[string]any{"ops": prefix, "subject": s.rep})
				r.Outcome("history-dependent")
				return
			}
			obs = obs[:len(prefix)]
			r.Add("transitions", int64(len(prefix)))
			if lastGuard != "" {
				r.Violation("argument-written:"+s.kind, fmt.Sprintf("after the operations %s on %s: %s", prefix, s.name, lastGuard), map[string]any{"ops": prefix, "subject": s.rep})
				r.Outcome("history-dependent")
				return
			}
			for i, op := range prefix {
				if obs[i] != ref[op] {
					what := map[rune]string{'L': "reported size", 'M': "encoding", 'W': "size/encoding through the enclosing wrapper", 'D': "decoded value", 'S': "byte string the stream writes for it", 'R': "result of a Read into a buffer of half the size", 'Z': "result of a Read into an empty buffer"}[op]
					r.Violation(fmt.Sprintf("history-dependent-%c:%s", op, s.kind),
						fmt.Sprintf("after the operations %s on %s the %s is %s; on a fresh instance it is %s", prefix[:i], s.name, what, clip(obs[i]), clip(ref[op])),
						map[string]any{"ops": prefix, "subject": s.rep})
					r.Outcome("history-dependent")
					return
				}
			}
			r.Outcome("stable:" + string(prefix[len(prefix)-1]))
		}
		if len(prefix) == depth {
			return
		}
		for _, op := range alpha {
			rec(prefix + string(op))
		}
	}
	rec("")
	return n
}

func clip(s string) string {
	if len(s) > 120 {
		return s[:120] + fmt.Sprintf("...(%d chars)", len(s))
	}
	return s
}

func msgSubject(n *wire.N, h bind.Hist) *subject {
	return &subject{name: shortModel(n), kind: rootSig(n), isMsg: true, rep: shapeCase{Model: n.String(), Hist: h, Tree: n},
		fresh: func() (lenEnc, func() lenEnc, func([]byte) (any, error)) {
			m, err, pn := safeBuild(n, h)
			if err != nil || pn != nil {
				return nil, nil, nil
			}
			// every fresh instance gets the same transaction ids (each constructor draws a new one),
			// so that ids are part of what must not change
			fixXids(m, 0x11220000)
			return m.(lenEnc), func() lenEnc {
					w := of.NewBundleAdd(&of.BundleAdd{BundleID: 1, Flags: 1, Message: m})
					w.Header.Xid = 0x33440000
					return w
				}, func(b []byte) (any, error) {
					return of.Parse(b)
				}
		}}
}

// fixXids sets the transaction id of a message and of the messages embedded in bundle-adds.
func fixXids(m util.Message, base uint32) {
	if h := bind.HeaderOf(m); h != nil {
		h.Xid = base
	}
	if v, ok := m.(*of.VendorHeader); ok && v != nil {
		if ba, ok := v.VendorData.(*of.BundleAdd); ok && ba != nil && ba.Message != nil {
			fixXids(ba.Message, base+1)
		}
	}
}

func actionSubject(a *wire.N) *subject {
	return &subject{name: shortModel(a), kind: a.K, rep: map[string]any{"action": a},
		fresh: func() (lenEnc, func() lenEnc, func([]byte) (any, error)) {
			la, err := bind.BuildAction(a, bind.Hist{})
			if err != nil {
				return nil, nil, nil
			}
			return la, func() lenEnc {
					in := of.NewInstrApplyActions()
					in.AddAction(la, false)
					return in
				}, func(b []byte) (any, error) {
					return of.DecodeAction(b)
				}
		}}
}

func instrSubject(in *wire.N) *subject {
	return &subject{name: shortModel(in), kind: in.K, rep: map[string]any{"instruction": in},
		fresh: func() (lenEnc, func() lenEnc, func([]byte) (any, error)) {
			li, err := bind.BuildInstr(in, bind.Hist{})
			if err != nil {
				return nil, nil, nil
			}
			return li, func() lenEnc {
					f := of.NewFlowMod()
					f.AddInstruction(li)
					f.Header.Xid = 0
					return f
				}, func(b []byte) (any, error) {
					return of.DecodeInstr(b), nil
				}
		}}
}

func oxmSubject(f *wire.N) *subject {
	return &subject{name: shortModel(f), kind: "oxm:" + oxmName(f), rep: map[string]any{"oxm": f},
		fresh: func() (lenEnc, func() lenEnc, func([]byte) (any, error)) {
			mf, _, err := bind.BuildOxm(f, 0)
			if err != nil {
				return nil, nil, nil
			}
			return mf, func() lenEnc {
					m := of.NewMatch()
					m.AddField(*mf)
					return m
				}, func(b []byte) (any, error) {
					d := new(of.MatchField)
					err := d.UnmarshalBinary(b)
					return d, err
				}
		}}
}

func bucketSubject(bk *wire.N) *subject {
	return &subject{name: shortModel(bk), kind: "bucket", rep: map[string]any{"bucket": bk},
		fresh: func() (lenEnc, func() lenEnc, func([]byte) (any, error)) {
			lb, err := bind.BuildBucket(bk, bind.Hist{})
			if err != nil {
				return nil, nil, nil
			}
			return lb, func() lenEnc {
					g := of.NewGroupMod()
					g.AddBucket(*lb)
					g.Header.Xid = 0
					return g
				}, func(b []byte) (any, error) {
					d := new(of.Bucket)
					err := d.UnmarshalBinary(b)
					return d, err
				}
		}}
}

var _ util.Message
var _ = bytes.Equal
var _ = strings.Join

func c13(r *ev.Run, replay string) {
	depth := 3
	if r.Thorough() {
		depth = 4
	}
	if replay != "" {
		var c struct {
			Ops     string `json:"ops"`
			Subject struct {
				Tree        *wire.N   `json:"tree"`
				Hist        bind.Hist `json:"hist"`
				Action      *wire.N   `json:"action"`
				Instruction *wire.N   `json:"instruction"`
				Oxm         *wire.N   `json:"oxm"`
				Bucket      *wire.N   `json:"bucket"`
				Packet      string    `json:"packet"`
			} `json:"subject"`
		}
		ev.LoadReplay(replay, &c)
		var s *subject
		switch {
		case c.Subject.Tree != nil:
			s = msgSubject(c.Subject.Tree, c.Subject.Hist)
		case c.Subject.Action != nil:
			s = actionSubject(c.Subject.Action)
		case c.Subject.Instruction != nil:
			s = instrSubject(c.Subject.Instruction)
		case c.Subject.Oxm != nil:
			s = oxmSubject(c.Subject.Oxm)
		case c.Subject.Bucket != nil:
			s = bucketSubject(c.Subject.Bucket)
		}
		if s != nil {
			c13Subject(r, s, depth)
		} else {
			c13Packets(r, depth)
		}
		r.Set("states", 1)
		return
	}
	var subjects, seqs int64
	run := func(s *subject, d int) {
		if v, _, _ := s.fresh(); v == nil {
			r.Add("not_buildable_through_api", 1)
			return
		}
		subjects++
		seqs += c13Subject(r, s, d)
	}
	// standalone elements at full depth
	for _, a := range corpus.ExtActions(r.Thorough()) {
		run(actionSubject(a), depth)
	}
	// learn actions whose specs name their fields by a *masked* header (a field header obtained with
	// hasMask = true is a value callers share between a learn spec, a reg_load2 and a match)
	masked := func(name string) uint64 {
		w := corpus.HeaderWordByName(name)
		return w&^0xff | 0x100 | (w&0xff)*2
	}
	for form := 0; form < 5; form++ {
		for _, nb := range []int{8, 16, 32} {
			l := corpus.Action("nx_learn", form)
			sp := corpus.LearnSpec(form, nb, nb)
			if _, ok := sp.U["SrcField"]; ok {
				sp.Set("SrcField", masked("NXM_NX_REG6"))
			}
			if _, ok := sp.U["DstField"]; ok {
				sp.Set("DstField", masked("NXM_NX_REG7"))
			}
			l.Add("LearnSpecs", sp)
			run(actionSubject(l), depth)
		}
	}
	for _, f := range corpus.AllMatchFields() {
		run(oxmSubject(f), depth)
	}
	arep := corpus.ActionsRep()
	for _, k := range corpus.InstrKinds {
		run(instrSubject(corpus.Instr(k, 1)), depth)
		for _, a := range arep {
			run(instrSubject(corpus.Instr(k, 2, a.Clone(), corpus.Action("act_output", 1))), depth)
		}
	}
	run(bucketSubject(corpus.Bucket(1)), depth)
	for _, a := range arep {
		run(bucketSubject(corpus.Bucket(2, a.Clone())), depth)
	}
	r.Completed(fmt.Sprintf("standalone actions (extended alphabet), match fields, instructions, buckets: all sequences of length <= %d over L,M,W,D", depth))
	// messages: L0/L1 at full depth, the rest of the corpus at depth 2
	lvl := 0
	corpus.Controller(r.Thorough(), r.Expired, func(name string, complete bool) {
		lvl++
		if complete {
			r.Completed(name + fmt.Sprintf(" (sequences <= %d)", map[bool]int{true: depth, false: 2}[lvl <= 2]))
		} else {
			r.Incomplete(name)
		}
	}, func(n *wire.N) {
		if modelSize(n) > 65535-24 {
			return
		}
		d := 2
		if lvl < 2 {
			d = depth
		}
		run(msgSubject(n, bind.Hist{}), d)
	})
	corpus.Switch(false, r.Expired, func(string, bool) {}, func(n *wire.N) {
		run(msgSubject(n, bind.Hist{}), 2)
	})
	// the stream's writer is one more container that sizes and encodes what it is given: one message of
	// every root kind, and pre-encoded util.Buffer values (with a header length that matches their
	// size, one that does not, and bytes that are no OpenFlow message at all), with the operation S
	seenRoot := map[string]bool{}
	var viaStream int64
	streamOne := func(n *wire.N) {
		if seenRoot[rootSig(n)] || modelSize(n) > 4000 {
			return
		}
		sb := msgSubject(n, bind.Hist{})
		if v, _, _ := sb.fresh(); v == nil {
			return
		}
		seenRoot[rootSig(n)] = true
		sb.viaStream = true
		viaStream++
		run(sb, depth)
	}
	corpus.Controller(false, r.Expired, func(string, bool) {}, streamOne)
	corpus.Switch(false, r.Expired, func(string, bool) {}, streamOne)
	echo := []byte{4, 2, 0, 8, 0, 0, 0, 9}
	for _, bs := range []struct {
		name string
		raw  []byte
	}{
		{"echo request, pre-encoded", echo},
		{"echo request followed by 20 more bytes (header length 8, 28 bytes held)", append(append([]byte{}, echo...), corpus.Payload(20)...)},
		{"header announcing 64 bytes, 16 held", []byte{4, 2, 0, 64, 0, 0, 0, 9, 1, 2, 3, 4, 5, 6, 7, 8}},
		{"21 bytes that are no OpenFlow message", corpus.Payload(21)},
		{"empty buffer", nil},
	} {
		viaStream++
		run(bufferSubject(bs.name, bs.raw), depth)
	}
	r.Set("subjects_sent_through_the_stream", viaStream)
	r.Completed(fmt.Sprintf("one message of every root kind and 5 pre-encoded util.Buffer values: all sequences of length <= %d over L,M,W,D,S (S = sent through a MessageStream's writer)", depth))
	np, ns := c13Packets(r, depth)
	subjects += np
	seqs += ns
	r.Set("states", subjects)
	r.Set("sequences", seqs)
	r.Set("traces_validated_against_impl", seqs)
	r.Set("evaluations", seqs)
	r.Set("rule", "a state is (value, operation history); every sequence over {L,M,W,D} up to the depth runs on a fresh instance rebuilt from its builder recipe; outcome classes = last operation of a stable sequence")
	r.Assume("observations: Len() value, encoding bytes (transaction ids masked), wrapper size+bytes, normalised deep dump of the decoded value")
}

// dumpDiff shows where two dumps part.
func dumpDiff(a, b string) string {
	i := 0
	for i < len(a) && i < len(b) && a[i] == b[i] {
		i++
	}
	lo := i - 60
	if lo < 0 {
		lo = 0
	}
	cut := func(s string) string {
		hi := i + 60
		if hi > len(s) {
			hi = len(s)
		}
		return s[lo:hi]
	}
	return fmt.Sprintf("fresh ...%s... now ...%s...", cut(a), cut(b))
}
