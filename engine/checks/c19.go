//go:build verif

package checks

import (
	"bytes"
	"fmt"
	"strings"

	"github.com/contiv/libOpenflow/ofbase"

	"verif/ev"
)

// C19: base encoder/decoder primitives. All sequences of typed writes over an 8-letter alphabet
// up to a depth, decoded with the matching reads; all slicing geometries of nested decoders; all
// short inputs of the header decoder.
func init() { Registry["C19"] = c19 }

var c19Alpha = []string{"u8", "u16", "u32", "u64", "u128", "w1", "w3", "align", "ch"}

func c19Width(op string) int {
	switch op {
	case "u8", "w1", "ch":
		return 1
	case "u16":
		return 2
	case "u32":
		return 4
	case "u64":
		return 8
	case "u128":
		return 16
	case "w3":
		return 3
	}
	return 0
}

// pattern value for position pos, variant v
func c19Val(pos int, v uint64) uint64 {
	return (0x0102030405060708 * uint64(pos+1)) ^ v
}

var c19Variants = []uint64{0, ^uint64(0), 0x8000000000000000, 0x0000000000000001, 0x00ff00ff00ff00ff}

func c19Seq(r *ev.Run, seq []int, variant uint64) (viol bool) {
	names := make([]string, len(seq))
	for i, s := range seq {
		names[i] = c19Alpha[s]
	}
	rep := map[string]any{"ops": names, "variant": variant}
	bad := func(clause, what string) {
		viol = true
		r.Violation(clause, what+" in sequence "+strings.Join(names, ","), rep)
	}
	defer func() {
		if p := recover(); p != nil {
			bad("seq-panic", fmt.Sprintf("encoder/decoder panicked: %v", p))
		}
	}()
	e := ofbase.NewEncoder()
	type wr struct {
		op  string
		val uint64
		raw []byte
	}
	var ws []wr
	pos := 0
	for i, s := range seq {
		op := c19Alpha[s]
		v := c19Val(i, 0)
		if i == len(seq)-1 {
			v = c19Val(i, variant)
		}
		w := wr{op: op, val: v}
		before := len(e.Bytes())
		switch op {
		case "u8":
			e.PutUint8(uint8(v))
		case "ch":
			e.PutChar(byte(v >> 8))
		case "u16":
			e.PutUint16(uint16(v))
		case "u32":
			e.PutUint32(uint32(v))
		case "u64":
			e.PutUint64(v)
		case "u128":
			e.PutUint128(ofbase.Uint128{Hi: v, Lo: ^v + 3})
		case "w1":
			w.raw = []byte{byte(v)}
			e.Write(w.raw)
		case "w3":
			w.raw = []byte{byte(v), byte(v >> 8), byte(v >> 16)}
			e.Write(w.raw)
		case "align":
			e.SkipAlign()
		}
		after := len(e.Bytes())
		if op == "align" {
			want := (before + 7) / 8 * 8
			if after != want {
				bad("enc-align", fmt.Sprintf("encoder SkipAlign at length %d moved to %d, want %d", before, after, want))
			}
			for _, c := range e.Bytes()[before:after] {
				if c != 0 {
					bad("enc-align-nonzero", "encoder alignment padding is not zero")
				}
			}
		} else if after-before != c19Width(op) {
			bad("enc-width:"+op, fmt.Sprintf("encoder length grew by %d for %s", after-before, op))
		}
		pos = after
		ws = append(ws, w)
	}
	buf := append([]byte{}, e.Bytes()...)
	if len(buf) != pos {
		bad("enc-len", "encoder length mismatch")
	}
	d := ofbase.NewDecoder(buf)
	for _, w := range ws {
		before := d.Offset()
		switch w.op {
		case "u8":
			if g := d.ReadUint8(); g != uint8(w.val) {
				bad("value:u8", fmt.Sprintf("ReadUint8 = %#x, wrote %#x", g, uint8(w.val)))
			}
		case "ch":
			if g := d.ReadByte(); g != byte(w.val>>8) {
				bad("value:char", fmt.Sprintf("ReadByte = %#x, PutChar wrote %#x", g, byte(w.val>>8)))
			}
		case "u16":
			if g := d.ReadUint16(); g != uint16(w.val) {
				bad("value:u16", fmt.Sprintf("ReadUint16 = %#x, wrote %#x", g, uint16(w.val)))
			}
		case "u32":
			if g := d.ReadUint32(); g != uint32(w.val) {
				bad("value:u32", fmt.Sprintf("ReadUint32 = %#x, wrote %#x", g, uint32(w.val)))
			}
		case "u64":
			if g := d.ReadUint64(); g != w.val {
				bad("value:u64", fmt.Sprintf("ReadUint64 = %#x, wrote %#x", g, w.val))
			}
		case "u128":
			if g := d.ReadUint128(); g.Hi != w.val || g.Lo != ^w.val+3 {
				bad("value:u128", fmt.Sprintf("ReadUint128 = %#x:%#x, wrote %#x:%#x", g.Hi, g.Lo, w.val, ^w.val+3))
			}
		case "w1":
			if g := d.ReadByte(); g != w.raw[0] {
				bad("value:byte", fmt.Sprintf("ReadByte = %#x, wrote %#x", g, w.raw[0]))
			}
		case "w3":
			if g := d.Read(3); !bytes.Equal(g, w.raw) {
				bad("value:read", fmt.Sprintf("Read(3) = % x, wrote % x", g, w.raw))
			}
		case "align":
			d.SkipAlign()
			want := (before + 7) / 8 * 8
			if d.Offset() != want {
				bad("dec-align", fmt.Sprintf("decoder SkipAlign at offset %d moved to %d, want %d", before, d.Offset(), want))
			}
			continue
		}
		if d.Offset()-before != c19Width(w.op) {
			bad("dec-width:"+w.op, fmt.Sprintf("decoder offset advanced by %d for %s", d.Offset()-before, w.op))
		}
	}
	if d.Length() != 0 || d.Offset() != len(buf) {
		bad("dec-end", fmt.Sprintf("after reading everything back Length() = %d, Offset() = %d of %d", d.Length(), d.Offset(), len(buf)))
	}
	return
}

// c19Slice: parent decoder over 64 pattern bytes with its own base; consume p, slice (l, rw),
// then operations inside the slice; optionally a slice of the slice.
func c19Slice(r *ev.Run, depth int, p0, p, l, rw, q, l2, rw2 int) {
	rep := map[string]any{"outer_prefix": p0, "prefix": p, "length": l, "rewind": rw, "inner_prefix": q, "length2": l2, "rewind2": rw2, "depth": depth}
	bad := func(clause, what string) {
		r.Violation(clause, fmt.Sprintf("%s (geometry %v)", what, rep), rep)
	}
	defer func() {
		if pn := recover(); pn != nil {
			bad("slice-panic", fmt.Sprintf("sliced decoder panicked: %v", pn))
		}
	}()
	buf := make([]byte, 96)
	for i := range buf {
		buf[i] = byte(i + 1)
	}
	top := ofbase.NewDecoder(buf)
	parent := top
	abs := 0 // absolute position of parent's buffer start in the message
	if depth >= 1 && p0 > 0 {
		// make the parent itself a sliced decoder starting at absolute offset p0
		top.Skip(p0)
		parent = top.SliceDecoder(80, 0)
		abs = p0
		if parent.BaseOffset() != p0 {
			bad("slice-base", fmt.Sprintf("BaseOffset() of a slice taken at offset %d is %d", p0, parent.BaseOffset()))
		}
	}
	parent.Skip(p)
	child := parent.SliceDecoder(l, rw)
	if parent.Offset() != p+l-rw {
		bad("slice-parent-offset", fmt.Sprintf("parent offset after SliceDecoder(%d,%d) at %d is %d, want %d", l, rw, p, parent.Offset(), p+l-rw))
	}
	if child.Length() != l-rw {
		bad("slice-length", fmt.Sprintf("child Length() = %d, want %d", child.Length(), l-rw))
	}
	cabs := abs + p
	if child.BaseOffset() != cabs {
		bad("slice-base", fmt.Sprintf("child BaseOffset() = %d, want %d", child.BaseOffset(), cabs))
	}
	check := func(d *ofbase.Decoder, dabs int, consumed int, avail int, tag string) {
		if consumed > avail {
			return
		}
		d.Skip(consumed)
		before := d.Offset()
		want := (dabs+before+7)/8*8 - dabs
		// also when the boundary lies behind the end of the slice (an element whose length field
		// excludes its padding): the skip is counted from the start of the message, not clipped
		d.SkipAlign()
		got := d.Offset()
		if got != want || got < before || got-before > 7 || (dabs+got)%8 != 0 {
			bad("slice-align"+tag, fmt.Sprintf("SkipAlign in a slice whose start is at absolute offset %d, at local offset %d, moved to %d; the next multiple of 8 from the start of the message is local %d", dabs, before, got, want))
		}
		if got < avail {
			if b := d.ReadUint8(); b != byte(dabs+got+1) {
				bad("slice-read"+tag, fmt.Sprintf("byte read after aligning is %#x, the message has %#x there", b, byte(dabs+got+1)))
			}
		}
	}
	if depth < 2 {
		check(child, cabs, q, l-rw, "")
		return
	}
	if q+l2-rw2 > l-rw || rw2 > l2 {
		return
	}
	child.Skip(q)
	g := child.SliceDecoder(l2, rw2)
	if child.Offset() != q+l2-rw2 {
		bad("slice2-parent-offset", "offset of the intermediate decoder after slicing is wrong")
	}
	gabs := cabs + q
	if g.BaseOffset() != gabs {
		bad("slice2-base", fmt.Sprintf("BaseOffset() of a slice of a slice = %d, want %d", g.BaseOffset(), gabs))
	}
	for c := 0; c <= 2 && c <= l2-rw2; c++ {
		gg := *g
		check(&gg, gabs, c, l2-rw2, "-nested")
	}
}

func c19Header(r *ev.Run) int {
	n := 0
	full := []byte{4, 14, 0x12, 0x34, 0xde, 0xad, 0xbe, 0xef, 1, 2, 3, 4}
	for l := 0; l <= len(full); l++ {
		for _, mode := range []string{"fresh", "advanced", "sliced", "skipped-past-the-end", "sliced-and-skipped-past-the-end"} {
			n++
			rep := map[string]any{"len": l, "mode": mode}
			func() {
				defer func() {
					if p := recover(); p != nil {
						r.Violation("header-panic:"+mode, fmt.Sprintf("Header.Decode panicked on %d remaining bytes (%s decoder): %v", l, mode, p), rep)
					}
				}()
				var d *ofbase.Decoder
				switch mode {
				case "fresh":
					d = ofbase.NewDecoder(append([]byte{}, full[:l]...))
				case "advanced":
					d = ofbase.NewDecoder(append([]byte{9, 9, 9}, full[:l]...))
					d.Skip(3)
				case "sliced":
					p := ofbase.NewDecoder(append([]byte{9, 9, 9, 9, 9}, append(append([]byte{}, full[:l]...), 7, 7)...))
					p.Skip(5)
					d = p.SliceDecoder(l, 0)
				case "skipped-past-the-end":
					// a length field that promised more than there is: Skip is unchecked, the decoder
					// stands l+1 bytes behind its end (fewer than 8 bytes left, by any count)
					d = ofbase.NewDecoder(append([]byte{}, full[:l]...))
					d.Skip(l + 1 + l%3)
				case "sliced-and-skipped-past-the-end":
					p := ofbase.NewDecoder(append(append([]byte{9, 9, 9}, full[:l]...), full...))
					p.Skip(3)
					d = p.SliceDecoder(l, 0)
					d.Skip(l + 2)
				}
				short := l < 8 || mode == "skipped-past-the-end" || mode == "sliced-and-skipped-past-the-end"
				var h ofbase.Header
				err := h.Decode(d)
				if short {
					if err == nil {
						r.Violation("header-short-no-error:"+mode, fmt.Sprintf("Header.Decode accepted %d bytes", l), rep)
					}
					return
				}
				if err != nil {
					r.Violation("header-error:"+mode, fmt.Sprintf("Header.Decode rejected %d bytes: %v", l, err), rep)
					return
				}
				if h.Version != 4 || h.Type != 14 || h.Length != 0x1234 || h.Xid != 0xdeadbeef {
					r.Violation("header-fields:"+mode, fmt.Sprintf("Header.Decode gave %+v", h), rep)
				}
			}()
		}
	}
	return n
}

// c19Raw: pre single bytes, a raw Write of n bytes, a raw Write of m bytes (if m > 0), PutUint32;
// the encoding must be exactly those bytes and the matching reads must return them.
func c19Raw(r *ev.Run, pre, n, m int) {
	pat := func(tag byte, k int) []byte {
		b := make([]byte, k)
		for i := range b {
			b[i] = tag ^ byte(i*7+i>>8)
		}
		return b
	}
	a, b2 := pat(0x11, n), pat(0x83, m)
	ac, bc := append([]byte{}, a...), append([]byte{}, b2...)
	var want []byte
	e := ofbase.NewEncoder()
	for i := 0; i < pre; i++ {
		e.PutUint8(uint8(0xc0 + i))
		want = append(want, byte(0xc0+i))
	}
	e.Write(a)
	want = append(want, ac...)
	if m > 0 {
		e.Write(b2)
		want = append(want, bc...)
	}
	e.PutUint32(0xfeedf00d)
	want = append(want, 0xfe, 0xed, 0xf0, 0x0d)
	rep := map[string]any{"raw_write": []int{pre, n, m}}
	desc := fmt.Sprintf("%d single bytes, Write(%d bytes), Write(%d bytes), PutUint32", pre, n, m)
	got := e.Bytes()
	if !bytes.Equal(got, want) {
		i := 0
		for i < len(got) && i < len(want) && got[i] == want[i] {
			i++
		}
		r.Violation("raw-write:bytes", fmt.Sprintf("%s encodes to %d bytes, %d were written; first difference at offset %d", desc, len(got), len(want), i), rep)
		return
	}
	if !bytes.Equal(a, ac) || !bytes.Equal(b2, bc) {
		r.Violation("raw-write:argument-changed", desc+": the slice given to Write was modified", rep)
		return
	}
	d := ofbase.NewDecoder(append([]byte{}, got...))
	for i := 0; i < pre; i++ {
		if d.ReadUint8() != uint8(0xc0+i) {
			r.Violation("raw-write:read", fmt.Sprintf("%s: prefix byte %d read back differently", desc, i), rep)
			return
		}
	}
	if g := d.Read(n); !bytes.Equal(g, ac) {
		r.Violation("raw-write:read", fmt.Sprintf("%s: Read(%d) does not return the bytes written", desc, n), rep)
		return
	}
	if m > 0 {
		if g := d.Read(m); !bytes.Equal(g, bc) {
			r.Violation("raw-write:read", fmt.Sprintf("%s: second Read(%d) does not return the bytes written", desc, m), rep)
			return
		}
	}
	if g := d.ReadUint32(); g != 0xfeedf00d || d.Length() != 0 {
		r.Violation("raw-write:read", fmt.Sprintf("%s: sentinel reads back as %#x with %d bytes left", desc, g, d.Length()), rep)
	}
}

func c19(r *ev.Run, replay string) {
	if replay != "" {
		var c struct {
			Ops     []string `json:"ops"`
			Variant uint64   `json:"variant"`
			Depth   *int     `json:"depth"`
			P0      int      `json:"outer_prefix"`
			P       int      `json:"prefix"`
			L       int      `json:"length"`
			Rw      int      `json:"rewind"`
			Q       int      `json:"inner_prefix"`
			L2      int      `json:"length2"`
			Rw2     int      `json:"rewind2"`
			Mode    string   `json:"mode"`
		Raw     *[3]int  `json:"raw_write"`
		}
		if err := ev.LoadReplay(replay, &c); err != nil {
			fmt.Println("cannot load replay:", err)
			return
		}
		switch {
		case c.Raw != nil:
			c19Raw(r, c.Raw[0], c.Raw[1], c.Raw[2])
		case c.Mode != "":
			c19Header(r)
		case c.Depth != nil:
			c19Slice(r, *c.Depth, c.P0, c.P, c.L, c.Rw, c.Q, c.L2, c.Rw2)
		default:
			var seq []int
			for _, o := range c.Ops {
				for i, a := range c19Alpha {
					if a == o {
						seq = append(seq, i)
					}
				}
			}
			c19Seq(r, seq, c.Variant)
		}
		r.Set("states", 1)
		return
	}
	depth := 5
	if r.Thorough() {
		depth = 7
	}
	var nseq, trans int64
	var rec func(seq []int)
	rec = func(seq []int) {
		if len(seq) > 0 {
			vs := c19Variants[:1]
			if len(seq) <= 4 || r.Thorough() {
				vs = c19Variants
			}
			for _, v := range vs {
				c19Seq(r, seq, v)
				nseq++
				trans += int64(2 * len(seq))
			}
			if nseq%4096 < 5 {
				names := make([]string, len(seq))
				for i, s := range seq {
					names[i] = c19Alpha[s]
				}
				r.Sample(map[string]any{"ops": names})
			}
		}
		if len(seq) == depth || r.Expired() {
			return
		}
		for a := range c19Alpha {
			rec(append(append([]int{}, seq...), a))
		}
	}
	rec(nil)
	if !r.Expired() {
		r.Completed(fmt.Sprintf("all write/read sequences of length <= %d over %v", depth, c19Alpha))
	}
	// complete value domains of the narrow primitives: every 8-bit value through PutChar, PutUint8
	// and a one-byte Write (read back with ReadByte and ReadUint8), every 16-bit value through PutUint16
	for v := 0; v < 256; v++ {
		for _, how := range []string{"PutChar", "PutUint8", "Write"} {
			e := ofbase.NewEncoder()
			switch how {
			case "PutChar":
				e.PutChar(byte(v))
			case "PutUint8":
				e.PutUint8(uint8(v))
			default:
				e.Write([]byte{byte(v)})
			}
			e.PutUint8(0xa5)
			b := e.Bytes()
			ok := len(b) == 2 && b[0] == byte(v) && b[1] == 0xa5
			if ok {
				d := ofbase.NewDecoder(append([]byte{}, b...))
				ok = d.ReadByte() == byte(v) && d.Offset() == 1 && d.ReadUint8() == 0xa5
			}
			nseq++
			if !ok {
				r.Violation("value-domain:"+how, fmt.Sprintf("%s(%#02x) followed by PutUint8(0xa5) encodes to % x", how, v, b), map[string]any{"ops": []string{"ch"}, "variant": uint64(v) << 8})
			}
		}
	}
	for v := 0; v < 65536; v++ {
		e := ofbase.NewEncoder()
		e.PutUint16(uint16(v))
		b := e.Bytes()
		nseq++
		if len(b) != 2 || b[0] != byte(v>>8) || b[1] != byte(v) || ofbase.NewDecoder(append([]byte{}, b...)).ReadUint16() != uint16(v) {
			r.Violation("value-domain:PutUint16", fmt.Sprintf("PutUint16(%#04x) encodes to % x", v, b), map[string]any{"ops": []string{"u16"}, "variant": uint64(v)})
		}
	}
	r.Completed("every 8-bit value through PutChar / PutUint8 / Write(1 byte), every 16-bit value through PutUint16")
	// raw writes of every size: the buffer behind the encoder has to grow by any amount in one step.
	// prefix bytes written one at a time, then one Write of n bytes, an optional second Write of m
	// bytes, a 32-bit sentinel; everything is read back in the same order.
	maxraw := 4200
	if r.Thorough() {
		maxraw = 70000
	}
	for _, pre := range []int{0, 1, 7, 8, 9, 63, 64, 65} {
		for n := 0; n <= maxraw; n++ {
			c19Raw(r, pre, n, 0)
			nseq++
		}
	}
	for _, pre := range []int{0, 3, 8} {
		for n := 0; n <= 300; n++ {
			for _, m := range []int{1, 2, 55, 56, 57, 64, 119, 120, 121, 128, 129, 255, 256, 257, 511, 513, 1025, 3000} {
				c19Raw(r, pre, n, m)
				nseq++
			}
		}
	}
	r.Completed(fmt.Sprintf("one raw Write of every size 0..%d behind 0,1,7,8,9,63,64,65 bytes; two raw Writes (0..300, then 18 sizes up to 3000) behind 0,3,8 bytes; each followed by a 32-bit sentinel and read back", maxraw))
	// slicing geometries
	var ngeo int64
	for p := 0; p <= 16; p++ {
		for l := 0; l <= 24; l++ {
			for rw := 0; rw <= l; rw++ {
				for q := 0; q <= l-rw && q <= 9; q++ {
					c19Slice(r, 0, 0, p, l, rw, q, 0, 0)
					ngeo++
					for _, p0 := range []int{1, 3, 4, 8, 13} {
						c19Slice(r, 1, p0, p, l, rw, q, 0, 0)
						ngeo++
					}
				}
			}
		}
	}
	r.Completed("single-level slices: prefix 0..16 x length 0..24 x rewind 0..length x inner offset, at top level and inside a slice starting at 1,3,4,8,13")
	maxp := 9
	if r.Thorough() {
		maxp = 12
	}
	for p0 := 0; p0 <= 5; p0++ {
		for p := 0; p <= maxp; p++ {
			for l := 4; l <= 24; l += 1 {
				for q := 0; q <= 6 && q <= l; q++ {
					for l2 := 1; l2 <= l-q && l2 <= 18; l2 += 1 {
						for _, rw2 := range []int{0, 1} {
							if rw2 > l2 {
								continue
							}
							d := 2
							c19Slice(r, d, p0, p, l, 0, q, l2, rw2)
							ngeo++
						}
					}
				}
			}
		}
	}
	r.Completed("slices of slices (depth 2 and, with an outer slice, depth 3) over all small geometries")
	nh := c19Header(r)
	r.Completed("Header.Decode on every truncation 0..12 with fresh, advanced and sliced decoders")
	r.Set("states", nseq+ngeo+int64(nh))
	r.Set("transitions", trans+ngeo*4+int64(nh))
	r.Set("traces_validated_against_impl", nseq+ngeo+int64(nh))
	r.Set("evaluations", nseq+ngeo+int64(nh))
	r.Set("distinct_nontrivial", nseq+ngeo)
	r.Set("rule", "every sequence / geometry enumerated once (all distinct by construction); values from a position-dependent pattern, last operation over 5 boundary variants")
	r.OutcomeN("sequences", nseq)
	r.OutcomeN("slice-geometries", ngeo)
	r.OutcomeN("header-inputs", int64(nh))
}
