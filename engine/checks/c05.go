//go:build verif

package checks

import (
	"bytes"
	"fmt"
	"reflect"

	of "github.com/contiv/libOpenflow/openflow13"
	"github.com/contiv/libOpenflow/util"

	"verif/bind"
	"verif/corpus"
	"verif/dump"
	"verif/ev"
	"verif/wire"
)

// C05: decoding the library's own encoding of a value gives back a value of the same kind with
// the same observable (exported) field values; encoding that result reproduces the bytes; the
// decoded element reports exactly its own extent, so that it can sit anywhere in a list followed by
// other elements. Decode routes: the dispatcher the library uses for the category, and a direct
// UnmarshalBinary into a zero receiver of the same type; top-level messages go through Parse.
func init() { Registry["C05"] = c05 }

type unmarshaler interface {
	UnmarshalBinary([]byte) error
}

// elemCase is one standalone element under test.
type elemCase struct {
	cat   string // action | instr | oxm | bucket
	model *wire.N
}

func (e elemCase) build() (lenEnc, error) {
	switch e.cat {
	case "action":
		return bind.BuildAction(e.model, bind.Hist{})
	case "instr":
		return bind.BuildInstr(e.model, bind.Hist{})
	case "oxm":
		f, _, err := bind.BuildOxm(e.model, 0)
		return f, err
	case "bucket":
		return bind.BuildBucket(e.model, bind.Hist{})
	}
	return nil, fmt.Errorf("unknown category")
}

// dispatch decodes through the library's own dispatcher for the category.
func (e elemCase) dispatch(b []byte) (v any, err error, panicked any) {
	defer func() {
		if p := recover(); p != nil {
			panicked = p
		}
	}()
	switch e.cat {
	case "action":
		v, err = of.DecodeAction(b)
	case "instr":
		in := of.DecodeInstr(b)
		if in == nil {
			return nil, fmt.Errorf("DecodeInstr returned nil"), nil
		}
		v = in
	case "oxm":
		f := new(of.MatchField)
		err = f.UnmarshalBinary(b)
		v = f
	case "bucket":
		k := new(of.Bucket)
		err = k.UnmarshalBinary(b)
		v = k
	}
	return
}

// direct decodes into a zero receiver of the same dynamic type as the original.
func directDecode(orig any, b []byte) (v any, err error, panicked any) {
	defer func() {
		if p := recover(); p != nil {
			panicked = p
		}
	}()
	t := reflect.TypeOf(orig)
	if t.Kind() != reflect.Ptr {
		return nil, fmt.Errorf("not a pointer type"), nil
	}
	nv := reflect.New(t.Elem()).Interface()
	u, ok := nv.(unmarshaler)
	if !ok {
		return nil, fmt.Errorf("type %s has no decoder", t), nil
	}
	err = u.UnmarshalBinary(b)
	return nv, err, nil
}

// Observable field values: exported fields, without the derived length fields (extent and
// re-encoding are compared separately) and transaction ids. A match-field payload is compared
// through its encoding (the library has two representations of the same payload: the generic
// builder yields a ByteArrayField, the decoder a typed field). A note compares modulo trailing
// zero bytes (the wire pads it with zeros, a decoder cannot tell them from the note).
var c05Dump = dump.Options{Normalise: true, ExportedOnly: true, Skip: map[string]bool{"Xid": true, "Length": true},
	FieldHook: func(st, f string, v reflect.Value) (string, bool) {
		if st == "MatchField" && (f == "Value" || f == "Mask") {
			if v.IsNil() {
				return "nil", true
			}
			if m, ok := v.Interface().(util.Message); ok {
				b, err := bind.SafeMarshal(m)
				if err != nil {
					return "unencodable", true
				}
				return fmt.Sprintf("payload:%x", b), true
			}
		}
		if v.Kind() == reflect.Interface && !v.IsNil() {
			if b, ok := v.Interface().(*util.Buffer); ok && (b == nil || b.Len() == 0) {
				return "nil", true // an empty payload buffer and no payload are the same value
			}
		}
		// a util.Buffer held by value (error data, IPv4 options) has no exported member: its content is
		// what it holds
		if v.Kind() == reflect.Struct && v.Type() == reflect.TypeOf(util.Buffer{}) {
			c := reflect.New(v.Type()).Elem()
			c.Set(v)
			return fmt.Sprintf("buffer:%x", c.Addr().Interface().(*util.Buffer).Bytes()), true
		}
		if st == "NXActionNote" && f == "Note" {
			b := v.Bytes()
			for len(b) > 0 && b[len(b)-1] == 0 {
				b = b[:len(b)-1]
			}
			return fmt.Sprintf("x%x", b), true
		}
		return "", false
	}}

// c05Compare checks the decoded value against the original (both already encoded once).
// It returns clause and message of the first disagreement ("" if none).
func c05Compare(orig lenEnc, b []byte, dec any, follower int) (string, string) {
	if dec == nil || (reflect.ValueOf(dec).Kind() == reflect.Ptr && reflect.ValueOf(dec).IsNil()) {
		return "nil", "decoder returned a nil value and no error"
	}
	if reflect.TypeOf(dec) != reflect.TypeOf(orig) {
		return "kind", fmt.Sprintf("decoded into a %T, the value was a %T", dec, orig)
	}
	d, ok := dec.(lenEnc)
	if !ok {
		return "kind", fmt.Sprintf("decoded value %T cannot be encoded", dec)
	}
	var b2 []byte
	var l2 uint16
	var err error
	var pn any
	func() {
		defer func() { pn = recover() }()
		l2 = d.Len()
		b2, err = d.MarshalBinary()
	}()
	if pn != nil {
		return "reencode-panic", fmt.Sprintf("re-encoding the decoded value panicked: %v", pn)
	}
	if err != nil {
		return "reencode-error", "re-encoding the decoded value failed: " + err.Error()
	}
	if int(l2) != len(b) {
		return "extent", fmt.Sprintf("the decoded value reports %d bytes, its encoding has %d (a list decoder would land %d bytes off the next element)", l2, len(b), int(l2)-len(b))
	}
	if !bytes.Equal(b2, b) {
		i := 0
		for i < len(b) && i < len(b2) && b[i] == b2[i] {
			i++
		}
		return "reencode", fmt.Sprintf("re-encoding the decoded value differs from the original bytes at offset %d: original %x, re-encoded %x", i, clipB(b, i), clipB(b2, i))
	}
	do, dd := dump.Dump(orig, c05Dump), dump.Dump(dec, c05Dump)
	if do != dd {
		return "fields", "exported field values differ: " + firstDiff(do, dd)
	}
	return "", ""
}

func clipB(b []byte, at int) []byte {
	lo, hi := at-4, at+12
	if lo < 0 {
		lo = 0
	}
	if hi > len(b) {
		hi = len(b)
	}
	if lo > hi {
		lo = hi
	}
	return b[lo:hi]
}

func firstDiff(a, b string) string {
	i := 0
	for i < len(a) && i < len(b) && a[i] == b[i] {
		i++
	}
	lo := i - 60
	if lo < 0 {
		lo = 0
	}
	ha, hb := i+60, i+60
	if ha > len(a) {
		ha = len(a)
	}
	if hb > len(b) {
		hb = len(b)
	}
	return fmt.Sprintf("original ...%s... decoded ...%s...", a[lo:ha], b[lo:hb])
}

// followers returns the byte strings placed after the element under test.
func c05Followers(self []byte, reps [][]byte) [][]byte {
	f := [][]byte{nil, make([]byte, 8), bytes.Repeat([]byte{0xff}, 8), self}
	return append(f, reps...)
}

func elemName(e elemCase) string {
	if e.cat == "oxm" {
		return "oxm:" + oxmName(e.model)
	}
	return e.model.K
}

func c05Elem(r *ev.Run, e elemCase, reps [][]byte) {
	name := elemName(e)
	if hasUndecodableOxm(e.model) {
		r.Add("skipped_unsupported_match_field", 1)
		return
	}
	v, err := e.build()
	if err != nil || v == nil {
		r.Add("not_buildable_through_api", 1)
		return
	}
	b, err, pn := safeEncodeLE(v)
	if pn != nil || err != nil || len(b) == 0 {
		r.Add("not_encodable", 1)
		return
	}
	b = append([]byte{}, b...)
	for fi, f := range c05Followers(b, reps) {
		in := append(append([]byte{}, b...), f...)
		for _, route := range []string{"dispatch", "direct"} {
			r.Add("transitions", 3)
			var dec any
			var derr error
			var dpn any
			if route == "dispatch" {
				dec, derr, dpn = e.dispatch(in)
			} else {
				dec, derr, dpn = directDecode(v, in)
			}
			rep := map[string]any{"category": e.cat, "element": e.model, "follower_index": fi, "follower_hex": ev.Hex(f), "route": route, "bytes_hex": ev.Hex(b)}
			fol := "alone"
			if fi > 0 {
				fol = "followed"
			}
			bad := func(clause, what string) {
				r.Outcome("differs")
				r.Violation(clause+":"+name+":"+route+":"+fol, fmt.Sprintf("%s (%s, route %s, follower %d: %x) for %s", what, name, route, fi, clipB(f, 0), shortModel(e.model)), rep)
			}
			switch {
			case dpn != nil:
				bad("decode-panic", fmt.Sprintf("decoding its own encoding panicked: %v", dpn))
			case derr != nil:
				bad("decode-error", "decoding its own encoding failed: "+derr.Error())
			default:
				if clause, what := c05Compare(v, b, dec, fi); clause != "" {
					bad(clause, what)
				} else {
					r.Outcome("round-trip:" + e.cat + ":" + fol)
				}
			}
		}
	}
}

func safeEncodeLE(m lenEnc) (b []byte, err error, panicked any) {
	defer func() {
		if r := recover(); r != nil {
			panicked = r
		}
	}()
	b, err = m.MarshalBinary()
	return
}

// parseable reports whether Parse has a decoder for the message type code.
var c05Parseable = map[string]bool{"hello": true, "error": true, "error_exp": true, "echo_request": true, "echo_reply": true, "experimenter": true,
	"features_request": true, "features_reply": true, "get_config_request": true, "get_config_reply": true, "set_config": true,
	"packet_in": true, "flow_removed": true, "port_status": true, "flow_mod": true, "multipart_request": true, "multipart_reply": true,
	"barrier_request": true, "barrier_reply": true}

// c05Msg round-trips a top-level message: through Parse when Parse handles the type, and directly
// into a zero receiver of the same type; and once more embedded in a bundle-add through Parse.
func c05Msg(r *ev.Run, n *wire.N, what string) {
	if hasUndecodableOxm(n) {
		r.Add("skipped_unsupported_match_field", 1)
		return
	}
	if corpus.HasUnequalMask(n) {
		r.Add("skipped_mask_width_differs_from_value_width", 1) // not a two-way value: the wire splits a masked payload in the middle
		return
	}
	if inner := innermost(n); !c05Parseable[inner.K] && inner != n {
		r.Add("skipped_bundle_of_kind_parse_does_not_decode", 1)
		return
	}
	if n.K == "error" && n.U["Type"] == 0xffff {
		return // type 0xffff is the experimenter error: a different kind, generated separately
	}
	if n.K == "port_mod" && len(n.B["HWAddr"]) != 6 {
		r.Add("skipped_port_mod_with_an_address_the_wire_cannot_hold", 1) // not a two-way value: the wire has six bytes
		return
	}
	if n.K == "packet_in" && len(n.B["Data"]) == 0 {
		r.Add("skipped_packet_in_without_payload", 1) // not representable: the payload is an Ethernet value
		return
	}
	// delete commands carry no instructions / buckets on the wire (the library's Len() defines this)
	n = expectedTree(n)
	m, err, pn := safeBuild(n, bind.Hist{})
	if pn != nil || err != nil || m == nil {
		// kinds without constructors/adders (stats replies, Nicira replies, decode-only actions): the
		// value to round-trip is the one the parser makes of the reference encoding
		f, _ := wire.Encode(n)
		pm, perr, ppn := safeParse(f)
		if ppn != nil || perr != nil || pm == nil || len(f) > 65535 {
			r.Add("not_buildable_through_api", 1)
			r.Add("not_buildable:"+rootSig(n), 1)
			return
		}
		m = pm
		what += ", value obtained by parsing the reference encoding"
		r.Add("values_obtained_from_parser", 1)
		// a reply with several records is put together from the records of one-record replies, parsed
		// one by one: the number of records in the value then does not depend on the decoder that is
		// about to be tested on it
		if recs := n.L["Body"]; n.K == "multipart_reply" && len(recs) >= 2 {
			if mr, ok := pm.(*of.MultipartReply); ok {
				var body []util.Message
				for _, rec := range recs {
					one := n.Clone()
					one.SetL("Body", []*wire.N{rec.Clone()})
					f1, _ := wire.Encode(one)
					p1, e1, pn1 := safeParse(f1)
					r1, ok1 := p1.(*of.MultipartReply)
					if pn1 != nil || e1 != nil || !ok1 || len(r1.Body) != 1 {
						body = nil
						break
					}
					body = append(body, r1.Body[0])
				}
				if body != nil {
					mr.Body = body
					what += ", records taken from one-record replies"
					r.Add("replies_assembled_from_single_records", 1)
				}
			}
		}
	}
	b, err, pn := safeEncode(m)
	if pn != nil || err != nil || len(b) < 8 {
		r.Add("not_encodable", 1)
		return
	}
	b = append([]byte{}, b...)
	root := rootSig(n)
	rep := shapeCase{Model: n.String(), Tree: n}
	// Parse picks the receiver for the kinds it decodes; packet-out, group-mod and port-mod have a
	// decoder but no case in Parse: they are decoded into the receiver their constructor makes.
	routes := []string{"constructor-receiver"}
	if c05Parseable[n.K] {
		routes = []string{"parse"}
	}
	for _, route := range routes {
		r.Add("transitions", 3)
		var dec any
		var derr error
		var dpn any
		in := append([]byte{}, b...)
		if route == "parse" {
			dec, derr, dpn = safeParse(in)
		} else {
			dec, derr, dpn = ctorDecode(n.K, in)
		}
		bad := func(clause, msg string) {
			r.Outcome("differs")
			r.Violation(clause+":"+root+":"+route, msg+" (route "+route+what+") for "+shortModel(n), rep)
		}
		switch {
		case dpn != nil:
			bad("decode-panic", fmt.Sprintf("decoding its own encoding panicked: %v", dpn))
		case derr != nil:
			bad("decode-error", "decoding its own encoding failed: "+derr.Error())
		default:
			if clause, msg := c05Compare(m.(lenEnc), b, dec, 0); clause != "" {
				if clause == "fields" || clause == "reencode" {
					// name the first differing field through the model extractors when possible
					if dm, ok := dec.(util.Message); ok {
						if g, e := safeExtract(dm); e == nil {
							if w, e2 := safeExtract(m); e2 == nil {
								if d := wire.Diff(normaliseParsed(w), normaliseParsed(g)); d != "" {
									clause += "/" + locus(d)
									msg += " [" + d + "]"
								}
							}
						}
					}
				}
				bad(clause, msg)
			} else {
				r.Outcome("round-trip:msg:" + route)
			}
		}
	}
}

func c05(r *ev.Run, replay string) {
	if replay != "" {
		var c struct {
			Tree     *wire.N `json:"tree"`
			Category string  `json:"category"`
			Element  *wire.N `json:"element"`
		}
		ev.LoadReplay(replay, &c)
		switch {
		case c.Tree != nil:
			c05Msg(r, c.Tree, "")
		case c.Element != nil:
			c05Elem(r, elemCase{c.Category, c.Element}, c05Reps(c.Category))
		}
		r.Set("states", 1)
		return
	}
	var elems, msgs int64
	run := func(e elemCase) {
		elems++
		c05Elem(r, e, c05Reps(e.cat))
	}
	for _, a := range corpus.ExtActions(r.Thorough()) {
		run(elemCase{"action", a})
	}
	for _, f := range corpus.AllMatchFields() {
		run(elemCase{"oxm", f})
	}
	arep := corpus.ActionsRep()
	for _, k := range corpus.InstrKinds {
		run(elemCase{"instr", corpus.Instr(k, 1)})
		for _, a := range arep {
			run(elemCase{"instr", corpus.Instr(k, 2, a.Clone(), corpus.Action("act_output", 1))})
		}
	}
	run(elemCase{"bucket", corpus.Bucket(1)})
	for _, a := range arep {
		run(elemCase{"bucket", corpus.Bucket(2, a.Clone())})
		run(elemCase{"bucket", corpus.Bucket(3, a.Clone(), corpus.Action("act_output", 2))})
	}
	r.Completed("E1 every action of the extended alphabet, every decodable match field (unmasked/masked), every instruction kind x residue actions, buckets: 2 decode routes x followers {none, 8x00, 8xff, itself, one encoding per size residue}")
	// single-field value alphabets on elements
	for _, cat := range []struct {
		cat  string
		base []*wire.N
	}{{"action", corpus.ExtActions(false)}, {"oxm", corpus.AllMatchFields()}} {
		seen := map[string]bool{}
		for _, base := range cat.base {
			// one base per structure (kind, optional members present, nested kinds), values aside
			key := structureKey(base)
			if seen[key] || r.Expired() {
				continue
			}
			seen[key] = true
			corpus.Variations(base, func(t *wire.N) []wire.Mark {
				if cat.cat == "oxm" {
					_, m := wire.EncodeWith(t, wire.Oxm)
					return m
				}
				_, m := wire.EncodeWith(t, wire.Action)
				return m
			}, r.Seed, func(t *wire.N, what string) {
				elems++
				c05Elem(r, elemCase{cat.cat, t}, nil)
			})
		}
	}
	if !r.Expired() {
		r.Completed("E2 every scalar / fixed-width field of one base element per action kind and match field varied alone over its value alphabet")
	}
	// messages
	mrun := func(n *wire.N) {
		if modelSize(n) > 65535 {
			return
		}
		msgs++
		if msgs&(msgs-1) == 0 {
			r.Sample(corpus.Label(n))
		}
		c05Msg(r, n, "")
	}
	corpus.Controller(r.Thorough(), r.Expired, func(name string, complete bool) {
		if complete {
			r.Completed(name)
		} else {
			r.Incomplete(name)
		}
	}, mrun)
	corpus.Switch(r.Thorough(), r.Expired, func(name string, complete bool) {
		if complete {
			r.Completed(name)
		} else {
			r.Incomplete(name)
		}
	}, mrun)
	var nvar int64
	selC, selS := baseSelector{max: 2048}, baseSelector{max: 2048}
	corpus.Controller(false, func() bool { return false }, func(string, bool) {}, selC.offer)
	corpus.Switch(false, func() bool { return false }, func(string, bool) {}, selS.offer)
	hand := append(c04Bases(), c05ControllerBases()...)
	r.Set("variation_bases", len(hand)+len(selC.bases)+len(selS.bases))
	for _, base := range hand {
		if r.Expired() {
			r.Incomplete("V1 single-field value alphabets on messages")
			break
		}
		corpus.Variations(base, func(t *wire.N) []wire.Mark { _, m := wire.Encode(t); return m }, r.Seed, func(t *wire.N, what string) {
			nvar++
			c05Msg(r, t, ", varied "+what)
		})
	}
	n1, ok1 := selC.vary(r.Seed, r.Expired, func(t *wire.N, what string) { c05Msg(r, t, ", varied "+what) })
	n2, ok2 := selS.vary(r.Seed, r.Expired, func(t *wire.N, what string) { c05Msg(r, t, ", varied "+what) })
	nvar += n1 + n2
	{
		p1, okp1 := selC.varyPairs(r.Expired, func(t *wire.N, what string) { c05Msg(r, t, ", varied "+what) })
		p2, okp2 := selS.varyPairs(r.Expired, func(t *wire.N, what string) { c05Msg(r, t, ", varied "+what) })
		nvar += p1 + p2
		r.Set("same_element_pair_variations", p1+p2)
		if okp1 && okp2 {
			r.Completed("V1b every pair of scalar fields of one element set to {0, 1, largest, largest-2} x {0, 1, largest, largest-2}")
		} else {
			r.Incomplete("V1b same-element field pairs")
		}
	}
	if ok1 && ok2 && !r.Expired() {
		r.Completed(fmt.Sprintf("V1 every scalar / fixed-width field (match-field values and masks included) varied alone over its value alphabet: all fields of %d hand-picked base messages, and each (root kind, element kind, field) of both corpora in the first of %d messages that shows it", len(hand), len(selC.bases)+len(selS.bases)))
	} else {
		r.Incomplete("V1 single-field value alphabets on messages")
	}
	recs := c05Records(r)
	r.Completed("R1 every stats record and request body type (desc, aggregate, table, port, queue, flow stats; flow/aggregate/port/queue requests; port description) with pattern values: alone, followed, and 1..3 inside a multipart message through Parse")
	elems += recs
	r.Set("states", elems+msgs+nvar)
	r.Set("element_states", elems)
	r.Set("message_states", msgs)
	r.Set("value_states", nvar)
	r.Set("traces_validated_against_impl", elems+msgs+nvar)
	r.Set("evaluations", r.Counter("transitions")/3)
	r.Set("rule", "a state is a library value built through the API from a model tree; it is encoded, decoded through each route (with each follower for elements), compared (type, exported fields, extent) and re-encoded")
	r.Assume("match fields the library has no decoder for (fixed list in checks/c04.go) and kinds that cannot be built through the API are not two-way kinds")
	r.Assume("followers apply to list elements; a top-level message is always handed to the parser as exactly one frame (the stream de-frames by header length)")
}

// innermost follows bundle-add nesting down to the embedded message.
func innermost(n *wire.N) *wire.N {
	for n.K == "experimenter" && n.S["VendorData"] != nil && n.S["VendorData"].K == "bundle_add" && n.S["VendorData"].S["Message"] != nil {
		n = n.S["VendorData"].S["Message"]
	}
	return n
}

// ctorDecode decodes into the receiver the kind's constructor makes.
func ctorDecode(kind string, b []byte) (v any, err error, panicked any) {
	defer func() {
		if p := recover(); p != nil {
			panicked = p
		}
	}()
	var u unmarshaler
	switch kind {
	case "packet_out":
		u = of.NewPacketOut()
	case "group_mod":
		u = of.NewGroupMod()
	case "port_mod":
		u = of.NewPortMod(0)
	default:
		return nil, fmt.Errorf("kind %s has neither a case in Parse nor a constructor-made receiver", kind), nil
	}
	err = u.UnmarshalBinary(b)
	return u, err, nil
}

// c05Reps returns one encoding per size residue for the category (followers).
func c05Reps(cat string) [][]byte {
	var out [][]byte
	switch cat {
	case "action":
		for _, a := range corpus.ActionsRep() {
			if v, err := bind.BuildAction(a, bind.Hist{}); err == nil {
				if b, err := v.MarshalBinary(); err == nil {
					out = append(out, b)
				}
			}
		}
	case "oxm":
		for _, f := range corpus.MatchRep() {
			if hasUndecodableOxm(f) {
				continue
			}
			if v, _, err := bind.BuildOxm(f, 0); err == nil {
				if b, err := v.MarshalBinary(); err == nil {
					out = append(out, b)
				}
			}
		}
	case "instr":
		for _, k := range []string{"instr_goto_table", "instr_write_metadata"} {
			if v, err := bind.BuildInstr(corpus.Instr(k, 1), bind.Hist{}); err == nil {
				if b, err := v.MarshalBinary(); err == nil {
					out = append(out, b)
				}
			}
		}
	case "bucket":
		if v, err := bind.BuildBucket(corpus.Bucket(1, corpus.Action("act_output", 1)), bind.Hist{}); err == nil {
			if b, err := v.MarshalBinary(); err == nil {
				out = append(out, b)
			}
		}
	}
	return out
}

// c05ControllerBases: one base message per controller-originated kind for the value enumeration.
func c05ControllerBases() []*wire.N {
	m2 := corpus.Match(corpus.OxmByName("OXM_OF_IN_PORT", false, 1), corpus.OxmByName("OXM_OF_ETH_DST", true, 2))
	acts := []*wire.N{corpus.Action("act_output", 1), corpus.Action("nx_reg_load", 2)}
	return []*wire.N{
		corpus.FlowMod(0, m2.Clone(), corpus.Instr("instr_apply_actions", 1, acts...), corpus.Instr("instr_goto_table", 2)),
		corpus.GroupMod(0, 1, corpus.Bucket(1, corpus.Action("act_output", 1)), corpus.Bucket(2, corpus.Action("act_group", 2))),
		corpus.PacketOut(corpus.EthFrame("arp"), true, corpus.Action("act_output", 1)),
		corpus.PortMod(),
		corpus.SetConfig("set_config"),
		corpus.MultipartRequest(1, m2.Clone()),
		corpus.MultipartRequest(2, m2.Clone()),
		corpus.MultipartRequest(4, nil),
		corpus.MultipartRequest(5, nil),
	}
}

// ---- stats records and request bodies built directly from the library's types ------------------

// fillPattern sets every exported integer field and every allocated byte slice of *p to distinct
// pattern values (rotation rot).
func fillPattern(p any, rot int) {
	v := reflect.ValueOf(p).Elem()
	k := rot
	var fill func(v reflect.Value)
	fill = func(v reflect.Value) {
		switch v.Kind() {
		case reflect.Struct:
			for i := 0; i < v.NumField(); i++ {
				f := v.Field(i)
				if v.Type().Field(i).PkgPath != "" || !f.CanSet() {
					continue
				}
				if v.Type().Field(i).Name == "Length" || v.Type().Field(i).Name == "Match" || v.Type().Field(i).Name == "Instructions" {
					continue
				}
				fill(f)
			}
		case reflect.Uint8, reflect.Uint16, reflect.Uint32, reflect.Uint64:
			k++
			v.SetUint(corpus.PatU(int(v.Type().Size()), k))
		case reflect.Slice:
			if v.Type().Elem().Kind() == reflect.Uint8 && v.Len() > 0 {
				k++
				for i := 0; i < v.Len(); i++ {
					v.Index(i).SetUint(uint64(byte(i*3 + k*17 + 1)))
				}
			}
		}
	}
	fill(v)
}

type recordKind struct {
	name string
	mk   func() lenEnc // constructor-made (or new(T) when the library has no constructor)
	mp   uint16        // multipart type, 0xfffe when not a reply record
	req  bool
}

var c05RecordKinds = []recordKind{
	{"DescStats", func() lenEnc { return of.NewDescStats() }, of.MultipartType_Desc, false},
	{"AggregateStats", func() lenEnc { return of.NewAggregateStats() }, of.MultipartType_Aggregate, false},
	{"TableStats", func() lenEnc { return of.NewTableStats() }, of.MultipartType_Table, false},
	{"PortStats", func() lenEnc { return of.NewPortStats() }, of.MultipartType_Port, false},
	{"QueueStats", func() lenEnc { return new(of.QueueStats) }, of.MultipartType_Queue, false},
	{"FlowStats", func() lenEnc { return of.NewFlowStats() }, of.MultipartType_Flow, false},
	{"FlowStatsRequest", func() lenEnc { return of.NewFlowStatsRequest() }, of.MultipartType_Flow, true},
	{"AggregateStatsRequest", func() lenEnc { return of.NewAggregateStatsRequest() }, of.MultipartType_Aggregate, true},
	{"PortStatsRequest", func() lenEnc { return of.NewPortStatsRequest() }, of.MultipartType_Port, true},
	{"QueueStatsRequest", func() lenEnc { return of.NewQueueStatsRequest() }, of.MultipartType_Queue, true},
	{"PhyPort", func() lenEnc { return of.NewPhyPort() }, 0xfffe, false},
}

// c05Records round-trips each record kind: alone into a constructor-made receiver and into a
// zero receiver, followed by a second record, and 1..3 of them inside a multipart message through Parse.
func c05Records(r *ev.Run) int64 {
	var n int64
	for _, k := range c05RecordKinds {
		for rot := 0; rot < 3; rot++ {
			v := k.mk()
			fillPattern(v, rot*5)
			if fs, ok := v.(*of.FlowStats); ok {
				fs.Length = fs.Len()
			}
			b, err, pn := safeEncodeLE(v)
			if pn != nil || err != nil {
				r.Violation("encode:"+k.name, fmt.Sprintf("encoding a %s failed: %v %v", k.name, err, pn), map[string]any{"record": k.name, "rot": rot})
				continue
			}
			b = append([]byte{}, b...)
			for fi, f := range [][]byte{nil, make([]byte, 8), b} {
				for _, route := range []string{"constructor-receiver", "zero-receiver"} {
					n++
					r.Add("transitions", 3)
					in := append(append([]byte{}, b...), f...)
					var dec any
					var derr error
					var dpn any
					if route == "zero-receiver" {
						if k.name != "FlowStats" && k.name != "AggregateStats" && k.name != "QueueStats" {
							continue // the library itself only makes zero receivers for these (MultipartReply); others come from constructors
						}
						dec, derr, dpn = directDecode(v, in)
					} else {
						func() {
							defer func() { dpn = recover() }()
							u := k.mk().(unmarshaler)
							derr = u.UnmarshalBinary(in)
							dec = u
						}()
					}
					rep := map[string]any{"record": k.name, "rot": rot, "route": route, "follower_index": fi, "bytes_hex": ev.Hex(b)}
					bad := func(clause, what string) {
						r.Outcome("differs")
						r.Violation(clause+":"+k.name+":"+route, fmt.Sprintf("%s (%s, route %s, follower %d)", what, k.name, route, fi), rep)
					}
					switch {
					case dpn != nil:
						bad("decode-panic", fmt.Sprintf("decoding its own encoding panicked: %v", dpn))
					case derr != nil:
						bad("decode-error", "decoding its own encoding failed: "+derr.Error())
					default:
						if clause, what := c05Compare(v, b, dec, fi); clause != "" {
							bad(clause, what)
						} else {
							r.Outcome("round-trip:record")
						}
					}
				}
			}
			if k.mp == 0xfffe {
				continue
			}
			// inside a multipart message, through Parse
			for cnt := 1; cnt <= 3; cnt++ {
				if (k.req || k.name == "DescStats" || k.name == "AggregateStats") && cnt > 1 {
					break
				}
				n++
				var m lenEnc
				if k.req {
					m = &of.MultipartRequest{Header: of.NewOfp13Header(), Type: k.mp, Body: v.(util.Message)}
					m.(*of.MultipartRequest).Header.Type = of.Type_MultiPartRequest
				} else {
					rp := &of.MultipartReply{Header: of.NewOfp13Header(), Type: k.mp}
					rp.Header.Type = of.Type_MultiPartReply
					for i := 0; i < cnt; i++ {
						rp.Body = append(rp.Body, v.(util.Message))
					}
					m = rp
				}
				mb, err, pn := safeEncodeLE(m)
				rep := map[string]any{"record": k.name, "rot": rot, "count": cnt, "route": "parse"}
				if pn != nil || err != nil {
					r.Violation("encode:multipart:"+k.name, fmt.Sprintf("encoding a multipart message of %d %s failed: %v %v", cnt, k.name, err, pn), rep)
					continue
				}
				mb = append([]byte{}, mb...)
				dec, derr, dpn := safeParse(append([]byte{}, mb...))
				bad := func(clause, what string) {
					r.Outcome("differs")
					r.Violation(clause+":multipart:"+k.name+":parse", fmt.Sprintf("%s (multipart message with %d x %s through Parse)", what, cnt, k.name), rep)
				}
				switch {
				case dpn != nil:
					bad("decode-panic", fmt.Sprintf("parsing its own encoding panicked: %v", dpn))
				case derr != nil:
					bad("decode-error", "parsing its own encoding failed: "+derr.Error())
				default:
					if clause, what := c05Compare(m, mb, dec, 0); clause != "" {
						bad(clause, what)
					} else {
						r.Outcome("round-trip:record-in-multipart")
					}
				}
			}
		}
	}
	return n
}
