//go:build verif

// Package checks holds one file per property.
package checks

import (
	"fmt"
	"os"

	"verif/ev"
)

// Registry maps property ids to their check. replay, when non-empty, is a replay file: the
// check re-executes only that case.
var Registry = map[string]func(r *ev.Run, replay string){}

// Workers maps property ids to the worker-side entry point of checks that shard their
// enumeration over subprocesses (see shard.go).
var Workers = map[string]func(w *Worker){}

func RunWorker(id, tier string, args []string) {
	f := Workers[id]
	if f == nil {
		fmt.Fprintln(os.Stderr, "check has no worker mode:", id)
		os.Exit(3)
	}
	w := newWorker(id, tier, args)
	f(w)
	w.finish()
}
