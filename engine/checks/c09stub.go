//go:build verif

package checks

import "verif/ev"

func packetSizes(r *ev.Run, ret *retained) int64 { return 0 }

func c13Packets(r *ev.Run, depth int) (subjects, seqs int64) { return 0, 0 }
