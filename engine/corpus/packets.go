package corpus

import (
	"verif/wire"
)

// Packet corpus: well-formed packet-header trees (kinds of engine/pkt) with every field within
// its bit width and all length/count fields consistent with the parts present.

func Opaque(n int) *wire.N { return wire.New("opaque").SetB("Data", Payload(n)) }

func size(n *wire.N, enc func(*wire.N) []byte) int { return len(enc(n)) }

// PktEncoder is set by the checks (engine/pkt.Encode) so that the corpus can compute sizes without
// importing the encoder's package cyclically.
var PktEncoder func(*wire.N) []byte

func pktLen(n *wire.N) int {
	if n == nil {
		return 0
	}
	return len(PktEncoder(n))
}

func Vlan(pcp, dei, vid uint64) *wire.N {
	return wire.New("vlan").Set("TPID", 0x8100).Set("PCP", pcp).Set("DEI", dei).Set("VID", vid)
}

func Eth(vlan *wire.N, etype uint64, payload *wire.N) *wire.N {
	n := wire.New("eth").SetB("HWDst", Pat(6, 1)).SetB("HWSrc", Pat(6, 2)).Set("Ethertype", etype)
	if vlan != nil {
		n.SetS("VLAN", vlan)
	}
	if payload != nil {
		n.SetS("Data", payload)
	}
	return n
}

func Arp(op uint64) *wire.N {
	return wire.New("arp").Set("HWType", 1).Set("ProtoType", 0x800).Set("HWLength", 6).Set("ProtoLength", 4).Set("Operation", op).
		SetB("HWSrc", Pat(6, 3)).SetB("IPSrc", Pat(4, 4)).SetB("HWDst", Pat(6, 5)).SetB("IPDst", Pat(4, 6))
}

// ArpHW is an ARP packet for a link layer whose addresses are hl bytes long (Ethernet 6, IEEE 1394
// 8, InfiniBand 20, Frame Relay 2..4; the field is 8 bits wide).
func ArpHW(op uint64, hwType uint64, hl int) *wire.N {
	return wire.New("arp").Set("HWType", hwType).Set("ProtoType", 0x800).Set("HWLength", uint64(hl)).Set("ProtoLength", 4).Set("Operation", op).
		SetB("HWSrc", Pat(hl, 3)).SetB("IPSrc", Pat(4, 4)).SetB("HWDst", Pat(hl, 5)).SetB("IPDst", Pat(4, 6))
}

// IPv4 with optLen bytes of options (multiple of 4, <= 40).
func IPv4(proto uint64, optLen int, payload *wire.N) *wire.N {
	n := wire.New("ipv4").Set("Version", 4).Set("IHL", uint64(5+optLen/4)).Set("DSCP", 0x2e).Set("ECN", 1).
		Set("Id", PatU(2, 3)).Set("Flags", 2).Set("FragmentOffset", 0).Set("TTL", 64).Set("Protocol", proto).Set("Checksum", PatU(2, 5)).
		SetB("NWSrc", Pat(4, 6)).SetB("NWDst", Pat(4, 7))
	if optLen > 0 {
		n.SetB("Options", Pat(optLen, 9))
	}
	if payload != nil {
		n.SetS("Data", payload)
	}
	n.Set("Length", uint64(20+optLen+pktLen(payload)))
	return n
}

func Icmp(typ uint64, dataLen int) *wire.N {
	return wire.New("icmp").Set("Type", typ).Set("Code", 0).Set("Checksum", PatU(2, 1)).SetB("Data", Payload(dataLen))
}

func Udp(dataLen int) *wire.N {
	return wire.New("udp").Set("PortSrc", 1024).Set("PortDst", 53).Set("Length", uint64(8+dataLen)).Set("Checksum", PatU(2, 2)).SetB("Data", Payload(dataLen))
}

func Tcp(dataLen int) *wire.N {
	return wire.New("tcp").Set("PortSrc", 1024).Set("PortDst", 80).Set("SeqNum", PatU(4, 1)).Set("AckNum", PatU(4, 2)).Set("HdrLen", 5).Set("Code", 0x12).
		Set("WinSize", PatU(2, 3)).Set("Checksum", PatU(2, 4)).Set("UrgFlag", 0).SetB("Data", Payload(dataLen))
}

func Option(typ uint64, dataLen int) *wire.N {
	return wire.New("option").Set("Type", typ).Set("Length", uint64(dataLen)).SetB("Data", Pat(dataLen, int(typ)))
}

// Hbh builds a hop-by-hop header whose options fill it exactly (sizes must sum to 6 mod 8).
func Hbh(next uint64, opts ...*wire.N) *wire.N {
	total := 2
	for _, o := range opts {
		total += 2 + int(o.U["Length"])
	}
	n := wire.New("hbh").Set("NextHeader", next).Set("HEL", uint64((total+7)/8-1))
	if len(opts) > 0 {
		n.SetL("Options", opts)
	}
	return n
}

func Routing(next uint64, hel int) *wire.N {
	return wire.New("routing").Set("NextHeader", next).Set("HEL", uint64(hel)).Set("RoutingType", 0).Set("SegmentsLeft", uint64(hel/2)).SetB("Data", Pat(8*(hel+1)-4, 3))
}

func Fragment(next uint64, off uint64, more uint64) *wire.N {
	return wire.New("fragment").Set("NextHeader", next).Set("Reserved", 0).Set("FragmentOffset", off).Set("MoreFragments", more).Set("Identification", PatU(4, 7))
}

// IPv6 chains the extension headers in the given order and ends in final (a next-header number)
// with the payload. The NextHeader fields of the given extension headers are overwritten to link
// the chain.
func IPv6(exts []*wire.N, final uint64, payload *wire.N) *wire.N {
	n := wire.New("ipv6").Set("Version", 6).Set("TrafficClass", 0xb8).Set("FlowLabel", 0x12345).Set("HopLimit", 64).
		SetB("NWSrc", Pat(16, 1)).SetB("NWDst", Pat(16, 2))
	code := map[string]uint64{"hbh": 0, "routing": 43, "fragment": 44}
	next := final
	for i := len(exts) - 1; i >= 0; i-- {
		exts[i].Set("NextHeader", next)
		next = code[exts[i].K]
	}
	n.Set("NextHeader", next)
	if len(exts) > 0 {
		n.SetL("Ext", exts)
	}
	if payload != nil {
		n.SetS("Data", payload)
	}
	l := pktLen(payload)
	for _, x := range exts {
		l += pktLen(x)
	}
	n.Set("Length", uint64(l))
	return n
}

func IP4(rot int) *wire.N { return wire.New("ip").SetB("IP", Pat(4, rot)) }

func Igmp12(typ uint64, maxResp uint64) *wire.N {
	return wire.New("igmp12").Set("Type", typ).Set("MaxResponseTime", maxResp).Set("Checksum", PatU(2, 1)).SetB("GroupAddress", []byte{224, 0, 0, 22})
}

func Igmp3Query(nsrc int, s, qrv uint64) *wire.N {
	n := wire.New("igmp3q").Set("Type", 0x11).Set("MaxResponseTime", 100).Set("Checksum", PatU(2, 2)).SetB("GroupAddress", []byte{239, 1, 2, 3}).
		Set("SuppressRouterProcessing", s).Set("RobustnessValue", qrv).Set("IntervalTime", 125).Set("NumberOfSources", uint64(nsrc))
	for i := 0; i < nsrc; i++ {
		n.Add("SourceAddresses", IP4(i+1))
	}
	return n
}

func GroupRec(typ uint64, nsrc int) *wire.N {
	n := wire.New("grouprec").Set("Type", typ).Set("AuxDataLen", 0).Set("NumberOfSources", uint64(nsrc)).SetB("MulticastAddress", []byte{239, 9, 8, 7})
	for i := 0; i < nsrc; i++ {
		n.Add("SourceAddresses", IP4(i+3))
	}
	return n
}

// GroupRecAux is a group record carrying aux 32-bit words of auxiliary data.
func GroupRecAux(typ uint64, nsrc, aux int) *wire.N {
	n := GroupRec(typ, nsrc)
	n.Set("AuxDataLen", uint64(aux)).SetB("AuxData", Pat(4*aux, 11))
	return n
}

func Igmp3Report(recs ...*wire.N) *wire.N {
	n := wire.New("igmp3r").Set("Type", 0x22).Set("Checksum", PatU(2, 3)).Set("NumberOfGroups", uint64(len(recs)))
	if len(recs) > 0 {
		n.SetL("GroupRecords", recs)
	}
	return n
}

func DhcpOpt(tag uint64, dataLen int) *wire.N {
	n := wire.New("dhcpopt").Set("Tag", tag)
	if tag != 0 && tag != 255 {
		n.SetB("Data", Pat(dataLen, int(tag)))
	}
	return n
}

func Dhcp(opts ...*wire.N) *wire.N {
	n := wire.New("dhcp").Set("Operation", 1).Set("HardwareType", 1).Set("HardwareLen", 6).Set("HardwareOpts", 0).Set("Xid", PatU(4, 1)).
		Set("Secs", PatU(2, 2)).Set("Flags", 0x8000).SetB("ClientIP", Pat(4, 1)).SetB("YourIP", Pat(4, 2)).SetB("ServerIP", Pat(4, 3)).SetB("GatewayIP", Pat(4, 4)).
		SetB("ClientHWAddr", Pat(6, 5)).SetB("ServerName", []byte("server")).SetB("File", []byte("boot/file"))
	if len(opts) > 0 {
		n.SetL("Options", opts)
	}
	return n
}

func Lldp() *wire.N {
	return wire.New("lldp").
		SetS("Chassis", wire.New("lldp_chassis").Set("Type", 1).Set("Subtype", 4).SetB("Data", Pat(6, 1))).
		SetS("Port", wire.New("lldp_port").Set("Type", 2).Set("Subtype", 5).SetB("Data", []byte("eth0"))).
		SetS("TTL", wire.New("lldp_ttl").Set("Type", 3).Set("Seconds", 120))
}

// ExtChains returns all 16 orders of subsets of {hop-by-hop, routing, fragment} (fresh trees).
func ExtChains() [][]*wire.N {
	mk := map[string]func() *wire.N{
		"h": func() *wire.N { return Hbh(0, Option(5, 2), Option(1, 0)) },
		"r": func() *wire.N { return Routing(0, 2) },
		"f": func() *wire.N { return Fragment(0, 185, 1) },
	}
	var out [][]*wire.N
	var rec func(prefix string, rest string)
	rec = func(prefix, rest string) {
		var chain []*wire.N
		for _, c := range prefix {
			chain = append(chain, mk[string(c)]())
		}
		out = append(out, chain)
		for i, c := range rest {
			rec(prefix+string(c), rest[:i]+rest[i+1:])
		}
	}
	rec("", "hrf")
	return out
}

// HbhOptionLists returns option lists of 0..3 options whose sizes fill a hop-by-hop header exactly
// (2 + sum of (2+len) is a multiple of 8), covering several header sizes.
func HbhOptionLists() [][]*wire.N {
	return [][]*wire.N{
		{Option(1, 4)},
		{Option(5, 2), Option(1, 0)},
		{Option(1, 1), Option(1, 1)},
		{Option(1, 0), Option(1, 0), Option(1, 0)},
		{Option(0xc2, 4), Option(1, 6)},
		{Option(1, 12)},
		{Option(5, 2), Option(7, 4), Option(1, 2)},
		{Option(1, 252)},
		// option type 0 carried as an ordinary type-length-value option (the library does not know Pad1)
		{Option(0, 4)},
		{Option(0, 0), Option(5, 2)},
		{Option(5, 2), Option(0, 2), Option(0, 4)},
	}
}

// Packets enumerates the well-formed packet corpus: yield receives a standalone header tree; frames
// (Ethernet downwards) are yielded as kind "eth".
func Packets(thorough bool, yield func(n *wire.N)) {
	transports := func() []struct {
		proto uint64
		n     *wire.N
	} {
		return []struct {
			proto uint64
			n     *wire.N
		}{{1, Icmp(8, 8)}, {1, Icmp(0, 0)}, {17, Udp(0)}, {17, Udp(18)}, {6, Tcp(0)}, {6, Tcp(11)}, {2, Igmp12(0x16, 0)}, {41, Opaque(40)}, {58, Opaque(8)}, {253, Opaque(5)}, {253, Opaque(0)}}
	}
	// standalone headers
	yield(Arp(1))
	yield(Arp(2))
	for _, hl := range []int{0, 1, 2, 5, 7, 8, 20, 64, 127, 128, 200, 255} {
		yield(ArpHW(1, 32, hl))
		yield(Eth(nil, 0x0806, ArpHW(2, 24, hl)))
	}
	for _, t := range transports() {
		yield(t.n)
	}
	for _, dl := range []int{1, 7, 64, 1472} {
		yield(Icmp(3, dl))
		yield(Udp(dl))
		yield(Tcp(dl))
	}
	for _, typ := range []uint64{0x11, 0x12, 0x16, 0x17} {
		yield(Igmp12(typ, 10))
	}
	for ns := 0; ns <= 3; ns++ {
		yield(Igmp3Query(ns, 1, 2))
		yield(Igmp3Report(GroupRec(1, ns)))
	}
	for _, aux := range []int{1, 2} {
		yield(GroupRecAux(2, 1, aux))
		yield(Igmp3Report(GroupRecAux(3, 0, aux), GroupRec(1, 2)))
	}
	for nr := 0; nr <= 3; nr++ {
		var recs []*wire.N
		for i := 0; i < nr; i++ {
			recs = append(recs, GroupRec(uint64(i+1), i))
		}
		yield(Igmp3Report(recs...))
	}
	// a report with two records for the same group that differ otherwise (allow new sources + block old
	// sources is an ordinary state-change report), and with the same record twice
	yield(Igmp3Report(GroupRec(5, 1), GroupRec(6, 2)))
	yield(Igmp3Report(GroupRec(5, 1), GroupRec(5, 1), GroupRec(6, 0)))
	yield(Eth(nil, 0x0800, IPv4(2, 0, Igmp3Report(GroupRec(6, 2), GroupRec(5, 1)))))
	// transport checksums of zero ("not computed") under both IP versions
	for _, mk := range []func() *wire.N{func() *wire.N { return Udp(6) }, func() *wire.N { return Icmp(128, 4) }, func() *wire.N { return Tcp(3) }} {
		t := mk().Set("Checksum", 0)
		nh := map[string]uint64{"udp": 17, "icmp": 58, "tcp": 6}[t.K]
		yield(t.Clone())
		yield(IPv6(nil, nh, t.Clone()))
		yield(Eth(nil, 0x86dd, IPv6(nil, nh, t.Clone())))
		if t.K != "icmp" {
			yield(IPv4(nh, 0, t.Clone()))
		}
	}
	for _, ol := range HbhOptionLists() {
		yield(Hbh(58, clones(ol...)...))
		for _, o := range ol {
			yield(o.Clone())
		}
	}
	for hel := 0; hel <= 3; hel++ {
		yield(Routing(17, hel))
	}
	yield(Routing(17, 255))
	for _, off := range []uint64{0, 1, 185, 0x1fff} {
		for m := uint64(0); m < 2; m++ {
			yield(Fragment(17, off, m))
		}
	}
	yield(Vlan(3, 0, 100))
	yield(Vlan(0, 1, 0xfff))
	// DHCP option lists <= 3 over {pad, end, 53, 61, 253-byte}
	dalpha := func() []*wire.N {
		return []*wire.N{DhcpOpt(0, 0), DhcpOpt(255, 0), DhcpOpt(53, 1), DhcpOpt(61, 7), DhcpOpt(43, 253), DhcpOpt(12, 0)}
	}
	yield(Dhcp())
	seqs(dalpha(), 1, 3, func(s []*wire.N) {
		// an end option terminates the list: only generate it in last position
		for i, o := range s {
			if o.U["Tag"] == 255 && i != len(s)-1 {
				return
			}
		}
		if len(s) == 3 && !thorough && s[0].U["Tag"] != 53 {
			return
		}
		yield(Dhcp(clones(s...)...))
	})
	yield(Lldp())
	// identifiers up to the 255 bytes 802.1AB allows and to the 510 the 9-bit TLV length can express: the
	// length then needs its ninth bit, which sits in the low bit of the type byte
	for _, l := range []int{1, 127, 254, 255, 256, 300, 510} {
		for _, which := range []string{"Chassis", "Port"} {
			n := Lldp()
			n.S[which].SetB("Data", Pat(l, l))
			yield(n)
		}
	}
	{
		n := Lldp()
		n.S["Chassis"].SetB("Data", Pat(255, 1))
		n.S["Port"].SetB("Data", Pat(255, 2))
		yield(n)
	}
	// IPv4 x protocol x options length
	for _, ol := range []int{0, 4, 40} {
		for _, t := range transports() {
			yield(IPv4(t.proto, ol, t.n.Clone()))
		}
	}
	// IPv6 x extension chains x final header
	finals := []struct {
		nh uint64
		n  *wire.N
	}{{58, Icmp(128, 4)}, {17, Udp(12)}, {6, Tcp(3)}, {59, Opaque(0)}, {59, Opaque(6)}}
	for _, ch := range ExtChains() {
		for _, f := range finals {
			yield(IPv6(clones(ch...), f.nh, f.n.Clone()))
		}
	}
	for _, ol := range HbhOptionLists() {
		yield(IPv6([]*wire.N{Hbh(0, clones(ol...)...)}, 58, Icmp(128, 4)))
	}
	// every extension-header chain inside an Ethernet frame (as it reaches the controller in a packet-in)
	for _, ch := range ExtChains() {
		yield(Eth(nil, 0x86dd, IPv6(clones(ch...), 58, Icmp(128, 4))))
		yield(Eth(Vlan(2, 0, 7), 0x86dd, IPv6(clones(ch...), 6, Tcp(3))))
	}
	for _, ol := range []int{4, 40} {
		yield(Eth(nil, 0x0800, IPv4(6, ol, Tcp(5))))
		yield(Eth(nil, 0x0800, IPv4(17, ol, Udp(5))))
	}
	// frames padded to the Ethernet minimum (or carrying a trailer): the IP total length, the IPv6
	// payload length and the UDP length say where the datagram ends, the frame goes on; the library
	// carries the length fields as they are and everything behind the headers as payload
	{
		u := Udp(4 + 18) // 4 bytes of data + 18 bytes of padding
		u.Set("Length", 12)
		ip := IPv4(17, 0, u)
		ip.Set("Length", 32)
		yield(Eth(nil, 0x0800, ip.Clone()))
		yield(Eth(Vlan(1, 0, 12), 0x0800, ip.Clone()))
		ic := IPv4(1, 0, Icmp(8, 2+20))
		ic.Set("Length", 26)
		yield(Eth(nil, 0x0800, ic))
		u6 := Udp(6 + 7)
		u6.Set("Length", 14)
		ip6 := IPv6(nil, 17, u6)
		ip6.Set("Length", 14)
		yield(Eth(nil, 0x86dd, ip6))
		o := IPv4(253, 0, Opaque(30))
		o.Set("Length", 24)
		yield(Eth(nil, 0x0800, o))
	}
	// protocol 6 payloads that the library's TCP type cannot hold (all flag and reserved bits set;
	// fewer than 20 bytes): carried opaque today, they must come back byte for byte
	for _, raw := range [][]byte{append([]byte{0x04, 0x00, 0x00, 0x50, 0, 0, 0, 1, 0, 0, 0, 2, 0xff, 0xff, 0x20, 0x00, 0xaa, 0xbb, 0, 0}, Payload(6)...),
		{0x04, 0x00, 0x00, 0x50, 0, 0, 0, 1, 0, 0, 0, 2, 0x51, 0xc2, 0x20, 0x00, 0xaa, 0xbb, 0, 0}, {0x04, 0x00, 0x00, 0x50, 9}} {
		o := wire.New("opaque").SetB("Data", raw)
		yield(Eth(nil, 0x0800, IPv4(6, 0, o.Clone())))
		yield(Eth(nil, 0x86dd, IPv6(nil, 6, o.Clone())))
		yield(Eth(Vlan(2, 0, 5), 0x86dd, IPv6([]*wire.N{Fragment(6, 0, 0)}, 6, o.Clone())))
	}
	// every header kind the library has a type for, inside the frame that carries it on a real
	// network, whether or not a decoder is wired to its protocol number today (IGMP under IPv4
	// protocol 2, in all three versions and with source lists and auxiliary data)
	for _, ig := range []*wire.N{Igmp12(0x11, 100), Igmp12(0x16, 0), Igmp3Query(0, 0, 2), Igmp3Query(2, 1, 2), Igmp3Report(GroupRec(1, 0)),
		Igmp3Report(GroupRec(1, 2)), Igmp3Report(GroupRec(2, 1), GroupRecAux(3, 1, 1))} {
		yield(IPv4(2, 0, ig.Clone()))
		yield(Eth(nil, 0x0800, IPv4(2, 0, ig.Clone())))
		yield(Eth(Vlan(1, 0, 9), 0x0800, IPv4(2, 4, ig.Clone())))
	}
	// Ethernet x {untagged, tagged} x ethertype x inner
	inner := []struct {
		et uint64
		n  *wire.N
	}{{0x0800, IPv4(17, 0, Udp(18))}, {0x0800, IPv4(1, 4, Icmp(8, 8))}, {0x0800, IPv4(6, 0, Tcp(4))}, {0x86dd, IPv6(nil, 17, Udp(12))},
		{0x86dd, IPv6([]*wire.N{Hbh(0, Option(5, 2), Option(1, 0)), Fragment(0, 0, 0)}, 58, Icmp(135, 20))}, {0x0806, Arp(1)}, {0x88cc, Opaque(15)}, {0x0842, Opaque(102)}, {0x88b5, Opaque(46)}, {0x88b5, Opaque(0)}}
	// ethertypes that look like a further tag behind the (single) 802.1Q tag the library models: the
	// frame's payload is whatever follows the first tag, opaque, starting with 0x8100 / 0x88a8 / 0x9100
	for _, et := range []uint64{0x8100, 0x88a8, 0x9100} {
		for _, pl := range []*wire.N{Opaque(46), wire.New("opaque").SetB("Data", append([]byte{0x20, 0x05, 0x08, 0x00, 0x45, 0, 0, 20}, Payload(38)...))} {
			for _, v := range []*wire.N{Vlan(3, 0, 100), Vlan(7, 1, 0xfff)} {
				yield(Eth(v, et, pl.Clone()))
			}
			if et != 0x8100 {
				yield(Eth(nil, et, pl.Clone()))
			}
		}
	}
	// type/length values below 0x0600 (an IEEE 802.3 length to some stacks; to this library a type like
	// any other without a decoder), with payloads longer and shorter than the value says
	for _, et := range []uint64{0, 1, 38, 46, 100, 1500, 1501, 0x05ff, 0x0600, 0xffff} {
		for _, pl := range []int{0, 46, 100} {
			yield(Eth(nil, et, Opaque(pl)))
			yield(Eth(Vlan(4, 0, 33), et, Opaque(pl)))
		}
	}
	for _, in := range inner {
		yield(Eth(nil, in.et, in.n.Clone()))
		for _, v := range []*wire.N{Vlan(3, 0, 100), Vlan(0, 0, 1), Vlan(7, 1, 0xfff), Vlan(5, 0, 0), Vlan(0, 0, 0)} {
			yield(Eth(v, in.et, in.n.Clone()))
		}
	}
}
