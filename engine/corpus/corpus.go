// Package corpus generates the model trees (shapes and values) the explorers enumerate. It
// knows only the model vocabulary (package wire); enumeration order is deterministic and
// simplest-first so that the first counterexample is the shortest.
package corpus

import (
	"fmt"
	"sort"

	"verif/wire"
)

// Pat returns a w-byte pattern whose bytes are all different and different for different rot,
// so that two swapped or shifted fields never coincide.
func Pat(w, rot int) []byte {
	b := make([]byte, w)
	for i := range b {
		b[i] = byte(0x11*(rot%13+1) + i + 1)
	}
	return b
}

func PatU(w, rot int) uint64 {
	var v uint64
	for _, c := range Pat(w, rot) {
		v = v<<8 | uint64(c)
	}
	return v
}

// ValuesU is the value alphabet V(w) of Appendix B for a w-byte unsigned field.
func ValuesU(w int, seed int64) []uint64 {
	bits := uint(8 * w)
	all := ^uint64(0)
	if bits < 64 {
		all = 1<<bits - 1
	}
	vs := []uint64{0, 1, all, 1 << (bits - 1), PatU(w, 5)}
	for i := uint(0); i < bits; i++ {
		vs = append(vs, 1<<i)
	}
	x := uint64(seed)*0x9e3779b97f4a7c15 + 0x1234567
	vs = append(vs, x&all, (x>>7^x<<9)&all)
	seen := map[uint64]bool{}
	var out []uint64
	for _, v := range vs {
		if !seen[v] {
			seen[v] = true
			out = append(out, v)
		}
	}
	return out
}

// ValuesB is the alphabet for a fixed-length byte string.
func ValuesB(w int) [][]byte {
	z := make([]byte, w)
	f := make([]byte, w)
	for i := range f {
		f[i] = 0xff
	}
	out := [][]byte{z, f, Pat(w, 3)}
	for i := 0; i < w; i++ {
		b := make([]byte, w)
		b[i] = 0x80
		out = append(out, b)
	}
	if w == 16 {
		// values that Go's net.IP treats specially: the IPv4-mapped prefix ::ffff:0:0/96 (To4() is
		// non-nil for a 16-byte slice), the loopback ::1 and an IPv4-compatible ::a.b.c.d
		out = append(out,
			[]byte{0, 0, 0, 0, 0, 0, 0, 0, 0, 0, 0xff, 0xff, 10, 1, 2, 3},
			[]byte{0, 0, 0, 0, 0, 0, 0, 0, 0, 0, 0xff, 0xff, 0xff, 0xff, 0xff, 0xff},
			[]byte{0, 0, 0, 0, 0, 0, 0, 0, 0, 0, 0, 0, 0, 0, 0, 1},
			[]byte{0, 0, 0, 0, 0, 0, 0, 0, 0, 0, 0, 0, 10, 1, 2, 3})
	}
	return out
}

// OxmInfos returns the field table in deterministic order.
func OxmInfos() []*wire.OxmInfo {
	var out []*wire.OxmInfo
	for _, i := range wire.OxmTable {
		out = append(out, i)
	}
	sort.Slice(out, func(a, b int) bool {
		if out[a].Class != out[b].Class {
			return out[a].Class > out[b].Class // basic class first
		}
		return out[a].Field < out[b].Field
	})
	return out
}

// Oxm builds one match-field node.
func Oxm(info *wire.OxmInfo, masked bool, rot int, varLen int) *wire.N {
	w := info.Width
	if w == 0 {
		w = varLen
	}
	n := wire.New("oxm").Set("Class", uint64(info.Class)).Set("Field", uint64(info.Field)).Set("HasMask", 0)
	v := Pat(w, rot)
	if info.Name == "OXM_OF_VLAN_VID" {
		v[0] |= 0x10 // OFPVID_PRESENT: the typed constructor always sets it
	}
	n.SetB("Value", v)
	if masked {
		n.Set("HasMask", 1)
		m := Pat(w, rot+1)
		for i := range m {
			m[i] |= v[i] // value must lie inside the mask
		}
		n.SetB("Mask", m)
	}
	return n
}

// OxmExperimenter builds an ONF experimenter-class match field (class 0xffff, experimenter id
// 0x4f4e4600 in front of the value): tcp_flags (42, 2 bytes) or actset_output (43, 4 bytes) - the
// form in which OpenFlow 1.3 switches carry these two fields.
func OxmExperimenter(field uint64, masked bool, rot int) *wire.N {
	w := 2
	if field == 43 {
		w = 4
	}
	n := wire.New("oxm").Set("Class", 0xffff).Set("Field", field).Set("HasMask", 0).Set("ExperimenterID", wire.ONFVendor)
	v := Pat(w, rot)
	n.SetB("Value", v)
	if masked {
		n.Set("HasMask", 1)
		m := Pat(w, rot+1)
		for i := range m {
			m[i] |= v[i]
		}
		n.SetB("Mask", m)
	}
	return n
}

func OxmByName(name string, masked bool, rot int) *wire.N {
	return Oxm(wire.OxmByName[name], masked, rot, 4)
}

// Match builds a match node from fields.
func Match(fields ...*wire.N) *wire.N {
	m := wire.New("match")
	if len(fields) > 0 {
		m.SetL("Fields", fields)
	}
	return m
}

// HeaderWordByName is the unmasked header word of a registered field.
func HeaderWordByName(name string) uint64 {
	i := wire.OxmByName[name]
	return wire.HeaderWord(i.Class, i.Field, false, uint8(i.Width))
}

// ---- actions ---------------------------------------------------------------------------------

// ActionKinds lists every action kind of the model, constructor-buildable ones first.
var ActionKinds = []string{
	"act_output", "act_group", "act_set_queue", "act_dec_nw_ttl", "act_pop_vlan", "act_push_vlan", "act_push_mpls", "act_pop_mpls",
	"act_set_field", "nx_resubmit", "nx_resubmit_table", "nx_ct_resubmit", "nx_reg_move", "nx_reg_load", "nx_note", "nx_output_reg",
	"nx_learn", "nx_dec_ttl", "nx_ct_clear", "nx_controller", "nx_dec_ttl_cnt_ids", "nx_reg_load2", "nx_conjunction", "nx_ct", "nx_nat",
	// decode-only kinds (no constructor in the library)
	"act_copy_ttl_out", "act_copy_ttl_in", "act_set_mpls_ttl", "act_dec_mpls_ttl", "act_set_nw_ttl", "act_push_pbb", "act_pop_pbb",
}

// Action builds the base instance of an action kind (every field a distinct pattern).
func Action(kind string, rot int) *wire.N {
	n := wire.New(kind)
	switch kind {
	case "act_output":
		n.Set("Port", PatU(4, rot)).Set("MaxLen", PatU(2, rot+1))
	case "act_group":
		n.Set("GroupId", PatU(4, rot))
	case "act_set_queue":
		n.Set("QueueId", PatU(4, rot))
	case "act_push_vlan", "act_push_mpls", "act_pop_mpls", "act_push_pbb":
		n.Set("EtherType", PatU(2, rot))
	case "act_set_mpls_ttl":
		n.Set("MplsTtl", PatU(1, rot))
	case "act_set_nw_ttl":
		n.Set("NwTtl", PatU(1, rot))
	case "act_set_field":
		n.SetS("Field", OxmByName("OXM_OF_ETH_DST", false, rot))
	case "nx_resubmit":
		n.Set("InPort", PatU(2, rot))
	case "nx_resubmit_table", "nx_ct_resubmit":
		n.Set("InPort", PatU(2, rot)).Set("TableID", PatU(1, rot+1))
	case "nx_reg_move":
		n.Set("Nbits", 16).Set("SrcOfs", 3).Set("DstOfs", 8).Set("SrcField", HeaderWordByName("NXM_NX_REG1")).Set("DstField", HeaderWordByName("NXM_NX_REG2"))
	case "nx_reg_load":
		n.Set("OfsNbits", 4<<6|15).Set("DstReg", HeaderWordByName("NXM_NX_REG3")).Set("Value", PatU(8, rot))
	case "nx_note":
		n.SetB("Note", Pat(6, rot))
	case "nx_output_reg":
		n.Set("OfsNbits", 0<<6|31).Set("SrcField", HeaderWordByName("NXM_NX_REG4")).Set("MaxLen", PatU(2, rot))
	case "nx_learn":
		n.Set("IdleTimeout", PatU(2, rot)).Set("HardTimeout", PatU(2, rot+1)).Set("Priority", PatU(2, rot+2)).Set("Cookie", PatU(8, rot+3)).
			Set("Flags", 3).Set("TableID", PatU(1, rot+4)).Set("FinIdleTimeout", PatU(2, rot+5)).Set("FinHardTimeout", PatU(2, rot+6))
	case "nx_controller":
		n.Set("MaxLen", PatU(2, rot)).Set("ControllerID", PatU(2, rot+1)).Set("Reason", PatU(1, rot+2))
	case "nx_dec_ttl_cnt_ids":
		n.Set("controllers", 2).SetB("cntIDs", Pat(4, rot))
	case "nx_reg_load2":
		n.SetS("DstField", OxmByName("NXM_NX_REG5", false, rot))
	case "nx_conjunction":
		n.Set("Clause", PatU(1, rot)).Set("NClause", PatU(1, rot+1)).Set("ID", PatU(4, rot+2))
	case "nx_ct":
		n.Set("Flags", 1).Set("ZoneSrc", 0).Set("ZoneOfsNbits", PatU(2, rot)).Set("RecircTable", PatU(1, rot+1)).Set("Alg", PatU(2, rot+2))
	case "nx_nat":
		n.Set("Flags", 1).Set("RangePresent", 0)
	}
	return n
}

// LearnSpec builds a learn spec of one of the five header forms.
// form: 0 match-from-value, 1 match-from-field, 2 load-from-value, 3 load-from-field, 4 output-from-field.
func LearnSpec(form int, nbits int, rot int) *wire.N {
	s := wire.New("learn_spec").Set("Nbits", uint64(nbits))
	src := map[int]uint64{0: 1, 1: 0, 2: 1, 3: 0, 4: 0}[form]
	dst := map[int]uint64{0: 0, 1: 0, 2: 1, 3: 1, 4: 2}[form]
	s.Set("Src", src).Set("Dst", dst)
	if src == 1 {
		s.SetB("SrcValue", Pat(2*((nbits+15)/16), rot))
	} else {
		s.Set("SrcField", HeaderWordByName("NXM_NX_REG6")).Set("SrcOfs", PatU(2, rot)&0x1f)
	}
	if dst != 2 {
		s.Set("DstField", HeaderWordByName("NXM_NX_REG7")).Set("DstOfs", PatU(2, rot+1)&0x1f)
	}
	return s
}

// Nat builds a NAT action with the given presence subset.
func Nat(present uint64, flags uint64, rot int) *wire.N {
	n := wire.New("nx_nat").Set("Flags", flags).Set("RangePresent", present)
	if present&1 != 0 {
		n.SetB("IPv4Min", Pat(4, rot))
	}
	if present&2 != 0 {
		n.SetB("IPv4Max", Pat(4, rot+1))
	}
	if present&4 != 0 {
		n.SetB("IPv6Min", Pat(16, rot+2))
	}
	if present&8 != 0 {
		n.SetB("IPv6Max", Pat(16, rot+3))
	}
	if present&16 != 0 {
		n.Set("ProtoMin", PatU(2, rot+4))
	}
	if present&32 != 0 {
		n.Set("ProtoMax", PatU(2, rot+5))
	}
	return n
}

// ActionsBySize returns one buildable action per encoded size residue class that the library can
// produce, plus every kind whose size is computed rather than constant (residue-complete subset A_rep).
func ActionsRep() []*wire.N {
	return []*wire.N{
		Action("act_group", 1),   // 8
		Action("act_output", 2),  // 16
		Action("nx_reg_load", 3), // 24
		Action("nx_note", 4),     // computed
		Action("act_set_field", 5),
		Action("nx_reg_load2", 6),
		Nat(0x13, 1, 7), // 16+4+4+2 = 26 -> 32
		func() *wire.N { l := Action("nx_learn", 8); l.Add("LearnSpecs", LearnSpec(2, 20, 1)); return l }(),
		func() *wire.N { c := Action("nx_ct", 9); c.Add("Actions", Nat(3, 1, 2)); return c }(),
	}
}

// ---- instructions, buckets -------------------------------------------------------------------

var InstrKinds = []string{"instr_goto_table", "instr_write_metadata", "instr_write_actions", "instr_apply_actions", "instr_clear_actions", "instr_meter"}

func Instr(kind string, rot int, actions ...*wire.N) *wire.N {
	n := wire.New(kind)
	switch kind {
	case "instr_goto_table":
		n.Set("TableId", PatU(1, rot))
	case "instr_write_metadata":
		n.Set("Metadata", PatU(8, rot)).Set("MetadataMask", PatU(8, rot+1))
	case "instr_meter":
		n.Set("MeterId", PatU(4, rot))
	}
	if len(actions) > 0 {
		n.SetL("Actions", actions)
	}
	return n
}

func Bucket(rot int, actions ...*wire.N) *wire.N {
	b := wire.New("bucket").Set("Weight", PatU(2, rot)).Set("WatchPort", PatU(4, rot+1)).Set("WatchGroup", PatU(4, rot+2))
	if len(actions) > 0 {
		b.SetL("Actions", actions)
	}
	return b
}

// ---- messages --------------------------------------------------------------------------------

func FlowMod(command uint64, match *wire.N, instrs ...*wire.N) *wire.N {
	n := wire.New("flow_mod").Set("Cookie", PatU(8, 1)).Set("CookieMask", PatU(8, 2)).Set("TableId", PatU(1, 3)).Set("Command", command).
		Set("IdleTimeout", PatU(2, 4)).Set("HardTimeout", PatU(2, 5)).Set("Priority", PatU(2, 6)).Set("BufferId", PatU(4, 7)).
		Set("OutPort", PatU(4, 8)).Set("OutGroup", PatU(4, 9)).Set("Flags", PatU(2, 10))
	if match == nil {
		match = Match()
	}
	n.SetS("Match", match)
	if len(instrs) > 0 {
		n.SetL("Instructions", instrs)
	}
	return n
}

func GroupMod(command, typ uint64, buckets ...*wire.N) *wire.N {
	n := wire.New("group_mod").Set("Command", command).Set("Type", typ).Set("GroupId", PatU(4, 1))
	if len(buckets) > 0 {
		n.SetL("Buckets", buckets)
	}
	return n
}

func PacketOut(data []byte, hasData bool, actions ...*wire.N) *wire.N {
	n := wire.New("packet_out").Set("BufferId", PatU(4, 1)).Set("InPort", PatU(4, 2))
	if hasData {
		n.SetB("Data", data)
	}
	if len(actions) > 0 {
		n.SetL("Actions", actions)
	}
	return n
}

func PortMod() *wire.N {
	return wire.New("port_mod").Set("PortNo", PatU(4, 1)).SetB("HWAddr", Pat(6, 2)).Set("Config", PatU(4, 3)).Set("Mask", PatU(4, 4)).Set("Advertise", PatU(4, 5))
}

func MultipartRequest(typ uint64, match *wire.N) *wire.N {
	n := wire.New("multipart_request").Set("Type", typ).Set("Flags", 1)
	switch typ {
	case 1, 2:
		k := "flow_stats_request"
		if typ == 2 {
			k = "aggregate_stats_request"
		}
		if match == nil {
			match = Match()
		}
		n.SetS("Body", wire.New(k).Set("TableId", PatU(1, 1)).Set("OutPort", PatU(4, 2)).Set("OutGroup", PatU(4, 3)).
			Set("Cookie", PatU(8, 4)).Set("CookieMask", PatU(8, 5)).SetS("Match", match))
	case 4:
		n.SetS("Body", wire.New("port_stats_request").Set("PortNo", PatU(4, 1)))
	case 5:
		n.SetS("Body", wire.New("queue_stats_request").Set("PortNo", PatU(4, 1)).Set("QueueId", PatU(4, 2)))
	}
	return n
}

func Experimenter(vendor, typ uint64, data *wire.N) *wire.N {
	n := wire.New("experimenter").Set("Vendor", vendor).Set("ExperimenterType", typ)
	if data != nil {
		n.SetS("VendorData", data)
	}
	return n
}

func TlvMap(rot int) *wire.N {
	return wire.New("tlv_map").Set("OptClass", PatU(2, rot)).Set("OptType", PatU(1, rot+1)).Set("OptLength", PatU(1, rot+2)).Set("Index", PatU(2, rot+3))
}

func BundleCtrl(typ, flags uint64) *wire.N {
	return Experimenter(wire.ONFVendor, 2300, wire.New("bundle_ctrl").Set("BundleID", PatU(4, 1)).Set("Type", typ).Set("Flags", flags))
}

func BundleAdd(inner *wire.N, flags uint64) *wire.N {
	return Experimenter(wire.ONFVendor, 2301, wire.New("bundle_add").Set("BundleID", PatU(4, 1)).Set("Flags", flags).SetS("Message", inner))
}

func Simple(kind string) *wire.N { return wire.New(kind) }

func Hello() *wire.N {
	return wire.New("hello").Add("Elements", wire.New("hello_elem_versionbitmap").Set("Type", 1).SetB("Bitmaps", []byte{0, 0, 0, 0x12}))
}

func SetConfig(kind string) *wire.N {
	return wire.New(kind).Set("Flags", PatU(2, 1)).Set("MissSendLen", PatU(2, 2))
}

// Label is a short printable description of a tree for samples and replay files.
func Label(n *wire.N) string {
	s := n.String()
	if len(s) > 300 {
		s = s[:300] + fmt.Sprintf("...(%d chars)", len(s))
	}
	return s
}

// Payload returns an n-byte ascending pattern.
func Payload(n int) []byte {
	b := make([]byte, n)
	for i := range b {
		b[i] = byte(i*7 + 1)
	}
	return b
}

// Variations yields, for a base tree, every tree that differs from it in exactly one scalar or
// fixed-width byte field, ranging that field over its whole value alphabet ("one deviation from
// base"). The callback receives a fresh clone each time plus a description of the varied field.
func Variations(base *wire.N, encode func(*wire.N) []wire.Mark, seed int64, f func(t *wire.N, what string)) {
	VariationsOf(base, encode, seed, nil, f)
}

// VariationsOf is Variations restricted to the fields keep accepts (nil: all). keep sees the node of
// the base tree (a clone with the same structure) and the field name.
func VariationsOf(base *wire.N, encode func(*wire.N) []wire.Mark, seed int64, keep func(node *wire.N, field string) bool, f func(t *wire.N, what string)) {
	work := base.Clone()
	marks := encode(work)
	type site struct {
		node *wire.N
		name string
		w    int
		role string
		path string
	}
	var sites []site
	seen := map[string]bool{}
	for _, m := range marks {
		if m.Node == nil || (m.Role != "value" && m.Role != "bytes" && m.Role != "count") {
			continue
		}
		key := fmt.Sprintf("%p.%s", m.Node, m.Name)
		if seen[key] {
			continue
		}
		seen[key] = true
		if keep != nil && !keep(m.Node, m.Name) {
			continue
		}
		sites = append(sites, site{m.Node, m.Name, m.W, m.Role, m.Path})
	}
	for _, s := range sites {
		switch s.role {
		case "value":
			old, had := s.node.U[s.name]
			for _, v := range ValuesU(s.w, seed) {
				s.node.U[s.name] = v
				f(work.Clone(), fmt.Sprintf("%s=%#x", s.path, v))
			}
			if had {
				s.node.U[s.name] = old
			} else {
				delete(s.node.U, s.name)
			}
		case "bytes":
			if s.w == 0 || s.w > 64 {
				continue
			}
			old := s.node.B[s.name]
			for _, v := range ValuesB(s.w) {
				s.node.B[s.name] = v
				f(work.Clone(), fmt.Sprintf("%s=%x", s.path, v))
			}
			s.node.B[s.name] = old
		}
	}
}

// NodePairVariations yields, for a base tree, every tree that differs from it in two scalar fields of
// the same element, each set to one of {0, 1, largest, largest-2}: the values that formats give a
// meaning of their own (none / any / controller / no-buffer ...). An encoder or decoder that treats
// one field differently depending on another field of the same element shows only under such pairs.
// keep restricts the fields taken (both fields of a pair must be kept).
func NodePairVariations(base *wire.N, encode func(*wire.N) []wire.Mark, keep func(node *wire.N, field string) bool, f func(t *wire.N, what string)) {
	work := base.Clone()
	marks := encode(work)
	type site struct {
		node *wire.N
		name string
		w    int
		path string
	}
	byNode := map[*wire.N][]site{}
	var order []*wire.N
	seen := map[string]bool{}
	for _, m := range marks {
		if m.Node == nil || m.Role != "value" || m.W == 0 || m.W > 8 {
			continue
		}
		if keep != nil && !keep(m.Node, m.Name) {
			continue
		}
		key := fmt.Sprintf("%p.%s", m.Node, m.Name)
		if seen[key] {
			continue
		}
		seen[key] = true
		if len(byNode[m.Node]) == 0 {
			order = append(order, m.Node)
		}
		byNode[m.Node] = append(byNode[m.Node], site{m.Node, m.Name, m.W, m.Path})
	}
	vals := func(s site) []uint64 {
		all := ^uint64(0)
		if s.w < 8 {
			all = 1<<(8*uint(s.w)) - 1
		}
		if all < 3 {
			return []uint64{0, all}
		}
		return []uint64{0, 1, all, all - 2}
	}
	for _, nd := range order {
		ss := byNode[nd]
		for i := 0; i < len(ss); i++ {
			for j := i + 1; j < len(ss); j++ {
				a, b := ss[i], ss[j]
				oa, ha := a.node.U[a.name]
				ob, hb := b.node.U[b.name]
				for _, va := range vals(a) {
					for _, vb := range vals(b) {
						a.node.U[a.name], b.node.U[b.name] = va, vb
						f(work.Clone(), fmt.Sprintf("%s = %#x and %s = %#x", a.path, va, b.path, vb))
					}
				}
				if ha {
					a.node.U[a.name] = oa
				} else {
					delete(a.node.U, a.name)
				}
				if hb {
					b.node.U[b.name] = ob
				} else {
					delete(b.node.U, b.name)
				}
			}
		}
	}
}

// PairVariations yields, for a base tree, every tree that differs from it in two fields adjacent on
// the wire (consecutive value/bytes fields of the field map), each set to {0, all-ones, pattern}: the
// "two deviations from base" level. A carry, a shift or a copy that runs from one field into its
// neighbour shows as soon as the neighbour is not at its base value.
func PairVariations(base *wire.N, encode func(*wire.N) []wire.Mark, f func(t *wire.N, what string)) {
	work := base.Clone()
	marks := encode(work)
	type site struct {
		node *wire.N
		name string
		w    int
		role string
		path string
	}
	var sites []site
	seen := map[string]bool{}
	for _, m := range marks {
		if m.Node == nil || (m.Role != "value" && m.Role != "bytes") || m.W == 0 || m.W > 64 {
			continue
		}
		key := fmt.Sprintf("%p.%s", m.Node, m.Name)
		if seen[key] {
			continue
		}
		seen[key] = true
		sites = append(sites, site{m.Node, m.Name, m.W, m.Role, m.Path})
	}
	vals := func(s site) []func() {
		var out []func()
		if s.role == "value" {
			all := ^uint64(0)
			if s.w < 8 {
				all = 1<<(8*uint(s.w)) - 1
			}
			for _, v := range []uint64{0, all, PatU(s.w, 9)} {
				v := v
				out = append(out, func() { s.node.U[s.name] = v })
			}
			return out
		}
		ones := make([]byte, s.w)
		for i := range ones {
			ones[i] = 0xff
		}
		for _, v := range [][]byte{make([]byte, s.w), ones, Pat(s.w, 9)} {
			v := v
			out = append(out, func() { s.node.B[s.name] = v })
		}
		return out
	}
	save := func(s site) func() {
		if s.role == "value" {
			old, had := s.node.U[s.name]
			return func() {
				if had {
					s.node.U[s.name] = old
				} else {
					delete(s.node.U, s.name)
				}
			}
		}
		old := s.node.B[s.name]
		return func() { s.node.B[s.name] = old }
	}
	for i := 0; i+1 < len(sites); i++ {
		a, b := sites[i], sites[i+1]
		ra, rb := save(a), save(b)
		for ia, sa := range vals(a) {
			for ib, sb := range vals(b) {
				sa()
				sb()
				f(work.Clone(), fmt.Sprintf("%s and %s set to value %d / %d of {0, all-ones, pattern}", a.path, b.path, ia, ib))
			}
		}
		ra()
		rb()
	}
}
