package corpus

import (
	"verif/wire"
)

// ExtActions returns the extended single-action alphabet: the base instance of every buildable
// kind plus the variants whose size or layout is computed: every NAT presence subset, learn
// actions with every spec form x bit count, notes of every length residue, conntrack with nested
// actions, set-field / reg-load2 over representative match fields, dec_ttl_cnt_ids counts 0..5.
func ExtActions(thorough bool) []*wire.N {
	var out []*wire.N
	for _, k := range ActionKinds[:25] {
		out = append(out, Action(k, len(out)))
	}
	// kinds without a constructor (built as literals of their exported types)
	for _, k := range ActionKinds[25:] {
		out = append(out, Action(k, len(out)))
	}
	// output to every reserved port with the max_len values that have a meaning of their own (0: no
	// bytes, 0xffe5: the largest, 0xffff: no buffering) - combinations a one-field-at-a-time variation
	// of an ordinary output action never reaches
	for _, port := range []uint64{0xffffff00, 0xfffffff8, 0xfffffff9, 0xfffffffa, 0xfffffffb, 0xfffffffc, 0xfffffffd, 0xfffffffe, 0xffffffff} {
		for _, ml := range []uint64{0, 1, 0xffe5, 0xffff} {
			out = append(out, wire.New("act_output").Set("Port", port).Set("MaxLen", ml))
		}
	}
	for p := uint64(0); p < 64; p++ {
		out = append(out, Nat(p, 1+p%2, int(p)))
	}
	for _, fl := range []uint64{0, 2, 4, 8, 16, 1 | 4 | 8, 2 | 4 | 16} {
		out = append(out, Nat(0x33, fl, 3))
	}
	for form := 0; form < 5; form++ {
		for _, nb := range []int{1, 8, 15, 16, 17, 20, 24, 32, 33, 48, 64, 128} {
			l := Action("nx_learn", form)
			l.Add("LearnSpecs", LearnSpec(form, nb, nb))
			out = append(out, l)
			if form == 0 || form == 2 {
				l2 := Action("nx_learn", form+1)
				l2.Add("LearnSpecs", LearnSpec(form, nb, nb), LearnSpec(3, 16, 2))
				out = append(out, l2)
			}
		}
	}
	{
		l := Action("nx_learn", 9)
		for form := 0; form < 5; form++ {
			l.Add("LearnSpecs", LearnSpec(form, 16+form, form))
		}
		out = append(out, l)
	}
	for _, ln := range []int{0, 1, 2, 5, 6, 7, 8, 9, 14, 60, 255, 1500} {
		n := Action("nx_note", ln)
		n.SetB("Note", Pat(ln, ln))
		out = append(out, n)
	}
	// notes that end in zero bytes (indistinguishable from padding on the wire, but part of the
	// value): the sizes are such that stripping the zeros would cross an 8-byte boundary
	for _, z := range []int{1, 8, 10, 17} {
		for _, lead := range []int{0, 2, 6} {
			n := Action("nx_note", z+lead)
			n.SetB("Note", append(Pat(lead, z), make([]byte, z)...))
			out = append(out, n)
		}
	}
	for cnt := 0; cnt <= 5; cnt++ {
		n := Action("nx_dec_ttl_cnt_ids", cnt)
		n.Set("controllers", uint64(cnt)).SetB("cntIDs", Pat(2*cnt, cnt))
		out = append(out, n)
	}
	for _, in := range OxmInfos() {
		if in.Width == 0 {
			for _, l := range []int{0, 1, 4, 7, 124} {
				s := Action("act_set_field", 0)
				s.SetS("Field", Oxm(in, false, l, l))
				if in.Field == 40 || thorough {
					out = append(out, s)
				}
			}
			continue
		}
		s := Action("act_set_field", int(in.Field))
		s.SetS("Field", Oxm(in, false, int(in.Field), 0))
		out = append(out, s)
		if in.Maskable {
			// a set-field whose field carries a mask (OpenFlow 1.5 allows it, the constructor takes any
			// field): sized and framed like any other
			ms := Action("act_set_field", int(in.Field)+5)
			ms.SetS("Field", Oxm(in, true, int(in.Field)+5, 0))
			out = append(out, ms)
			r := Action("nx_reg_load2", int(in.Field))
			r.SetS("DstField", Oxm(in, true, int(in.Field), 0))
			out = append(out, r)
		}
		r := Action("nx_reg_load2", int(in.Field))
		r.SetS("DstField", Oxm(in, false, int(in.Field)+1, 0))
		out = append(out, r)
	}
	// conntrack: zone from register, nested actions
	{
		c := Action("nx_ct", 1)
		c.Set("ZoneSrc", HeaderWordByName("NXM_NX_REG2")).Set("ZoneOfsNbits", 0<<6|15).Set("Flags", 3)
		out = append(out, c)
		for _, a := range ActionsRep() {
			if a.K == "nx_ct" {
				continue
			}
			c := Action("nx_ct", 2)
			c.Add("Actions", a.Clone())
			out = append(out, c)
			c2 := Action("nx_ct", 3)
			c2.Add("Actions", a.Clone(), Nat(0x30, 2, 1))
			out = append(out, c2)
		}
	}
	return out
}

// MatchRep is the residue-complete subset of match fields: one per TLV size modulo 8.
func MatchRep() []*wire.N {
	return []*wire.N{
		OxmByName("OXM_OF_IP_PROTO", false, 1), // 5
		OxmByName("OXM_OF_ETH_TYPE", false, 2), // 6
		OxmByName("OXM_OF_IN_PORT", false, 3),  // 8
		OxmByName("OXM_OF_ETH_DST", false, 4),  // 10
		OxmByName("OXM_OF_METADATA", false, 5), // 12
		OxmByName("OXM_OF_IPV4_SRC", true, 6),  // 12 masked
		OxmByName("OXM_OF_ETH_SRC", true, 7),   // 16
		OxmByName("OXM_OF_IPV6_DST", false, 8), // 20
		OxmByName("NXM_NX_CT_LABEL", true, 9),  // 36
		OxmByName("OXM_OF_PBB_ISID", false, 10), // 7
		OxmByName("NXM_NX_REG0", true, 11),     // 12
		OxmExperimenter(42, false, 12),         // 10, experimenter class
	}
}

// UnequalMaskFields returns instances of the variable-width fields whose value and mask differ in width.
func UnequalMaskFields() []*wire.N {
	var out []*wire.N
	for _, in := range OxmInfos() {
		if in.Width != 0 {
			continue
		}
		for _, w := range [][2]int{{8, 4}, {4, 8}, {1, 3}, {64, 60}} {
			n := Oxm(in, true, w[0], w[0])
			n.SetB("Mask", Pat(w[1], w[0]+w[1]))
			out = append(out, n)
		}
		break // one index suffices: the eight share their constructor
	}
	return out
}

// HasUnequalMask reports whether a tree holds a masked field whose mask is not as wide as its value.
func HasUnequalMask(n *wire.N) bool {
	if n == nil {
		return false
	}
	if n.K == "oxm" && n.U["HasMask"] == 1 && len(n.B["Mask"]) != len(n.B["Value"]) {
		return true
	}
	for _, c := range n.S {
		if HasUnequalMask(c) {
			return true
		}
	}
	for _, l := range n.L {
		for _, c := range l {
			if HasUnequalMask(c) {
				return true
			}
		}
	}
	return false
}

// AllMatchFields returns one instance per field of the table, unmasked and (where allowed) masked.
func AllMatchFields() []*wire.N {
	var out []*wire.N
	for _, in := range OxmInfos() {
		if in.Width == 0 {
			for _, l := range []int{0, 1, 4, 7, 64, 124} {
				out = append(out, Oxm(in, false, l, l))
				if l > 0 && l <= 64 {
					out = append(out, Oxm(in, true, l, l))
				}
			}
			continue
		}
		out = append(out, Oxm(in, false, int(in.Field), 0))
		if in.Maskable {
			out = append(out, Oxm(in, true, int(in.Field)+2, 0))
			// the two masks an implementation is tempted to treat specially: all ones ("exact match",
			// which OVS prints without mask) and all zeros ("wildcard")
			ones := Oxm(in, true, int(in.Field)+3, 0)
			for i := range ones.B["Mask"] {
				ones.B["Mask"][i] = 0xff
			}
			zero := Oxm(in, true, int(in.Field)+4, 0)
			for i := range zero.B["Mask"] {
				zero.B["Mask"][i], zero.B["Value"][i] = 0, 0
			}
			if in.Name == "OXM_OF_VLAN_VID" {
				zero.B["Value"][0], zero.B["Mask"][0] = 0x10, 0x10
			}
			out = append(out, ones, zero)
		}
	}
	out = append(out, OxmExperimenter(42, false, 1), OxmExperimenter(42, true, 2), OxmExperimenter(43, false, 3))
	return out
}

func clones(ns ...*wire.N) []*wire.N {
	out := make([]*wire.N, len(ns))
	for i, n := range ns {
		out[i] = n.Clone()
	}
	return out
}

// seqs enumerates all sequences of length lo..hi over alpha.
func seqs(alpha []*wire.N, lo, hi int, f func(seq []*wire.N)) {
	var rec func(cur []*wire.N)
	rec = func(cur []*wire.N) {
		if len(cur) >= lo {
			f(clones(cur...))
		}
		if len(cur) == hi {
			return
		}
		for _, a := range alpha {
			rec(append(cur, a))
		}
	}
	rec(nil)
}

// Containers wraps an action list into every list-holding container the API offers and yields the
// resulting top-level messages.
func actionContainers(acts []*wire.N, yield func(n *wire.N)) {
	yield(FlowMod(0, nil, Instr("instr_apply_actions", 1, clones(acts...)...)))
	yield(FlowMod(1, Match(OxmByName("OXM_OF_IN_PORT", false, 1)), Instr("instr_write_actions", 2, clones(acts...)...)))
	yield(GroupMod(0, 1, Bucket(1, clones(acts...)...)))
	yield(PacketOut(Payload(14), true, clones(acts...)...))
	ct := Action("nx_ct", 4)
	ct.SetL("Actions", clones(acts...))
	yield(FlowMod(0, nil, Instr("instr_apply_actions", 3, ct)))
}

// Controller enumerates the controller-originated top-level messages of the shape corpus.
// Levels are reported through level() so that a run can say exactly which were completed.
func Controller(thorough bool, expired func() bool, level func(name string, complete bool), yield func(n *wire.N)) {
	done := func(name string) bool {
		level(name, !expired())
		return expired()
	}
	// L0: every kind, every command/type variant, no children
	for _, k := range []string{"echo_request", "echo_reply", "features_request", "get_config_request", "barrier_request"} {
		yield(Simple(k))
	}
	yield(Hello())
	// hello with 0..3 version-bitmap elements of 0..3 bitmaps each (set through the exported fields);
	// an element without any bitmap word is 4 bytes of header and 4 of padding
	yield(wire.New("hello"))
	for _, counts := range [][]int{{2}, {3}, {1, 1}, {2, 1}, {1, 2}, {3, 1}, {2, 2}, {1, 1, 1}, {2, 3, 1}, {3, 2, 2}, {0}, {0, 1}, {1, 0}, {0, 0}, {2, 0, 1}} {
		h := wire.New("hello")
		for i, c := range counts {
			h.Add("Elements", wire.New("hello_elem_versionbitmap").Set("Type", 1).SetB("Bitmaps", Pat(4*c, i+c)))
		}
		yield(h)
	}
	yield(SetConfig("set_config"))
	for c := uint64(0); c < 5; c++ {
		yield(FlowMod(c, nil))
		yield(FlowMod(c, Match(OxmByName("OXM_OF_IN_PORT", false, 1)), Instr("instr_goto_table", 1)))
		yield(FlowMod(c, Match(OxmByName("OXM_OF_ETH_TYPE", false, 1)), Instr("instr_apply_actions", 1, Action("act_output", 1)), Instr("instr_goto_table", 2)))
	}
	for _, c := range []uint64{5, 255} {
		yield(FlowMod(c, nil, Instr("instr_goto_table", 1)))
	}
	for c := uint64(0); c < 3; c++ {
		for t := uint64(0); t < 4; t++ {
			yield(GroupMod(c, t))
			yield(GroupMod(c, t, Bucket(1)))
			yield(GroupMod(c, t, Bucket(1, Action("act_output", 1)), Bucket(2, Action("act_group", 2), Action("nx_note", 3))))
		}
	}
	// weights: a select group whose buckets carry no weight, equal weights, and a mix in which a bucket
	// of weight 0 stands before, between and behind weighted ones (weight is only meaningful for select,
	// but every group type carries the field)
	for t := uint64(0); t < 4; t++ {
		for _, ws := range [][]uint64{{0, 0}, {5, 5}, {0, 5, 7}, {5, 0, 7}, {5, 7, 0}, {0, 0, 9}, {0xffff, 0, 1, 0}} {
			var bs []*wire.N
			for i, w := range ws {
				bs = append(bs, Bucket(i+1, Action("act_output", i+1)).Set("Weight", w))
			}
			yield(GroupMod(0, t, bs...))
			if t == 1 {
				yield(GroupMod(1, t, clones(bs...)...))
			}
		}
	}
	// command values the specification does not define (the field is 16 bits wide; OpenFlow 1.5 gives
	// 3 and 5 a meaning): the message must still be framed exactly
	for _, c := range []uint64{3, 5, 0xffff} {
		yield(GroupMod(c, 1))
		yield(GroupMod(c, 1, Bucket(1, Action("act_output", 1))))
		yield(GroupMod(c, 3, Bucket(1, Action("act_output", 1)), Bucket(2, Action("act_group", 2), Action("nx_note", 3)), Bucket(3)))
	}
	yield(PortMod())
	// hardware addresses of other lengths than 6 (net.HardwareAddr admits them): the wire has room for
	// the first six bytes, zero-filled; every other field stays where it belongs
	for _, l := range []int{0, 4, 8, 20} {
		yield(PortMod().SetB("HWAddr", Pat(l, 3)))
	}
	for _, t := range []uint64{0, 1, 2, 3, 4, 5} {
		yield(MultipartRequest(t, nil))
	}
	yield(Experimenter(wire.NXVendor, 20, wire.New("nx_set_controller_id").Set("ID", PatU(2, 1))))
	yield(Experimenter(wire.NXVendor, 25, nil))
	for cmd := uint64(0); cmd < 3; cmd++ {
		for k := 0; k <= 3; k++ {
			m := wire.New("nx_tlv_table_mod").Set("Command", cmd)
			for i := 0; i < k; i++ {
				m.Add("TlvMaps", TlvMap(i))
			}
			yield(Experimenter(wire.NXVendor, 24, m))
		}
	}
	for t := uint64(0); t < 8; t++ {
		for fl := uint64(0); fl < 4; fl++ {
			yield(BundleCtrl(t, fl))
		}
	}
	for _, hd := range []bool{false, true} {
		for _, sz := range []int{0, 1, 14, 60, 1500} {
			if !hd && sz > 0 {
				continue
			}
			yield(PacketOut(Payload(sz), hd))
			yield(PacketOut(Payload(sz), hd, Action("act_output", 1)))
		}
	}
	if done("L0 every controller-originated kind and command/type variant, no or one child") {
		return
	}
	// L1: every single action (extended alphabet) in every container; every single match field
	ext := ExtActions(thorough)
	for _, a := range ext {
		actionContainers([]*wire.N{a}, yield)
		if expired() {
			break
		}
	}
	for _, f := range AllMatchFields() {
		yield(FlowMod(0, Match(f.Clone())))
		yield(MultipartRequest(1, Match(f.Clone())))
		yield(MultipartRequest(2, Match(f.Clone())))
	}
	// variable-width fields whose mask is narrower or wider than the value (the constructor takes
	// both as they come): no two-way values - a receiver splits a masked payload in the middle - but
	// what is sent must still declare the bytes it occupies. Alone, and followed by another field.
	for _, f := range UnequalMaskFields() {
		yield(FlowMod(0, Match(f.Clone())))
		yield(FlowMod(0, Match(f.Clone(), OxmByName("OXM_OF_IN_PORT", false, 1)), Instr("instr_goto_table", 1)))
	}
	for _, k := range []string{"instr_goto_table", "instr_write_metadata", "instr_write_actions", "instr_apply_actions", "instr_meter", "instr_clear_actions"} {
		yield(FlowMod(0, nil, Instr(k, 1)))
	}
	yield(FlowMod(0, nil, Instr("instr_meter", 2), Instr("instr_goto_table", 3)))
	// the action-list instruction type with the clear-actions code accepts actions like its siblings
	// (the switch will refuse them; the library must still frame what it was given)
	yield(FlowMod(0, nil, Instr("instr_clear_actions", 2, Action("act_output", 1)), Instr("instr_goto_table", 3)))
	yield(FlowMod(0, nil, Instr("instr_goto_table", 3), Instr("instr_clear_actions", 2, Action("act_output", 1), Action("act_group", 2))))
	if done("L1 every single action of the extended alphabet in every container; every match field alone") {
		return
	}
	// L2: all ordered pairs of buildable action kinds in every container; all pairs of match reps; instruction pairs; bucket pairs
	var base []*wire.N
	for _, k := range ActionKinds[:25] {
		base = append(base, Action(k, len(base)))
	}
	seqs(base, 2, 2, func(s []*wire.N) {
		if !expired() {
			actionContainers(s, yield)
		}
	})
	mrep := MatchRep()
	seqs(mrep, 2, 2, func(s []*wire.N) {
		yield(FlowMod(0, Match(s...), Instr("instr_goto_table", 1)))
		yield(MultipartRequest(1, Match(clones(s...)...)))
	})
	arep := ActionsRep()
	instrs := []*wire.N{
		Instr("instr_goto_table", 1), Instr("instr_write_metadata", 2), Instr("instr_write_actions", 3), Instr("instr_apply_actions", 4),
	}
	for _, a := range arep {
		instrs = append(instrs, Instr("instr_apply_actions", 5, a.Clone()), Instr("instr_write_actions", 6, a.Clone(), Action("act_group", 1)))
	}
	seqs(instrs, 2, 2, func(s []*wire.N) {
		if expired() {
			return
		}
		yield(FlowMod(0, Match(mrep[0].Clone()), s...))
		yield(FlowMod(3, nil, clones(s...)...))
	})
	var bks []*wire.N
	bks = append(bks, Bucket(1))
	for _, a := range arep {
		bks = append(bks, Bucket(2, a.Clone()), Bucket(3, a.Clone(), Action("act_output", 2)))
	}
	seqs(bks, 2, 2, func(s []*wire.N) {
		if expired() {
			return
		}
		yield(GroupMod(0, 1, s...))
		yield(GroupMod(2, 0, clones(s...)...))
	})
	if done("L2 all ordered pairs: 25x25 action kinds in 5 containers, match reps, instructions, buckets") {
		return
	}
	// L2b: lists longer than two. All ordered triples over four actions of different sizes, and lists
	// of 4, 5 and 8 distinct kinds, in every container (with the builder histories this puts a prepend
	// in front of a list that already holds two or more children, and appends behind three or more)
	seqs(arep[:4], 3, 3, func(s []*wire.N) {
		if !expired() {
			actionContainers(s, yield)
		}
	})
	for _, ln := range []int{4, 5, 8} {
		for start := 0; start < 3; start++ {
			var l []*wire.N
			for i := 0; i < ln; i++ {
				l = append(l, base[(start*7+i*3)%len(base)].Clone())
			}
			actionContainers(l, yield)
		}
		var fl []*wire.N
		for i := 0; i < ln; i++ {
			fl = append(fl, mrep[i%len(mrep)].Clone())
		}
		yield(FlowMod(0, Match(fl...), Instr("instr_goto_table", 1)))
		var bl []*wire.N
		for i := 0; i < ln; i++ {
			bl = append(bl, bks[(i*2+1)%len(bks)].Clone())
		}
		yield(GroupMod(0, 1, bl...))
	}
	yield(FlowMod(0, nil, Instr("instr_meter", 1), Instr("instr_apply_actions", 2, Action("act_output", 1)), Instr("instr_write_actions", 3, Action("act_group", 2)), Instr("instr_write_metadata", 4), Instr("instr_goto_table", 5)))
	// the same match field more than once (the library encodes what it is given, in the order given)
	yield(FlowMod(0, Match(mrep[0].Clone(), mrep[1].Clone(), mrep[0].Clone(), mrep[3].Clone()), Instr("instr_goto_table", 1)))
	yield(FlowMod(0, Match(mrep[3].Clone(), mrep[1].Clone(), mrep[2].Clone(), mrep[1].Clone(), mrep[4].Clone(), mrep[2].Clone(), mrep[6].Clone()), Instr("instr_goto_table", 1)))
	yield(MultipartRequest(1, Match(mrep[2].Clone(), mrep[0].Clone(), mrep[2].Clone(), mrep[5].Clone(), mrep[7].Clone())))
	if done("L2b ordered triples over four size-distinct actions and lists of 4, 5, 8 distinct children in every container") {
		return
	}
	// nesting: bundle add around representatives of every kind, bundle add inside bundle add, 64 KiB boundary
	reps := []*wire.N{
		Simple("echo_request"), Hello(), SetConfig("set_config"), FlowMod(0, Match(mrep[3].Clone()), Instr("instr_apply_actions", 1, arep[3].Clone())),
		FlowMod(3, nil, Instr("instr_goto_table", 1)), GroupMod(0, 1, Bucket(1, arep[4].Clone())), GroupMod(2, 0, Bucket(1)),
		PacketOut(Payload(60), true, Action("act_output", 1)), PacketOut(nil, false), PortMod(), MultipartRequest(1, Match(mrep[1].Clone())),
		MultipartRequest(0, nil), Experimenter(wire.NXVendor, 20, wire.New("nx_set_controller_id").Set("ID", 7)), BundleCtrl(0, 1),
	}
	for _, a := range arep {
		reps = append(reps, FlowMod(0, nil, Instr("instr_apply_actions", 1, a.Clone())))
	}
	for _, m := range reps {
		for fl := uint64(0); fl < 2; fl++ {
			yield(BundleAdd(m.Clone(), fl))
		}
		yield(BundleAdd(BundleAdd(m.Clone(), 1), 2))
	}
	// bundle-add carrying one and two experimenter properties behind the embedded message
	prop := func(rot int) *wire.N {
		return wire.New("bundle_prop_experimenter").Set("ExperimenterID", PatU(4, rot)).Set("ExperimenterType", PatU(4, rot+1))
	}
	for _, m := range reps[:6] {
		b1 := BundleAdd(m.Clone(), 1)
		b1.S["VendorData"].Add("Properties", prop(1))
		yield(b1)
		b2 := BundleAdd(m.Clone(), 2)
		b2.S["VendorData"].Add("Properties", prop(2), prop(4))
		yield(b2)
	}
	// the embedded message need not end on a 64-bit boundary (a packet-out with 1..9 bytes of data, an
	// echo-sized header alone): zero bytes up to the boundary stand between it and the first property
	for dl := 0; dl <= 9; dl++ {
		for np := 0; np <= 2; np++ {
			b := BundleAdd(PacketOut(Payload(dl), true, Action("act_output", 1)), 1)
			for i := 0; i < np; i++ {
				b.S["VendorData"].Add("Properties", prop(3+i))
			}
			yield(b)
		}
	}
	// the two sizes that bring the whole message to 65528 and 65535 bytes
	for _, total := range []int{65528, 65535, 65527, 32768} {
		yield(PacketOut(Payload(total-24), true))
		yield(PacketOut(Payload(total-24-16), true, Action("act_output", 1)))
		n := Action("nx_note", 1)
		n.SetB("Note", Pat(65528-56-8-16-10, 1)) // one maximal note in a flow mod
		if total == 65528 {
			yield(FlowMod(0, nil, Instr("instr_apply_actions", 1, n)))
		}
	}
	if done("nesting: bundle-add around every representative, bundle-add in bundle-add, 64 KiB boundary") {
		return
	}
	if !thorough {
		return
	}
	// L3 (thorough): triples over the residue-complete subsets
	seqs(arep, 3, 3, func(s []*wire.N) {
		if !expired() {
			actionContainers(s, yield)
		}
	})
	seqs(mrep[:8], 3, 3, func(s []*wire.N) {
		if !expired() {
			yield(FlowMod(0, Match(s...), Instr("instr_goto_table", 1)))
		}
	})
	seqs(instrs[:8], 3, 3, func(s []*wire.N) {
		if !expired() {
			yield(FlowMod(0, nil, s...))
		}
	})
	seqs(bks[:7], 3, 3, func(s []*wire.N) {
		if !expired() {
			yield(GroupMod(0, 1, s...))
		}
	})
	if done("L3 all ordered triples over the residue-complete subsets of actions, match fields, instructions, buckets") {
		return
	}
	// L4 (thorough): all ordered triples over every action kind (buildable and literal-built), all
	// 4-sequences over five size-distinct actions, all triples over the twelve match representatives
	var all []*wire.N
	for _, k := range ActionKinds {
		all = append(all, Action(k, len(all)))
	}
	seqs(all, 3, 3, func(s []*wire.N) {
		if !expired() {
			actionContainers(s, yield)
		}
	})
	seqs(arep[:5], 4, 4, func(s []*wire.N) {
		if !expired() {
			actionContainers(s, yield)
		}
	})
	seqs(mrep, 3, 3, func(s []*wire.N) {
		if !expired() {
			yield(FlowMod(0, Match(s...), Instr("instr_goto_table", 1)))
		}
	})
	done("L4 all ordered triples over all 32 action kinds in 5 containers, 4-sequences over five size-distinct actions, triples over the twelve match representatives")
}

// LateGrowthShapes are trees in which a conntrack action with nested actions is followed by another
// action of the same list: they are additionally built with the conntrack action attached bare and
// filled afterwards (builder history LateGrow).
func LateGrowthShapes() []*wire.N {
	ct := func(rot int, nested ...*wire.N) *wire.N {
		c := Action("nx_ct", rot)
		c.Add("Actions", nested...)
		return c
	}
	m := Match(OxmByName("OXM_OF_IN_PORT", false, 1))
	var out []*wire.N
	for _, ik := range []string{"instr_apply_actions", "instr_write_actions"} {
		out = append(out,
			FlowMod(0, m.Clone(), Instr(ik, 1, ct(1, Nat(3, 1, 2)), Action("act_output", 2))),
			FlowMod(0, m.Clone(), Instr(ik, 2, ct(2, Nat(0x13, 1, 3), Action("nx_ct_clear", 1)), Action("nx_note", 3)), Instr("instr_goto_table", 4)),
			FlowMod(1, m.Clone(), Instr(ik, 3, Action("act_group", 1), ct(3, Nat(1, 1, 4)), ct(4, Nat(2, 1, 5)), Action("act_output", 5))),
			BundleAdd(FlowMod(0, m.Clone(), Instr(ik, 1, ct(5, Nat(3, 1, 2)), Action("act_output", 2))), 1),
		)
	}
	out = append(out, PacketOut(Payload(48), true, ct(6, Nat(3, 1, 2)), Action("act_output", 3)))
	return out
}
