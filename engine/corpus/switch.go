package corpus

import (
	"verif/wire"
)

// Packets used as packet-in payloads (well-formed, built byte by byte from the RFC layouts).
func EthFrame(kind string) []byte {
	dst := []byte{0x01, 0x02, 0x03, 0x04, 0x05, 0x06}
	src := []byte{0x11, 0x12, 0x13, 0x14, 0x15, 0x16}
	eth := func(etype uint16, payload []byte) []byte {
		b := append(append([]byte{}, dst...), src...)
		b = append(b, byte(etype>>8), byte(etype))
		return append(b, payload...)
	}
	ipv4 := func(proto byte, payload []byte) []byte {
		tl := 20 + len(payload)
		h := []byte{0x45, 0x00, byte(tl >> 8), byte(tl), 0x12, 0x34, 0x40, 0x00, 64, proto, 0xab, 0xcd, 10, 0, 0, 1, 10, 0, 0, 2}
		return append(h, payload...)
	}
	udp := func(payload []byte) []byte {
		l := 8 + len(payload)
		return append([]byte{0x04, 0x00, 0x00, 0x35, byte(l >> 8), byte(l), 0x55, 0x66}, payload...)
	}
	switch kind {
	case "eth-opaque":
		return eth(0x88b5, Payload(46))
	case "vlan":
		b := append(append([]byte{}, dst...), src...)
		b = append(b, 0x81, 0x00, 0x60, 0x64, 0x08, 0x00) // pcp 3, vid 100
		return append(b, ipv4(17, udp(Payload(10)))...)
	case "arp":
		a := []byte{0, 1, 8, 0, 6, 4, 0, 1}
		a = append(a, src...)
		a = append(a, 10, 0, 0, 1)
		a = append(a, 0, 0, 0, 0, 0, 0)
		a = append(a, 10, 0, 0, 2)
		return eth(0x0806, a)
	case "ipv4-udp":
		return eth(0x0800, ipv4(17, udp(Payload(18))))
	case "ipv4-icmp":
		return eth(0x0800, ipv4(1, append([]byte{8, 0, 0x12, 0x34}, Payload(8)...)))
	case "ipv4-tcp":
		return eth(0x0800, ipv4(6, append([]byte{0x04, 0x00, 0x00, 0x50, 0, 0, 0, 1, 0, 0, 0, 2, 0x50, 0x12, 0x20, 0x00, 0xaa, 0xbb, 0, 0}, Payload(4)...)))
	case "ipv6-udp":
		p := udp(Payload(12))
		h := []byte{0x60, 0x01, 0x23, 0x45, byte(len(p) >> 8), byte(len(p)), 17, 64}
		h = append(h, Pat(16, 1)...)
		h = append(h, Pat(16, 2)...)
		return eth(0x86dd, append(h, p...))
	case "ipv6-hbh-icmp":
		icmp := append([]byte{128, 0, 0x11, 0x22}, Payload(4)...)
		hbh := []byte{58, 0, 5, 2, 0, 0, 1, 0} // router alert + PadN
		pl := append(hbh, icmp...)
		h := []byte{0x60, 0x00, 0x00, 0x00, byte(len(pl) >> 8), byte(len(pl)), 0, 255}
		h = append(h, Pat(16, 3)...)
		h = append(h, Pat(16, 4)...)
		return eth(0x86dd, append(h, pl...))
	case "big":
		return eth(0x0800, ipv4(17, udp(Payload(1458))))
	}
	return nil
}

var PacketKinds = []string{"eth-opaque", "vlan", "arp", "ipv4-udp", "ipv4-icmp", "ipv4-tcp", "ipv6-udp", "ipv6-hbh-icmp", "big"}

func PortDesc(rot int) *wire.N {
	n := wire.New("port").Set("PortNo", PatU(4, rot)).SetB("HWAddr", Pat(6, rot+1)).SetB("Name", append([]byte("eth-port"), make([]byte, 8)...))
	for i, f := range []string{"Config", "State", "Curr", "Advertised", "Supported", "Peer", "CurrSpeed", "MaxSpeed"} {
		n.Set(f, PatU(4, rot+2+i))
	}
	return n
}

func PacketIn(reason uint64, match *wire.N, data []byte) *wire.N {
	if match == nil {
		match = Match()
	}
	return wire.New("packet_in").Set("Xid", 0).Set("BufferId", PatU(4, 1)).Set("TotalLen", uint64(len(data))).Set("Reason", reason).
		Set("TableId", PatU(1, 2)).Set("Cookie", PatU(8, 3)).SetS("Match", match).SetB("Data", data)
}

func FlowRemoved(match *wire.N) *wire.N {
	if match == nil {
		match = Match()
	}
	return wire.New("flow_removed").Set("Xid", PatU(4, 9)).Set("Cookie", PatU(8, 1)).Set("Priority", PatU(2, 2)).Set("Reason", 2).Set("TableId", PatU(1, 3)).
		Set("DurationSec", PatU(4, 4)).Set("DurationNSec", PatU(4, 5)).Set("IdleTimeout", PatU(2, 6)).Set("HardTimeout", PatU(2, 7)).
		Set("PacketCount", PatU(8, 8)).Set("ByteCount", PatU(8, 9)).SetS("Match", match)
}

func FlowStatsRec(rot int, match *wire.N, instrs ...*wire.N) *wire.N {
	if match == nil {
		match = Match()
	}
	n := wire.New("flow_stats").Set("TableId", PatU(1, rot)).Set("DurationSec", PatU(4, rot+1)).Set("DurationNSec", PatU(4, rot+2)).
		Set("Priority", PatU(2, rot+3)).Set("IdleTimeout", PatU(2, rot+4)).Set("HardTimeout", PatU(2, rot+5)).Set("Flags", PatU(2, rot+6)).
		Set("Cookie", PatU(8, rot+7)).Set("PacketCount", PatU(8, rot+8)).Set("ByteCount", PatU(8, rot+9)).SetS("Match", match)
	if len(instrs) > 0 {
		n.SetL("Instructions", instrs)
	}
	return n
}

func StatsRec(kind string, rot int) *wire.N {
	n := wire.New(kind)
	switch kind {
	case "desc_stats":
		n.SetB("MfrDesc", padTo([]byte("Nicira, Inc."), 256)).SetB("HWDesc", padTo([]byte("Open vSwitch"), 256)).SetB("SWDesc", padTo([]byte("2.17.0"), 256)).
			SetB("SerialNum", padTo([]byte("None"), 32)).SetB("DPDesc", padTo(Pat(40, rot), 256))
	case "aggregate_stats":
		n.Set("PacketCount", PatU(8, rot)).Set("ByteCount", PatU(8, rot+1)).Set("FlowCount", PatU(4, rot+2))
	case "table_stats":
		n.Set("TableId", PatU(1, rot)).Set("ActiveCount", PatU(4, rot+1)).Set("LookupCount", PatU(8, rot+2)).Set("MatchedCount", PatU(8, rot+3))
	case "port_stats":
		n.Set("PortNo", PatU(4, rot))
		for i, f := range []string{"RxPackets", "TxPackets", "RxBytes", "TxBytes", "RxDropped", "TxDropped", "RxErrors", "TxErrors", "RxFrameErr", "RxOverErr", "RxCRCErr", "Collisions"} {
			n.Set(f, PatU(8, rot+1+i))
		}
		n.Set("DurationSec", PatU(4, rot+2)).Set("DurationNSec", PatU(4, rot+3))
	case "queue_stats":
		n.Set("PortNo", PatU(4, rot)).Set("QueueId", PatU(4, rot+1)).Set("TxBytes", PatU(8, rot+2)).Set("TxPackets", PatU(8, rot+3)).Set("TxErrors", PatU(8, rot+4)).
			Set("DurationSec", PatU(4, rot+5)).Set("DurationNSec", PatU(4, rot+6))
	}
	return n
}

func padTo(b []byte, n int) []byte {
	out := make([]byte, n)
	copy(out, b)
	return out
}

func MultipartReply(typ uint64, recs ...*wire.N) *wire.N {
	n := wire.New("multipart_reply").Set("Xid", PatU(4, 3)).Set("Type", typ).Set("Flags", 0)
	if len(recs) > 0 {
		n.SetL("Body", recs)
	}
	return n
}

func ErrorMsg(typ, code uint64, data []byte) *wire.N {
	return wire.New("error").Set("Xid", PatU(4, 2)).Set("Type", typ).Set("Code", code).SetB("Data", data)
}

// DecodeOnlyActions are action kinds the library decodes but has no constructor for.
func DecodeOnlyActions() []*wire.N {
	var out []*wire.N
	for i, k := range ActionKinds[25:] {
		out = append(out, Action(k, i))
	}
	return out
}

// PktTreeByBytes remembers the packet tree behind each packet-in payload taken from the packet
// corpus (the deviation explorer uses it to find the length-like fields inside the payload).
var PktTreeByBytes = map[string]*wire.N{}

// Switch enumerates the switch-originated messages (specification-conformant, built from the model).
func Switch(thorough bool, expired func() bool, level func(name string, complete bool), yield func(n *wire.N)) {
	done := func(name string) bool {
		level(name, !expired())
		return expired()
	}
	xid := func(n *wire.N) *wire.N { return n.Set("Xid", PatU(4, 7)) }
	// hello: 1..3 bitmaps, 1..2 elements (incl. an element of unknown type, which must be skipped)
	for nb := 1; nb <= 3; nb++ {
		e := wire.New("hello_elem_versionbitmap").Set("Type", 1).SetB("Bitmaps", Pat(4*nb, nb))
		yield(xid(wire.New("hello").Add("Elements", e)))
		yield(xid(wire.New("hello").Add("Elements", e.Clone(), wire.New("hello_elem_versionbitmap").Set("Type", 1).SetB("Bitmaps", Pat(4, 9)))))
	}
	yield(xid(wire.New("hello")))
	// an element that lists no version at all (4 bytes of header, 4 of padding): alone, first, in the middle, last
	{
		empty := func() *wire.N { return wire.New("hello_elem_versionbitmap").Set("Type", 1).SetB("Bitmaps", []byte{}) }
		full := func(r int) *wire.N { return wire.New("hello_elem_versionbitmap").Set("Type", 1).SetB("Bitmaps", Pat(4, r)) }
		yield(xid(wire.New("hello").Add("Elements", empty())))
		yield(xid(wire.New("hello").Add("Elements", empty(), full(1))))
		yield(xid(wire.New("hello").Add("Elements", full(1), empty(), full(2))))
		yield(xid(wire.New("hello").Add("Elements", full(3), empty())))
	}
	// version negotiation: a switch that also speaks a later (or only an earlier) version puts its own
	// highest version into the header of its hello and lists 1.3 in the bitmap; the error answering
	// a failed negotiation carries the version of its sender
	for _, v := range []uint64{1, 2, 3, 5, 6} {
		e := wire.New("hello_elem_versionbitmap").Set("Type", 1).SetB("Bitmaps", []byte{0, 0, 0, byte(1<<4 | 1<<v)})
		yield(xid(wire.New("hello").Set("Version", v).Add("Elements", e)))
		yield(xid(wire.New("hello").Set("Version", v)))
		yield(ErrorMsg(0, 0, []byte("incompatible version")).Set("Version", v))
	}
	// errors: every error type, data 0/1/64 bytes; experimenter error
	for _, et := range []uint64{0, 1, 2, 3, 4, 5, 6, 7, 8, 9, 10, 11, 12, 13} {
		for _, dl := range []int{0, 1, 64} {
			yield(ErrorMsg(et, PatU(2, int(et))&0xf, Payload(dl)))
		}
	}
	// the failed request is echoed in full or cut by the switch wherever it likes: data beyond 64 bytes
	yield(ErrorMsg(1, 2, Payload(65)))
	yield(ErrorMsg(4, 8, Payload(200)))
	yield(ErrorMsg(5, 1, Payload(1464)))
	yield(wire.New("error_exp").Set("Xid", 5).Set("Code", 2308).Set("ExperimenterID", wire.ONFVendor).SetB("Data", Payload(120)))
	for _, dl := range []int{0, 1, 64} {
		yield(wire.New("error_exp").Set("Xid", 5).Set("Code", 2300+uint64(dl)%16).Set("ExperimenterID", wire.ONFVendor).SetB("Data", Payload(dl)))
	}
	for _, k := range []string{"echo_request", "echo_reply"} {
		yield(xid(wire.New(k)))
		yield(xid(wire.New(k).SetB("Data", Payload(5))))
	}
	yield(xid(wire.New("barrier_reply")))
	yield(xid(wire.New("features_reply").SetB("DPID", Pat(8, 1)).Set("Buffers", PatU(4, 2)).Set("NumTables", PatU(1, 3)).Set("AuxilaryId", PatU(1, 4)).
		Set("Capabilities", PatU(4, 5)).Set("Actions", PatU(4, 6))))
	yield(xid(SetConfig("get_config_reply")))
	for r := uint64(0); r < 3; r++ {
		yield(xid(wire.New("port_status").Set("Reason", r).SetS("Desc", PortDesc(int(r)))))
	}
	yield(FlowRemoved(nil))
	yield(FlowRemoved(Match(OxmByName("OXM_OF_IN_PORT", false, 1), OxmByName("OXM_OF_ETH_TYPE", false, 2))))
	for reason := uint64(0); reason < 3; reason++ {
		for _, pk := range PacketKinds {
			yield(PacketIn(reason, Match(OxmByName("OXM_OF_IN_PORT", false, 1)), EthFrame(pk)))
		}
	}
	yield(PacketIn(0, Match(OxmByName("OXM_OF_IN_PORT", false, 1)), nil))
	// every frame of the packet corpus (all IPv6 extension-header chains, IPv4 options, VLAN tags,
	// ARP, opaque ethertypes) as packet-in payload, encoded by the reference packet encoder
	if PktEncoder != nil {
		seenPk := map[string]bool{}
		Packets(false, func(p *wire.N) {
			if p.K != "eth" {
				return
			}
			if v := p.S["VLAN"]; v != nil && v.U["VID"] == 0 {
				return // priority tags are a known finding of C09: the payload would not compare
			}
			b := PktEncoder(p)
			if len(b) > 400 || seenPk[string(b)] {
				return
			}
			seenPk[string(b)] = true
			PktTreeByBytes[string(b)] = p
			yield(PacketIn(1, Match(OxmByName("OXM_OF_IN_PORT", false, 2)), b))
		})
	}
	// multipart replies, record counts 0..3
	for _, t := range []struct {
		typ  uint64
		kind string
	}{{0, "desc_stats"}, {2, "aggregate_stats"}, {3, "table_stats"}, {4, "port_stats"}, {5, "queue_stats"}} {
		for cnt := 0; cnt <= 3; cnt++ {
			var recs []*wire.N
			for i := 0; i < cnt; i++ {
				recs = append(recs, StatsRec(t.kind, i))
			}
			yield(MultipartReply(t.typ, recs...))
		}
	}
	for cnt := 0; cnt <= 3; cnt++ {
		var recs []*wire.N
		for i := 0; i < cnt; i++ {
			recs = append(recs, FlowStatsRec(i, Match(OxmByName("OXM_OF_IN_PORT", false, i)), Instr("instr_apply_actions", i, Action("act_output", i)), Instr("instr_goto_table", i+1)))
		}
		yield(MultipartReply(1, recs...))
	}
	yield(Experimenter(wire.NXVendor, 26, wire.New("nx_tlv_table_reply").Set("MaxSpace", PatU(4, 1)).Set("MaxFields", PatU(2, 2))).Set("Xid", 3))
	for k := 1; k <= 3; k++ {
		m := wire.New("nx_tlv_table_reply").Set("MaxSpace", PatU(4, 1)).Set("MaxFields", PatU(2, 2))
		for i := 0; i < k; i++ {
			m.Add("TlvMaps", TlvMap(i))
		}
		yield(Experimenter(wire.NXVendor, 26, m).Set("Xid", 4))
	}
	for _, t := range []uint64{1, 3, 5, 7} {
		yield(BundleCtrl(t, 3).Set("Xid", 6))
	}
	if done("S0 every switch-originated kind; hello 1..3 bitmaps/1..2 elements; all error types x 3 data sizes; packet-in x reasons x 9 payload kinds; stats record counts 0..3") {
		return
	}
	// every supported match-field kind with and without mask, in flow-removed, packet-in and flow stats
	for _, f := range AllMatchFields() {
		yield(FlowRemoved(Match(f.Clone())))
		yield(PacketIn(1, Match(f.Clone()), EthFrame("arp")))
		yield(MultipartReply(1, FlowStatsRec(1, Match(f.Clone()))))
	}
	if done("S1 every match field of the tables, unmasked and masked, in flow-removed, packet-in and flow-stats") {
		return
	}
	// every action (buildable and decode-only) and instruction inside flow-stats records; pairs
	all := append(ExtActions(thorough), DecodeOnlyActions()...)
	for _, a := range all {
		yield(MultipartReply(1, FlowStatsRec(1, nil, Instr("instr_apply_actions", 1, a.Clone()))))
		yield(MultipartReply(1, FlowStatsRec(2, nil, Instr("instr_write_actions", 1, a.Clone(), Action("act_output", 3))), FlowStatsRec(3, nil)))
		if expired() {
			break
		}
	}
	for _, k := range InstrKinds {
		yield(MultipartReply(1, FlowStatsRec(1, nil, Instr(k, 1))))
		yield(MultipartReply(1, FlowStatsRec(1, nil, Instr(k, 1), Instr("instr_goto_table", 2))))
	}
	if done("S2 every action (extended alphabet + decode-only kinds) and instruction kind inside flow-stats records") {
		return
	}
	var base []*wire.N
	for i, k := range ActionKinds {
		base = append(base, Action(k, i))
	}
	seqs(base, 2, 2, func(s []*wire.N) {
		if !expired() {
			yield(MultipartReply(1, FlowStatsRec(1, Match(OxmByName("OXM_OF_ETH_DST", true, 1)), Instr("instr_apply_actions", 1, s...))))
		}
	})
	mrep := MatchRep()
	seqs(mrep, 2, 3, func(s []*wire.N) {
		if !expired() && (len(s) == 2 || thorough) {
			yield(FlowRemoved(Match(s...)))
			yield(PacketIn(1, Match(clones(s...)...), EthFrame("ipv4-udp")))
		}
	})
	done("S3 all ordered pairs of the 32 action kinds in flow-stats; match-field pairs (thorough: triples) in flow-removed and packet-in")
}
