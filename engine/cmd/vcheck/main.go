//go:build verif

// Command vcheck runs one property check: vcheck <ID> <tier> [--replay file] [--worker ...].
package main

import (
	"fmt"
	"io"
	"log"
	"os"

	"github.com/sirupsen/logrus"

	"verif/checks"
	"verif/ev"
)

func main() {
	log.SetOutput(io.Discard)
	logrus.SetOutput(io.Discard)
	logrus.SetLevel(logrus.PanicLevel)
	if len(os.Args) < 3 {
		fmt.Fprintln(os.Stderr, "usage: vcheck <ID> <quick|thorough> [--replay file]")
		os.Exit(3)
	}
	id, tier := os.Args[1], os.Args[2]
	f := checks.Registry[id]
	if f == nil {
		fmt.Fprintln(os.Stderr, "unknown check", id)
		os.Exit(3)
	}
	args := os.Args[3:]
	if len(args) >= 1 && args[0] == "--worker" {
		checks.RunWorker(id, tier, args[1:])
		return
	}
	r := ev.NewRun(id, tier)
	replay := ""
	for i := 0; i+1 < len(args); i++ {
		if args[i] == "--replay" {
			replay = args[i+1]
		}
	}
	f(r, replay)
	code := r.Finish()
	if checks.HarnessFailed() && code == 0 {
		code = 3
	}
	os.Exit(code)
}
