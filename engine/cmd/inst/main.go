// Command inst is the instrumenter: it reads the current non-test sources of the library's
// packages from the repository working tree, writes rewritten copies to a scratch directory and
// emits an overlay file for `go build -overlay`. Nothing in the repository is modified.
//
//	R1  verifrt.Tick() at every function entry and loop body
//	R2  channel operations, select, range-over-channel, close, go statements -> verifrt helpers;
//	    imports of sync, sync/atomic, time -> shim packages of the same API shape
//	R3  verifrt.Access(&v, write) before statements touching package-level variables, with
//	    read-modify-write statements split so that a scheduling point sits between read and write
//	R4  generated accessor files (build tag verif) exposing what harnesses must observe
//
// A construct the rewriter cannot handle faithfully is a hard error (exit 2), never skipped.
package main

import (
	"bytes"
	"encoding/json"
	"flag"
	"fmt"
	"go/ast"
	"go/importer"
	"go/parser"
	"go/printer"
	"go/token"
	"go/types"
	"os"
	"path/filepath"
	"sort"
	"strings"
)

const modPath = "github.com/contiv/libOpenflow"
const rtPath = modPath + "/verifrt"

var pkgs = []string{"util", "common", "ofbase", "protocol", "openflow13"}

var shimFor = map[string]string{
	"sync":        rtPath + "/vsync",
	"sync/atomic": rtPath + "/vatomic",
	"time":        rtPath + "/vtime",
}

type rewriter struct {
	fset    *token.FileSet
	info    *types.Info
	pkg     *types.Package
	n       int
	usedRT  bool
	stats   map[string]int
	errs    []string
	curFile string
	curFunc string
	shared  bool // inside a function that mentions aliasable package-level storage
}

func (r *rewriter) tmp(p string) *ast.Ident {
	r.n++
	return ast.NewIdent(fmt.Sprintf("_v%s%d", p, r.n))
}

func (r *rewriter) rt(name string) ast.Expr {
	r.usedRT = true
	return &ast.SelectorExpr{X: ast.NewIdent("verifrt"), Sel: ast.NewIdent(name)}
}

func (r *rewriter) call(name string, args ...ast.Expr) *ast.CallExpr {
	return &ast.CallExpr{Fun: r.rt(name), Args: args}
}

func (r *rewriter) fail(n ast.Node, msg string) {
	r.errs = append(r.errs, fmt.Sprintf("%s: %s", r.fset.Position(n.Pos()), msg))
}

func (r *rewriter) isChan(e ast.Expr) bool {
	tv, ok := r.info.Types[e]
	if !ok || tv.Type == nil {
		return false
	}
	_, isc := tv.Type.Underlying().(*types.Chan)
	return isc
}

func (r *rewriter) isBuiltin(e ast.Expr, name string) bool {
	id, ok := e.(*ast.Ident)
	if !ok || id.Name != name {
		return false
	}
	_, isb := r.info.Uses[id].(*types.Builtin)
	return isb
}

// ---- expressions ---------------------------------------------------------------------------

func (r *rewriter) exprs(list []ast.Expr) []ast.Expr {
	for i, e := range list {
		list[i] = r.expr(e)
	}
	return list
}

func (r *rewriter) expr(e ast.Expr) ast.Expr {
	switch v := e.(type) {
	case nil:
		return nil
	case *ast.UnaryExpr:
		v.X = r.expr(v.X)
		if v.Op == token.ARROW {
			r.stats["recv"]++
			return r.call("Recv", v.X)
		}
		return v
	case *ast.BinaryExpr:
		v.X = r.expr(v.X)
		v.Y = r.expr(v.Y)
	case *ast.CallExpr:
		if r.isBuiltin(v.Fun, "close") && len(v.Args) == 1 {
			r.stats["close"]++
			return r.call("Close", r.expr(v.Args[0]))
		}
		v.Fun = r.expr(v.Fun)
		v.Args = r.exprs(v.Args)
	case *ast.ParenExpr:
		v.X = r.expr(v.X)
	case *ast.SelectorExpr:
		v.X = r.expr(v.X)
	case *ast.IndexExpr:
		v.X = r.expr(v.X)
		v.Index = r.expr(v.Index)
	case *ast.IndexListExpr:
		v.X = r.expr(v.X)
		v.Indices = r.exprs(v.Indices)
	case *ast.SliceExpr:
		v.X = r.expr(v.X)
		v.Low, v.High, v.Max = r.expr(v.Low), r.expr(v.High), r.expr(v.Max)
	case *ast.StarExpr:
		v.X = r.expr(v.X)
	case *ast.TypeAssertExpr:
		v.X = r.expr(v.X)
	case *ast.KeyValueExpr:
		v.Key = r.expr(v.Key)
		v.Value = r.expr(v.Value)
	case *ast.CompositeLit:
		v.Elts = r.exprs(v.Elts)
	case *ast.FuncLit:
		r.funcBody(v.Body)
	case *ast.Ident, *ast.BasicLit, *ast.ArrayType, *ast.StructType, *ast.FuncType, *ast.InterfaceType,
		*ast.MapType, *ast.ChanType, *ast.Ellipsis:
	default:
		r.fail(e, fmt.Sprintf("unsupported expression node %T", e))
	}
	return e
}

// ---- statements ----------------------------------------------------------------------------

func (r *rewriter) tick() ast.Stmt {
	r.stats["tick"]++
	return &ast.ExprStmt{X: r.call("Tick")}
}

func (r *rewriter) funcBody(b *ast.BlockStmt) {
	if b == nil {
		return
	}
	saved := r.shared
	r.shared = r.mentionsSharedStorage(b)
	b.List = append([]ast.Stmt{r.tick()}, r.block(b.List)...)
	r.shared = saved
}

// mentionsSharedStorage reports whether a function body refers to a package-level variable
// through which memory can be shared by alias (array, slice, map, pointer, struct, interface).
// Inside such a function every statement gets a scheduling point (rewrite R3b): once `buf :=
// scratch[:]` has been executed, writes through buf are writes to shared memory that no
// identifier-based analysis sees.
func (r *rewriter) mentionsSharedStorage(b *ast.BlockStmt) bool {
	found := false
	ast.Inspect(b, func(n ast.Node) bool {
		if found {
			return false
		}
		var e ast.Expr
		switch v := n.(type) {
		case *ast.FuncLit:
			return false
		case *ast.Ident:
			e = v
		case *ast.SelectorExpr:
			e = v
		default:
			return true
		}
		if obj := r.globalOf(e); obj != nil {
			switch obj.Type().Underlying().(type) {
			case *types.Array, *types.Slice, *types.Map, *types.Pointer, *types.Struct, *types.Interface:
				found = true
			}
		}
		return true
	})
	return found
}

func (r *rewriter) loopBody(b *ast.BlockStmt) {
	b.List = append([]ast.Stmt{r.tick()}, r.block(b.List)...)
}

func (r *rewriter) block(list []ast.Stmt) []ast.Stmt {
	var out []ast.Stmt
	for _, s := range list {
		if r.shared {
			switch s.(type) {
			case *ast.DeclStmt, *ast.EmptyStmt, *ast.LabeledStmt:
			default:
				r.stats["shared-storage-point"]++
				out = append(out, &ast.ExprStmt{X: r.call("Yield", &ast.BasicLit{Kind: token.STRING, Value: fmt.Sprintf("%q", "shared-storage@"+r.fset.Position(s.Pos()).String())})})
			}
		}
		out = append(out, r.stmt(s, nil)...)
	}
	return out
}

func define(lhs []ast.Expr, rhs ...ast.Expr) *ast.AssignStmt {
	return &ast.AssignStmt{Lhs: lhs, Tok: token.DEFINE, Rhs: rhs}
}

func blank() ast.Expr { return ast.NewIdent("_") }

// stmt rewrites one statement; label, when non-nil, is the label that was attached to it (range
// and select rewrites must keep the label on the loop/switch they generate).
func (r *rewriter) stmt(s ast.Stmt, label *ast.Ident) []ast.Stmt {
	wrapLabel := func(st ast.Stmt) ast.Stmt {
		if label != nil {
			return &ast.LabeledStmt{Label: label, Stmt: st}
		}
		return st
	}
	switch v := s.(type) {
	case nil:
		return nil
	case *ast.LabeledStmt:
		switch v.Stmt.(type) {
		case *ast.RangeStmt, *ast.SelectStmt:
			return r.stmt(v.Stmt, v.Label)
		}
		inner := r.stmt(v.Stmt, nil)
		if len(inner) == 0 {
			inner = []ast.Stmt{&ast.EmptyStmt{}}
		}
		v.Stmt = inner[len(inner)-1]
		return append(inner[:len(inner)-1], v)
	case *ast.SendStmt:
		r.stats["send"]++
		acc := r.accessBefore(v)
		return append(acc, wrapLabel(&ast.ExprStmt{X: r.call("Send", r.expr(v.Chan), r.expr(v.Value))}))
	case *ast.ExprStmt:
		acc := r.accessBefore(v)
		v.X = r.expr(v.X)
		return append(acc, wrapLabel(v))
	case *ast.AssignStmt:
		if st := r.splitRMW(v); st != nil {
			return st
		}
		acc := r.accessBefore(v)
		if len(v.Lhs) == 2 && len(v.Rhs) == 1 {
			if u, ok := v.Rhs[0].(*ast.UnaryExpr); ok && u.Op == token.ARROW {
				r.stats["recv2"]++
				v.Lhs = r.exprs(v.Lhs)
				v.Rhs[0] = r.call("Recv2", r.expr(u.X))
				return append(acc, wrapLabel(v))
			}
		}
		v.Lhs = r.exprs(v.Lhs)
		v.Rhs = r.exprs(v.Rhs)
		return append(acc, wrapLabel(v))
	case *ast.IncDecStmt:
		if st := r.splitIncDec(v); st != nil {
			return st
		}
		acc := r.accessBefore(v)
		v.X = r.expr(v.X)
		return append(acc, wrapLabel(v))
	case *ast.GoStmt:
		acc := r.accessBefore(v)
		return append(acc, wrapLabel(r.goStmt(v)))
	case *ast.DeferStmt:
		acc := r.accessBefore(v)
		v.Call.Fun = r.expr(v.Call.Fun)
		v.Call.Args = r.exprs(v.Call.Args)
		return append(acc, wrapLabel(v))
	case *ast.ReturnStmt:
		acc := r.accessBefore(v)
		v.Results = r.exprs(v.Results)
		return append(acc, wrapLabel(v))
	case *ast.BranchStmt, *ast.EmptyStmt:
		return []ast.Stmt{wrapLabel(s)}
	case *ast.DeclStmt:
		acc := r.accessBefore(v)
		if gd, ok := v.Decl.(*ast.GenDecl); ok {
			for _, sp := range gd.Specs {
				if vs, ok := sp.(*ast.ValueSpec); ok {
					if len(vs.Names) == 2 && len(vs.Values) == 1 {
						if u, ok := vs.Values[0].(*ast.UnaryExpr); ok && u.Op == token.ARROW {
							vs.Values[0] = r.call("Recv2", r.expr(u.X))
							continue
						}
					}
					vs.Values = r.exprs(vs.Values)
				}
			}
		}
		return append(acc, wrapLabel(v))
	case *ast.BlockStmt:
		v.List = r.block(v.List)
		return []ast.Stmt{wrapLabel(v)}
	case *ast.IfStmt:
		acc := r.accessBefore(v)
		r.ifStmt(v)
		return append(acc, wrapLabel(v))
	case *ast.ForStmt:
		acc := r.accessBefore(v)
		if v.Init != nil {
			v.Init = r.simple(v.Init)
		}
		v.Cond = r.expr(v.Cond)
		if v.Post != nil {
			v.Post = r.simple(v.Post)
		}
		r.loopBody(v.Body)
		return append(acc, wrapLabel(v))
	case *ast.RangeStmt:
		acc := r.accessBefore(v)
		if r.isChan(v.X) {
			return append(acc, r.rangeChan(v, label))
		}
		v.X = r.expr(v.X)
		r.loopBody(v.Body)
		return append(acc, wrapLabel(v))
	case *ast.SwitchStmt:
		acc := r.accessBefore(v)
		if v.Init != nil {
			v.Init = r.simple(v.Init)
		}
		v.Tag = r.expr(v.Tag)
		r.clauses(v.Body)
		return append(acc, wrapLabel(v))
	case *ast.TypeSwitchStmt:
		acc := r.accessBefore(v)
		if v.Init != nil {
			v.Init = r.simple(v.Init)
		}
		v.Assign = r.simple(v.Assign)
		r.clauses(v.Body)
		return append(acc, wrapLabel(v))
	case *ast.SelectStmt:
		return []ast.Stmt{r.selectStmt(v, label)}
	default:
		r.fail(s, fmt.Sprintf("unsupported statement node %T", s))
		return []ast.Stmt{s}
	}
}

// simple rewrites a statement that must stay a single simple statement (init/post positions).
func (r *rewriter) simple(s ast.Stmt) ast.Stmt {
	switch v := s.(type) {
	case *ast.AssignStmt:
		if len(v.Lhs) == 2 && len(v.Rhs) == 1 {
			if u, ok := v.Rhs[0].(*ast.UnaryExpr); ok && u.Op == token.ARROW {
				v.Rhs[0] = r.call("Recv2", r.expr(u.X))
				return v
			}
		}
		v.Lhs = r.exprs(v.Lhs)
		v.Rhs = r.exprs(v.Rhs)
		return v
	case *ast.ExprStmt:
		v.X = r.expr(v.X)
		return v
	case *ast.IncDecStmt:
		v.X = r.expr(v.X)
		return v
	case *ast.SendStmt:
		return &ast.ExprStmt{X: r.call("Send", r.expr(v.Chan), r.expr(v.Value))}
	case *ast.EmptyStmt:
		return v
	}
	r.fail(s, fmt.Sprintf("unsupported simple statement %T", s))
	return s
}

func (r *rewriter) ifStmt(v *ast.IfStmt) {
	if v.Init != nil {
		v.Init = r.simple(v.Init)
	}
	v.Cond = r.expr(v.Cond)
	v.Body.List = r.block(v.Body.List)
	switch e := v.Else.(type) {
	case *ast.IfStmt:
		r.ifStmt(e)
	case *ast.BlockStmt:
		e.List = r.block(e.List)
	}
}

func (r *rewriter) clauses(b *ast.BlockStmt) {
	for _, c := range b.List {
		cc := c.(*ast.CaseClause)
		cc.List = r.exprs(cc.List)
		cc.Body = r.block(cc.Body)
	}
}

func (r *rewriter) goStmt(g *ast.GoStmt) ast.Stmt {
	r.stats["go"]++
	c := g.Call
	name := func(callee string) ast.Expr {
		return &ast.BasicLit{Kind: token.STRING, Value: fmt.Sprintf("%q", r.pkg.Name()+"."+callee)}
	}
	if fl, ok := c.Fun.(*ast.FuncLit); ok && len(c.Args) == 0 {
		r.funcBody(fl.Body)
		return &ast.ExprStmt{X: r.call("GoNamed", name(r.curFunc+".func"), fl)}
	}
	callee := "call"
	switch f := c.Fun.(type) {
	case *ast.Ident:
		callee = f.Name
	case *ast.SelectorExpr:
		callee = f.Sel.Name
	case *ast.FuncLit:
		callee = r.curFunc + ".func"
	}
	// evaluate function value and arguments now, as the go statement does
	var pre []ast.Stmt
	f := r.tmp("f")
	pre = append(pre, define([]ast.Expr{f}, r.expr(c.Fun)))
	var args []ast.Expr
	for _, a := range c.Args {
		t := r.tmp("a")
		pre = append(pre, define([]ast.Expr{t}, r.expr(a)))
		args = append(args, t)
	}
	inner := &ast.CallExpr{Fun: f, Args: args, Ellipsis: c.Ellipsis}
	lit := &ast.FuncLit{Type: &ast.FuncType{Params: &ast.FieldList{}}, Body: &ast.BlockStmt{List: []ast.Stmt{&ast.ExprStmt{X: inner}}}}
	pre = append(pre, &ast.ExprStmt{X: r.call("GoNamed", name(callee), lit)})
	return &ast.BlockStmt{List: pre}
}

func (r *rewriter) rangeChan(v *ast.RangeStmt, label *ast.Ident) ast.Stmt {
	r.stats["range-chan"]++
	if v.Value != nil {
		r.fail(v, "range over channel with two iteration variables")
	}
	ch := r.tmp("ch")
	ok := r.tmp("ok")
	var head []ast.Stmt
	recv := r.call("Recv2", ch)
	switch {
	case v.Key == nil:
		head = append(head, define([]ast.Expr{blank(), ok}, recv))
	case v.Tok == token.DEFINE:
		head = append(head, define([]ast.Expr{v.Key, ok}, recv))
	default:
		head = append(head, &ast.DeclStmt{Decl: &ast.GenDecl{Tok: token.VAR, Specs: []ast.Spec{&ast.ValueSpec{Names: []*ast.Ident{ok}, Type: ast.NewIdent("bool")}}}})
		head = append(head, &ast.AssignStmt{Lhs: []ast.Expr{r.expr(v.Key), ok}, Tok: token.ASSIGN, Rhs: []ast.Expr{recv}})
	}
	head = append(head, &ast.IfStmt{Cond: &ast.UnaryExpr{Op: token.NOT, X: ok}, Body: &ast.BlockStmt{List: []ast.Stmt{&ast.BranchStmt{Tok: token.BREAK}}}})
	body := append([]ast.Stmt{r.tick()}, head...)
	body = append(body, r.block(v.Body.List)...)
	var loop ast.Stmt = &ast.ForStmt{Body: &ast.BlockStmt{List: body}}
	if label != nil {
		loop = &ast.LabeledStmt{Label: label, Stmt: loop}
	}
	return &ast.BlockStmt{List: []ast.Stmt{define([]ast.Expr{ch}, r.expr(v.X)), loop}}
}

func (r *rewriter) selectStmt(v *ast.SelectStmt, label *ast.Ident) ast.Stmt {
	r.stats["select"]++
	var pre []ast.Stmt
	var cases []ast.Expr
	var clauses []ast.Stmt
	hasDefault := false
	idx := 0
	vi, vv, vok := r.tmp("i"), r.tmp("v"), r.tmp("ok")
	for _, c := range v.Body.List {
		cc := c.(*ast.CommClause)
		if cc.Comm == nil {
			hasDefault = true
			clauses = append(clauses, &ast.CaseClause{List: []ast.Expr{&ast.BasicLit{Kind: token.INT, Value: "-1"}}, Body: r.block(cc.Body)})
			continue
		}
		var body []ast.Stmt
		switch cm := cc.Comm.(type) {
		case *ast.SendStmt:
			ch, val := r.tmp("c"), r.tmp("s")
			pre = append(pre, define([]ast.Expr{ch}, r.expr(cm.Chan)), define([]ast.Expr{val}, r.expr(cm.Value)))
			cases = append(cases, r.call("SendCase", ch, val))
		case *ast.ExprStmt:
			u, ok := cm.X.(*ast.UnaryExpr)
			if !ok || u.Op != token.ARROW {
				r.fail(cm, "select case is not a receive")
				continue
			}
			ch := r.tmp("c")
			pre = append(pre, define([]ast.Expr{ch}, r.expr(u.X)))
			cases = append(cases, r.call("RecvCase", ch))
		case *ast.AssignStmt:
			u, ok := cm.Rhs[0].(*ast.UnaryExpr)
			if !ok || u.Op != token.ARROW || len(cm.Rhs) != 1 {
				r.fail(cm, "select case is not a receive")
				continue
			}
			ch := r.tmp("c")
			pre = append(pre, define([]ast.Expr{ch}, r.expr(u.X)))
			cases = append(cases, r.call("RecvCase", ch))
			rhs := []ast.Expr{r.call("As", ch, vv)}
			if len(cm.Lhs) == 2 {
				rhs = append(rhs, vok)
			}
			body = append(body, &ast.AssignStmt{Lhs: r.exprs(cm.Lhs), Tok: cm.Tok, Rhs: rhs})
		default:
			r.fail(cc, fmt.Sprintf("unsupported select communication %T", cc.Comm))
			continue
		}
		body = append(body, r.block(cc.Body)...)
		clauses = append(clauses, &ast.CaseClause{List: []ast.Expr{&ast.BasicLit{Kind: token.INT, Value: fmt.Sprint(idx)}}, Body: body})
		idx++
	}
	hd := "false"
	if hasDefault {
		hd = "true"
	}
	args := append([]ast.Expr{ast.NewIdent(hd)}, cases...)
	pre = append(pre, define([]ast.Expr{vi, vv, vok}, r.call("Select", args...)))
	pre = append(pre, &ast.AssignStmt{Lhs: []ast.Expr{blank(), blank()}, Tok: token.ASSIGN, Rhs: []ast.Expr{vv, vok}})
	var sw ast.Stmt = &ast.SwitchStmt{Tag: vi, Body: &ast.BlockStmt{List: clauses}}
	if label != nil {
		sw = &ast.LabeledStmt{Label: label, Stmt: sw}
	}
	pre = append(pre, sw)
	return &ast.BlockStmt{List: pre}
}

// ---- R3: package-level variables -----------------------------------------------------------

type gvar struct {
	obj   *types.Var
	expr  ast.Expr // expression denoting the variable (ident or pkg.ident)
	write bool
}

// globalOf returns the package-level variable of an instrumented package that e denotes.
func (r *rewriter) globalOf(e ast.Expr) *types.Var {
	var id *ast.Ident
	switch v := e.(type) {
	case *ast.Ident:
		id = v
	case *ast.SelectorExpr:
		if x, ok := v.X.(*ast.Ident); ok {
			if _, isPkg := r.info.Uses[x].(*types.PkgName); isPkg {
				id = v.Sel
			}
		}
	case *ast.ParenExpr:
		return r.globalOf(v.X)
	}
	if id == nil {
		return nil
	}
	obj, ok := r.info.Uses[id].(*types.Var)
	if !ok || obj.Pkg() == nil || obj.IsField() {
		return nil
	}
	if obj.Parent() != obj.Pkg().Scope() {
		return nil
	}
	if !strings.HasPrefix(obj.Pkg().Path(), modPath+"/") && obj.Pkg().Path() != modPath {
		return nil
	}
	return obj
}

// rootOf strips index/selector/slice/star/paren to find the variable an lvalue is rooted at.
func rootOf(e ast.Expr) ast.Expr {
	for {
		switch v := e.(type) {
		case *ast.IndexExpr:
			e = v.X
		case *ast.SliceExpr:
			e = v.X
		case *ast.StarExpr:
			e = v.X
		case *ast.ParenExpr:
			e = v.X
		case *ast.SelectorExpr:
			if x, ok := v.X.(*ast.Ident); ok {
				_ = x
			}
			return e
		default:
			return e
		}
	}
}

func (r *rewriter) isAtomicCall(c *ast.CallExpr) bool {
	sel, ok := c.Fun.(*ast.SelectorExpr)
	if !ok {
		return false
	}
	x, ok := sel.X.(*ast.Ident)
	if !ok {
		return false
	}
	pn, ok := r.info.Uses[x].(*types.PkgName)
	return ok && pn.Imported().Path() == "sync/atomic"
}

// collect finds the package-level variables mentioned in the header of a statement (not in
// nested blocks or function literals) and whether each may be written.
func (r *rewriter) collect(s ast.Stmt) []gvar {
	found := map[*types.Var]*gvar{}
	var order []*types.Var
	note := func(e ast.Expr, w bool) {
		obj := r.globalOf(e)
		if obj == nil {
			return
		}
		g := found[obj]
		if g == nil {
			g = &gvar{obj: obj, expr: e}
			found[obj] = g
			order = append(order, obj)
		}
		g.write = g.write || w
	}
	var walk func(n ast.Node, w bool)
	walkLhs := func(e ast.Expr) {
		// the root of an lvalue is written; index expressions inside are read
		root := e
		for {
			switch v := root.(type) {
			case *ast.IndexExpr:
				walk(v.Index, false)
				root = v.X
				continue
			case *ast.StarExpr:
				root = v.X
				continue
			case *ast.ParenExpr:
				root = v.X
				continue
			case *ast.SelectorExpr:
				if r.globalOf(v) == nil {
					root = v.X
					continue
				}
			}
			break
		}
		if r.globalOf(root) != nil {
			note(root, true)
		} else {
			walk(root, false)
		}
	}
	walk = func(n ast.Node, w bool) {
		switch v := n.(type) {
		case nil:
			return
		case *ast.FuncLit:
			return
		case *ast.Ident:
			note(v, w)
		case *ast.SelectorExpr:
			if r.globalOf(v) != nil {
				note(v, w)
				return
			}
			// method call / field of a global struct value: treated as possible write by callers
			walk(v.X, w)
		case *ast.UnaryExpr:
			if v.Op == token.AND {
				walk(v.X, true)
				return
			}
			walk(v.X, false)
		case *ast.SliceExpr:
			walk(v.X, true) // a slice of the variable escapes: assume it may be written through
			walk(v.Low, false)
			walk(v.High, false)
			walk(v.Max, false)
		case *ast.CallExpr:
			if r.isAtomicCall(v) {
				for _, a := range v.Args {
					if u, ok := a.(*ast.UnaryExpr); ok && u.Op == token.AND && r.globalOf(u.X) != nil {
						continue // the atomic shim is the scheduling point
					}
					walk(a, false)
				}
				return
			}
			if sel, ok := v.Fun.(*ast.SelectorExpr); ok && r.globalOf(sel.X) != nil {
				// method call on a package-level variable: pointer receivers may write
				obj := r.globalOf(sel.X)
				_, isPtr := obj.Type().Underlying().(*types.Pointer)
				_, isIface := obj.Type().Underlying().(*types.Interface)
				_, isFunc := obj.Type().Underlying().(*types.Signature)
				note(sel.X, !(isPtr || isIface || isFunc))
			} else {
				walk(v.Fun, false)
			}
			for _, a := range v.Args {
				walk(a, false)
			}
		case *ast.BinaryExpr:
			walk(v.X, false)
			walk(v.Y, false)
		case *ast.ParenExpr:
			walk(v.X, w)
		case *ast.IndexExpr:
			walk(v.X, w)
			walk(v.Index, false)
		case *ast.StarExpr:
			walk(v.X, false)
		case *ast.TypeAssertExpr:
			walk(v.X, false)
		case *ast.KeyValueExpr:
			walk(v.Value, false)
		case *ast.CompositeLit:
			for _, e := range v.Elts {
				walk(e, false)
			}
		}
	}
	switch v := s.(type) {
	case *ast.AssignStmt:
		for _, l := range v.Lhs {
			if v.Tok == token.DEFINE {
				continue
			}
			walkLhs(l)
		}
		for _, e := range v.Rhs {
			walk(e, false)
		}
	case *ast.IncDecStmt:
		walkLhs(v.X)
	case *ast.ExprStmt:
		walk(v.X, false)
	case *ast.SendStmt:
		walk(v.Chan, false)
		walk(v.Value, false)
	case *ast.GoStmt:
		walk(v.Call, false)
	case *ast.DeferStmt:
		walk(v.Call, false)
	case *ast.ReturnStmt:
		for _, e := range v.Results {
			walk(e, false)
		}
	case *ast.DeclStmt:
		if gd, ok := v.Decl.(*ast.GenDecl); ok {
			for _, sp := range gd.Specs {
				if vs, ok := sp.(*ast.ValueSpec); ok {
					for _, e := range vs.Values {
						walk(e, false)
					}
				}
			}
		}
	case *ast.IfStmt:
		for st := v; st != nil; {
			if st.Init != nil {
				for _, g := range r.collect(st.Init) {
					note(g.expr, g.write)
				}
			}
			walk(st.Cond, false)
			next, _ := st.Else.(*ast.IfStmt)
			st = next
		}
	case *ast.ForStmt:
		if v.Init != nil {
			for _, g := range r.collect(v.Init) {
				note(g.expr, g.write)
			}
		}
		walk(v.Cond, false)
		if v.Post != nil {
			for _, g := range r.collect(v.Post) {
				note(g.expr, g.write)
			}
		}
	case *ast.RangeStmt:
		walk(v.X, false)
	case *ast.SwitchStmt:
		if v.Init != nil {
			for _, g := range r.collect(v.Init) {
				note(g.expr, g.write)
			}
		}
		walk(v.Tag, false)
	case *ast.TypeSwitchStmt:
		if v.Init != nil {
			for _, g := range r.collect(v.Init) {
				note(g.expr, g.write)
			}
		}
		for _, g := range r.collect(v.Assign) {
			note(g.expr, g.write)
		}
	}
	var out []gvar
	for _, o := range order {
		out = append(out, *found[o])
	}
	return out
}

func (r *rewriter) accessCall(e ast.Expr, write bool) ast.Stmt {
	r.stats["access"]++
	w := "false"
	if write {
		w = "true"
	}
	return &ast.ExprStmt{X: r.call("Access", &ast.UnaryExpr{Op: token.AND, X: e}, ast.NewIdent(w))}
}

func (r *rewriter) accessBefore(s ast.Stmt) []ast.Stmt {
	var out []ast.Stmt
	for _, g := range r.collect(s) {
		out = append(out, r.accessCall(g.expr, g.write))
	}
	return out
}

// splitRMW turns `X op= e` and `X = e` on a package-level variable into read; point; write.
func (r *rewriter) splitRMW(v *ast.AssignStmt) []ast.Stmt {
	if len(v.Lhs) != 1 || len(v.Rhs) != 1 || v.Tok == token.DEFINE {
		return nil
	}
	obj := r.globalOf(v.Lhs[0])
	if obj == nil {
		return nil
	}
	r.stats["rmw-split"]++
	x := v.Lhs[0]
	var out []ast.Stmt
	// reads in the right-hand side (including of X itself) get their points first
	for _, g := range r.collect(&ast.ExprStmt{X: v.Rhs[0]}) {
		out = append(out, r.accessCall(g.expr, g.write))
	}
	t := r.tmp("t")
	rhs := r.expr(v.Rhs[0])
	if v.Tok != token.ASSIGN {
		binop := map[token.Token]token.Token{token.ADD_ASSIGN: token.ADD, token.SUB_ASSIGN: token.SUB, token.MUL_ASSIGN: token.MUL,
			token.QUO_ASSIGN: token.QUO, token.REM_ASSIGN: token.REM, token.AND_ASSIGN: token.AND, token.OR_ASSIGN: token.OR,
			token.XOR_ASSIGN: token.XOR, token.SHL_ASSIGN: token.SHL, token.SHR_ASSIGN: token.SHR, token.AND_NOT_ASSIGN: token.AND_NOT}[v.Tok]
		out = append(out, r.accessCall(x, false))
		rhs = &ast.BinaryExpr{X: x, Op: binop, Y: &ast.ParenExpr{X: rhs}}
	}
	blk := &ast.BlockStmt{List: []ast.Stmt{
		define([]ast.Expr{t}, rhs),
		r.accessCall(x, true),
		&ast.AssignStmt{Lhs: []ast.Expr{x}, Tok: token.ASSIGN, Rhs: []ast.Expr{t}},
	}}
	// a typed temporary keeps untyped constants assignable: declare via conversion-free define,
	// which is fine for every non-constant right-hand side; constants keep their default type
	// only if it matches, so fall back to the direct form for constant right-hand sides.
	if tv, ok := r.info.Types[v.Rhs[0]]; ok && tv.Value != nil && v.Tok == token.ASSIGN {
		blk = &ast.BlockStmt{List: []ast.Stmt{r.accessCall(x, true), &ast.AssignStmt{Lhs: []ast.Expr{x}, Tok: token.ASSIGN, Rhs: []ast.Expr{rhs}}}}
	}
	return append(out, blk)
}

func (r *rewriter) splitIncDec(v *ast.IncDecStmt) []ast.Stmt {
	if r.globalOf(v.X) == nil {
		return nil
	}
	r.stats["rmw-split"]++
	x := v.X
	op := token.ADD
	if v.Tok == token.DEC {
		op = token.SUB
	}
	t := r.tmp("t")
	return []ast.Stmt{
		r.accessCall(x, false),
		&ast.BlockStmt{List: []ast.Stmt{
			define([]ast.Expr{t}, &ast.BinaryExpr{X: x, Op: op, Y: &ast.BasicLit{Kind: token.INT, Value: "1"}}),
			r.accessCall(x, true),
			&ast.AssignStmt{Lhs: []ast.Expr{x}, Tok: token.ASSIGN, Rhs: []ast.Expr{t}},
		}},
	}
}

// ---- files ---------------------------------------------------------------------------------

func (r *rewriter) file(f *ast.File) {
	r.usedRT = false
	for _, d := range f.Decls {
		switch v := d.(type) {
		case *ast.FuncDecl:
			r.curFunc = v.Name.Name
			r.funcBody(v.Body)
		case *ast.GenDecl:
			// function literals in package-level initialisers get ticks too
			for _, sp := range v.Specs {
				if vs, ok := sp.(*ast.ValueSpec); ok {
					for i, e := range vs.Values {
						vs.Values[i] = r.initExpr(e)
					}
				}
			}
		}
	}
	// imports: shims keep the local name the file used
	for _, im := range f.Imports {
		p := strings.Trim(im.Path.Value, `"`)
		if shim, ok := shimFor[p]; ok {
			name := filepath.Base(p)
			if im.Name != nil {
				name = im.Name.Name
			}
			im.Name = ast.NewIdent(name)
			im.Path.Value = `"` + shim + `"`
			r.stats["shim-import"]++
		}
	}
	if r.usedRT {
		spec := &ast.ImportSpec{Name: ast.NewIdent("verifrt"), Path: &ast.BasicLit{Kind: token.STRING, Value: `"` + rtPath + `"`}}
		f.Decls = append([]ast.Decl{&ast.GenDecl{Tok: token.IMPORT, Specs: []ast.Spec{spec}}}, f.Decls...)
	}
}

// initExpr only instruments function literals inside package-level initialisers.
func (r *rewriter) initExpr(e ast.Expr) ast.Expr {
	ast.Inspect(e, func(n ast.Node) bool {
		if fl, ok := n.(*ast.FuncLit); ok {
			r.funcBody(fl.Body)
			return false
		}
		return true
	})
	return e
}

type accessor struct {
	pkg  string
	code string
}

func has(scope *types.Scope, name, typ string) bool {
	o := scope.Lookup(name)
	if o == nil {
		return false
	}
	return typ == "" || types.TypeString(o.Type(), func(p *types.Package) string { return p.Name() }) == typ
}

func accessorFor(p string, tp *types.Package) string {
	var b strings.Builder
	sc := tp.Scope()
	fmt.Fprintf(&b, "//go:build verif\n\npackage %s\n\n// Generated by the instrumenter (R4): read-only access for harnesses.\n\n", tp.Name())
	u16 := "func(ofs uint16, nBits uint16) uint16"
	switch p {
	case "openflow13":
		b.WriteString("import \"sort\"\n\n")
		gen2 := func(exported, name, sig string) {
			if has(sc, name, sig) {
				fmt.Fprintf(&b, "func %s(a, b uint16) (uint16, bool) { return %s(a, b), true }\n", exported, name)
			} else {
				fmt.Fprintf(&b, "func %s(a, b uint16) (uint16, bool) { return 0, false }\n", exported)
			}
		}
		gen1 := func(exported, name string) {
			if has(sc, name, "func(ofsNbits uint16) uint16") {
				fmt.Fprintf(&b, "func %s(a uint16) (uint16, bool) { return %s(a), true }\n", exported, name)
			} else {
				fmt.Fprintf(&b, "func %s(a uint16) (uint16, bool) { return 0, false }\n", exported)
			}
		}
		gen2("VerifEncodeOfsNbits", "encodeOfsNbits", u16)
		gen2("VerifEncodeOfsNbitsStartEnd", "encodeOfsNbitsStartEnd", "func(start uint16, end uint16) uint16")
		gen1("VerifDecodeOfs", "decodeOfs")
		gen1("VerifDecodeNbits", "decodeNbits")
		if has(sc, "oxxFieldHeaderMap", "map[string]*openflow13.MatchField") {
			b.WriteString(`
// VerifRegistryKeys returns the registered names, sorted.
func VerifRegistryKeys() []string {
	var ks []string
	for k := range oxxFieldHeaderMap {
		ks = append(ks, k)
	}
	sort.Strings(ks)
	return ks
}

// VerifRegistryEntry returns the raw registered header for a key (no copy semantics implied).
func VerifRegistryEntry(k string) (class uint16, field uint8, length uint8, hasMask bool, ok bool) {
	f, found := oxxFieldHeaderMap[k]
	if !found || f == nil {
		return 0, 0, 0, false, false
	}
	return f.Class, f.Field, f.Length, f.HasMask, true
}
`)
		} else {
			b.WriteString("var _ = sort.Strings\nfunc VerifRegistryKeys() []string { return nil }\nfunc VerifRegistryEntry(k string) (uint16, uint8, uint8, bool, bool) { return 0, 0, 0, false, false }\n")
		}
	case "common":
		if has(sc, "messageXid", "uint32") {
			b.WriteString("func VerifGetXid() (uint32, bool) { return messageXid, true }\nfunc VerifSetXid(v uint32) bool { messageXid = v; return true }\n")
		} else {
			b.WriteString("func VerifGetXid() (uint32, bool) { return 0, false }\nfunc VerifSetXid(v uint32) bool { return false }\n")
		}
	case "util":
		ok := false
		if o := sc.Lookup("MessageStream"); o != nil {
			if st, isStruct := o.Type().Underlying().(*types.Struct); isStruct {
				for i := 0; i < st.NumFields(); i++ {
					if st.Field(i).Name() == "pool" && types.TypeString(st.Field(i).Type(), func(p *types.Package) string { return p.Name() }) == "*util.BufferPool" {
						ok = true
					}
				}
			}
		}
		if ok {
			b.WriteString("func (m *MessageStream) VerifPool() *BufferPool { return m.pool }\n")
		} else {
			b.WriteString("func (m *MessageStream) VerifPool() *BufferPool { return nil }\n")
		}
	default:
		return ""
	}
	return b.String()
}

func main() {
	repo := flag.String("repo", "/repo", "repository working tree")
	out := flag.String("out", "", "scratch directory for rewritten sources and overlay.json")
	rtDir := flag.String("rt", "/verif/engine/rt", "directory holding the verifrt runtime sources")
	as := flag.String("as", "", "module root the overlay entries are keyed under (default: -repo); lets a scratch copy of the tree stand in for /repo")
	plain := flag.Bool("plain", false, "do not rewrite; only add the runtime and accessor files (for the -race build)")
	flag.Parse()
	if *out == "" {
		fmt.Fprintln(os.Stderr, "inst: -out required")
		os.Exit(2)
	}
	if *as == "" {
		*as = *repo
	}
	remap := func(p string) string {
		if rel, err := filepath.Rel(*repo, p); err == nil && !strings.HasPrefix(rel, "..") {
			return filepath.Join(*as, rel)
		}
		return p
	}
	if err := os.Chdir(*repo); err != nil {
		fmt.Fprintln(os.Stderr, err)
		os.Exit(2)
	}
	overlay := map[string]string{}
	// runtime package
	filepath.Walk(*rtDir, func(p string, fi os.FileInfo, err error) error {
		if err == nil && !fi.IsDir() && strings.HasSuffix(p, ".go") {
			rel, _ := filepath.Rel(*rtDir, p)
			overlay[filepath.Join(*as, "verifrt", rel)] = p
		}
		return nil
	})
	fset := token.NewFileSet()
	imp := importer.ForCompiler(fset, "source", nil)
	stats := map[string]int{}
	var allErrs []string
	typeSwitchOnChild := []string{}
	for _, p := range pkgs {
		dir := filepath.Join(*repo, p)
		parsed, err := parser.ParseDir(fset, dir, func(fi os.FileInfo) bool { return !strings.HasSuffix(fi.Name(), "_test.go") }, 0)
		if err != nil {
			fmt.Fprintln(os.Stderr, "inst: parse:", err)
			os.Exit(2)
		}
		for _, pk := range parsed {
			var names []string
			for n := range pk.Files {
				names = append(names, n)
			}
			sort.Strings(names)
			var files []*ast.File
			for _, n := range names {
				files = append(files, pk.Files[n])
			}
			info := &types.Info{Uses: map[*ast.Ident]types.Object{}, Defs: map[*ast.Ident]types.Object{}, Types: map[ast.Expr]types.TypeAndValue{}}
			conf := types.Config{Importer: imp, Error: func(err error) {}}
			tp, err := conf.Check(modPath+"/"+p, fset, files, info)
			if err != nil {
				fmt.Fprintln(os.Stderr, "inst: type check of", p, "failed:", err)
				os.Exit(2)
			}
			od := filepath.Join(*out, "src", p)
			os.MkdirAll(od, 0o755)
			if !*plain {
				for i, f := range files {
					// record type switches / assertions inside encoders (compositional-reduction premise, DESIGN 3.3)
					for _, d := range f.Decls {
						if fd, ok := d.(*ast.FuncDecl); ok && fd.Body != nil && (fd.Name.Name == "MarshalBinary" || fd.Name.Name == "Len") {
							ast.Inspect(fd.Body, func(n ast.Node) bool {
								switch n.(type) {
								case *ast.TypeSwitchStmt, *ast.TypeAssertExpr:
									typeSwitchOnChild = append(typeSwitchOnChild, fset.Position(n.Pos()).String())
								}
								return true
							})
						}
					}
					r := &rewriter{fset: fset, info: info, pkg: tp, stats: stats, curFile: names[i]}
					r.file(f)
					allErrs = append(allErrs, r.errs...)
					var buf bytes.Buffer
					if err := printer.Fprint(&buf, fset, f); err != nil {
						fmt.Fprintln(os.Stderr, "inst: print:", err)
						os.Exit(2)
					}
					dst := filepath.Join(od, filepath.Base(names[i]))
					os.WriteFile(dst, buf.Bytes(), 0o644)
					overlay[remap(names[i])] = dst
				}
			} else if *as != *repo {
				// plain mode over a stand-in tree: the unmodified sources still have to replace /repo's
				for _, n := range names {
					overlay[remap(n)] = n
				}
			}
			if code := accessorFor(p, tp); code != "" {
				dst := filepath.Join(od, "zz_verif_access.go")
				os.WriteFile(dst, []byte(code), 0o644)
				overlay[remap(filepath.Join(dir, "zz_verif_access.go"))] = dst
			}
		}
	}
	if len(allErrs) > 0 {
		for _, e := range allErrs {
			fmt.Fprintln(os.Stderr, "inst:", e)
		}
		os.Exit(2)
	}
	b, _ := json.MarshalIndent(map[string]any{"Replace": overlay}, "", " ")
	os.WriteFile(filepath.Join(*out, "overlay.json"), b, 0o644)
	sb, _ := json.Marshal(map[string]any{"rewrites": stats, "type_switch_in_encoders": typeSwitchOnChild})
	os.WriteFile(filepath.Join(*out, "inst_stats.json"), sb, 0o644)
}
