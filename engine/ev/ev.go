// Package ev is the shared bookkeeping of every check: tier/seed/deadline, counters for the
// evidence file, violation signatures, the committed known-findings file, replay artefacts and
// the exit code contract (0 = held on everything explored, 1 = VIOLATION line printed).
package ev

import (
	"bufio"
	"crypto/sha256"
	"encoding/hex"
	"encoding/json"
	"fmt"
	"os"
	"path/filepath"
	"sort"
	"strconv"
	"strings"
	"sync"
	"time"
)

// Root is the /verif directory (overridable for tests).
var Root = envOr("VERIF_ROOT", "/verif")

func envOr(k, d string) string {
	if v := os.Getenv(k); v != "" {
		return v
	}
	return d
}

// outRoot is where evidence and replay files go: /verif, unless a run against a stand-in tree
// (seeded-change testing, VERIF_OUT_DIR) must not overwrite the evidence of the real tree.
func outRoot() string { return envOr("VERIF_OUT_DIR", Root) }

// Known is one line of KNOWN_FINDINGS.txt.
type Known struct {
	Property string
	Sig      string
	What     string
	Max      map[string]int // optional per-tier ceiling on the number of failing cases under this signature
}

// Run is one execution of one check.
type Run struct {
	ID       string
	Tier     string
	Seed     int64
	Level    string
	Start    time.Time
	Deadline time.Time

	mu          sync.Mutex
	cov         map[string]any
	assumptions []string
	samples     []any
	sampleEvery int64
	nSample     int64
	viol        map[string]*violGroup
	outcomes    map[string]int64
	known       map[string]*Known
	deadlineHit bool
	incomplete  []string
	completed   []string
	counters    map[string]*int64
}

type violGroup struct {
	Sig    string
	What   string
	Count  int64
	First  any
	Digest string
}

// NewRun reads tier and seed from the environment/arguments and loads the known findings.
func NewRun(id, tier string) *Run {
	seed, _ := strconv.ParseInt(os.Getenv("VERIF_SEED"), 10, 64)
	r := &Run{ID: id, Tier: tier, Seed: seed, Level: "model_checking", Start: time.Now(),
		cov: map[string]any{}, viol: map[string]*violGroup{}, outcomes: map[string]int64{},
		known: map[string]*Known{}, counters: map[string]*int64{}}
	d := 4 * time.Minute
	if tier == "thorough" {
		d = 25 * time.Minute
	}
	if s := os.Getenv("VERIF_DEADLINE_S"); s != "" {
		if n, err := strconv.Atoi(s); err == nil {
			d = time.Duration(n) * time.Second
		}
	}
	r.Deadline = r.Start.Add(d)
	for _, k := range LoadKnown() {
		if k.Property == id {
			kk := k
			r.known[k.Sig] = &kk
		}
	}
	return r
}

// LoadKnown parses KNOWN_FINDINGS.txt. Lines: `known: property=<ID> sig=<sig> [max_quick=N] [max_thorough=N] :: <what>`;
// `fixed:` lines and comments are ignored (they suppress nothing).
func LoadKnown() []Known {
	f, err := os.Open(filepath.Join(Root, "KNOWN_FINDINGS.txt"))
	if err != nil {
		return nil
	}
	defer f.Close()
	var out []Known
	sc := bufio.NewScanner(f)
	sc.Buffer(make([]byte, 1<<20), 1<<20)
	for sc.Scan() {
		line := strings.TrimSpace(sc.Text())
		if !strings.HasPrefix(line, "known:") {
			continue
		}
		body := strings.TrimSpace(strings.TrimPrefix(line, "known:"))
		what := ""
		if i := strings.Index(body, " :: "); i >= 0 {
			what = strings.TrimSpace(body[i+4:])
			body = body[:i]
		}
		k := Known{What: what, Max: map[string]int{}}
		for _, tok := range strings.Fields(body) {
			kv := strings.SplitN(tok, "=", 2)
			if len(kv) != 2 {
				continue
			}
			switch kv[0] {
			case "property":
				k.Property = kv[1]
			case "sig":
				k.Sig = kv[1]
			case "max_quick":
				k.Max["quick"], _ = strconv.Atoi(kv[1])
			case "max_thorough":
				k.Max["thorough"], _ = strconv.Atoi(kv[1])
			}
		}
		if k.Property != "" && k.Sig != "" {
			out = append(out, k)
		}
	}
	return out
}

// Expired reports whether the internal deadline has passed; the caller stops expanding and
// the run is marked non-exhaustive. A deadline is never a violation.
func (r *Run) Expired() bool {
	if time.Now().After(r.Deadline) {
		r.mu.Lock()
		r.deadlineHit = true
		r.mu.Unlock()
		return true
	}
	return false
}

func (r *Run) Thorough() bool { return r.Tier == "thorough" }

// Set records a coverage key.
func (r *Run) Set(k string, v any) { r.mu.Lock(); r.cov[k] = v; r.mu.Unlock() }

// Add adds to an integer coverage counter.
func (r *Run) Add(k string, n int64) {
	r.mu.Lock()
	p := r.counters[k]
	if p == nil {
		p = new(int64)
		r.counters[k] = p
	}
	*p += n
	r.mu.Unlock()
}

func (r *Run) Counter(k string) int64 {
	r.mu.Lock()
	defer r.mu.Unlock()
	if p := r.counters[k]; p != nil {
		return *p
	}
	return 0
}

// Outcome counts a distinct outcome class (for the distinct_nontrivial figure).
func (r *Run) Outcome(class string) { r.mu.Lock(); r.outcomes[class]++; r.mu.Unlock() }

func (r *Run) OutcomeN(class string, n int64) { r.mu.Lock(); r.outcomes[class] += n; r.mu.Unlock() }

func (r *Run) Assume(s string) { r.mu.Lock(); r.assumptions = append(r.assumptions, s); r.mu.Unlock() }

// Level completion bookkeeping.
func (r *Run) Completed(level string) {
	r.mu.Lock()
	r.completed = append(r.completed, level)
	r.mu.Unlock()
}
func (r *Run) Incomplete(level string) {
	r.mu.Lock()
	r.incomplete = append(r.incomplete, level)
	r.mu.Unlock()
}

// Sample keeps a few of the explored cases for the evidence file (first ones, then sparse).
func (r *Run) Sample(v any) {
	r.mu.Lock()
	r.nSample++
	n := r.nSample
	if len(r.samples) < 4 || (n&(n-1)) == 0 && len(r.samples) < 24 {
		r.samples = append(r.samples, v)
	}
	r.mu.Unlock()
}

// Violation records one violating case under a signature. replay is any JSON-able value that
// identifies the case so that `check <ID> --replay <file>` can re-execute it.
func (r *Run) Violation(sig, what string, replay any) {
	sig = strings.ReplaceAll(strings.TrimSpace(sig), " ", "_")
	r.mu.Lock()
	g := r.viol[sig]
	if g == nil {
		g = &violGroup{Sig: sig, What: what, First: replay}
		r.viol[sig] = g
	}
	g.Count++
	r.mu.Unlock()
}

// Violations returns how many distinct signatures were seen so far.
func (r *Run) Violations() int { r.mu.Lock(); defer r.mu.Unlock(); return len(r.viol) }

func digest(v any) string {
	b, _ := json.Marshal(v)
	h := sha256.Sum256(b)
	return hex.EncodeToString(h[:8])
}

// Finish writes the evidence file, prints KNOWN-FINDING / VIOLATION lines and returns the exit code.
func (r *Run) Finish() int {
	r.mu.Lock()
	defer r.mu.Unlock()
	exit := 0
	var sigs []string
	for s := range r.viol {
		sigs = append(sigs, s)
	}
	sort.Strings(sigs)
	knownSeen := []string{}
	nNew := 0
	for _, s := range sigs {
		g := r.viol[s]
		k := r.known[s]
		over := false
		if k != nil {
			if mx, ok := k.Max[r.Tier]; ok && int(g.Count) > mx {
				over = true
			}
		}
		if k != nil && !over {
			fmt.Printf("KNOWN-FINDING: property=%s %s [sig=%s cases=%d]\n", r.ID, k.What, s, g.Count)
			knownSeen = append(knownSeen, s)
			continue
		}
		nNew++
		exit = 1
		rep := map[string]any{"property": r.ID, "sig": s, "what": g.What, "cases_with_this_signature": g.Count, "tier": r.Tier, "case": g.First}
		if over {
			rep["note"] = fmt.Sprintf("signature is a known finding but %d cases fail where at most %d are recorded: new inputs reach a known defect", g.Count, k.Max[r.Tier])
		}
		dir := filepath.Join(outRoot(), "replays", r.ID)
		os.MkdirAll(dir, 0o755)
		path := filepath.Join(dir, digest([]any{s, g.First})+".json")
		b, _ := json.MarshalIndent(rep, "", " ")
		os.WriteFile(path, b, 0o644)
		fmt.Printf("VIOLATION property=%s replay=%s\n", r.ID, path)
		fmt.Printf("  sig=%s cases=%d :: %s\n", s, g.Count, g.What)
	}
	// evidence
	cov := map[string]any{}
	for k, v := range r.cov {
		cov[k] = v
	}
	for k, p := range r.counters {
		cov[k] = *p
	}
	distinct := 0
	oc := map[string]int64{}
	for k, v := range r.outcomes {
		if v > 0 {
			distinct++
			oc[k] = v
		}
	}
	if _, ok := cov["distinct_nontrivial"]; !ok {
		cov["distinct_nontrivial"] = distinct
	}
	cov["outcome_classes"] = oc
	if len(r.samples) == 0 {
		r.samples = []any{"(no sample recorded)"}
	}
	cov["samples"] = r.samples
	exhaustive := !r.deadlineHit && len(r.incomplete) == 0
	if v, ok := cov["exhaustive"]; ok {
		if b, ok := v.(bool); ok {
			exhaustive = exhaustive && b
		}
	}
	cov["exhaustive"] = exhaustive
	cov["deadline_hit"] = r.deadlineHit
	if r.completed == nil {
		r.completed = []string{}
	}
	cov["completed_levels"] = r.completed
	if len(r.incomplete) > 0 {
		cov["incomplete_levels"] = r.incomplete
	}
	cov["known_findings_seen"] = knownSeen
	cov["new_violation_signatures"] = nNew
	if distinct < 2 {
		cov["vacuous"] = true
	}
	if r.assumptions == nil {
		r.assumptions = []string{}
	}
	if r.completed == nil {
		r.completed = []string{}
	}
	evd := map[string]any{
		"property_id": r.ID, "tier": r.Tier, "seed": r.Seed, "level": r.Level,
		"coverage": cov, "assumptions": r.assumptions,
		"wall_s": float64(time.Since(r.Start).Milliseconds()) / 1000, "violations": nNew,
	}
	os.MkdirAll(filepath.Join(outRoot(), "evidence"), 0o755)
	b, _ := json.MarshalIndent(evd, "", " ")
	if err := os.WriteFile(filepath.Join(outRoot(), "evidence", r.ID+".json"), b, 0o644); err != nil {
		fmt.Fprintln(os.Stderr, "cannot write evidence:", err)
		if exit == 0 {
			exit = 3
		}
	}
	fmt.Printf("%s %s: exit=%d wall=%.1fs exhaustive=%v known=%d new=%d\n", r.ID, r.Tier, exit, time.Since(r.Start).Seconds(), exhaustive, len(knownSeen), nNew)
	return exit
}

// Hex helpers used by replay files.
func Hex(b []byte) string { return hex.EncodeToString(b) }
func UnHex(s string) []byte {
	b, _ := hex.DecodeString(s)
	return b
}

// LoadReplay reads the "case" member of a replay file.
func LoadReplay(path string, into any) error {
	b, err := os.ReadFile(path)
	if err != nil {
		return err
	}
	var w struct {
		Case json.RawMessage `json:"case"`
	}
	if err := json.Unmarshal(b, &w); err != nil {
		return err
	}
	return json.Unmarshal(w.Case, into)
}

// Exported is the serialisable part of a Run, used to ship worker results to the parent.
type Exported struct {
	Counters    map[string]int64
	Outcomes    map[string]int64
	Cov         map[string]any
	Samples     []any
	Viol        []ExportedViol
	Completed   []string
	Incomplete  []string
	DeadlineHit bool
	Assumptions []string
}

type ExportedViol struct {
	Sig   string
	What  string
	Count int64
	First any
}

func (r *Run) Export() Exported {
	r.mu.Lock()
	defer r.mu.Unlock()
	e := Exported{Counters: map[string]int64{}, Outcomes: r.outcomes, Cov: r.cov, Samples: r.samples,
		Completed: r.completed, Incomplete: r.incomplete, DeadlineHit: r.deadlineHit, Assumptions: r.assumptions}
	for k, p := range r.counters {
		e.Counters[k] = *p
	}
	for _, g := range r.viol {
		e.Viol = append(e.Viol, ExportedViol{g.Sig, g.What, g.Count, g.First})
	}
	return e
}

// Merge folds a worker's results into the parent run.
func (r *Run) Merge(e Exported) {
	for k, v := range e.Counters {
		r.Add(k, v)
	}
	r.mu.Lock()
	for k, v := range e.Outcomes {
		r.outcomes[k] += v
	}
	for k, v := range e.Cov {
		if _, ok := r.cov[k]; !ok {
			r.cov[k] = v
		}
	}
	for _, s := range e.Samples {
		if len(r.samples) < 24 {
			r.samples = append(r.samples, s)
		}
	}
	for _, v := range e.Viol {
		g := r.viol[v.Sig]
		if g == nil {
			g = &violGroup{Sig: v.Sig, What: v.What, First: v.First}
			r.viol[v.Sig] = g
		}
		g.Count += v.Count
	}
	seen := map[string]bool{}
	for _, c := range r.completed {
		seen[c] = true
	}
	for _, c := range e.Completed {
		if !seen[c] {
			r.completed = append(r.completed, c)
			seen[c] = true
		}
	}
	r.incomplete = append(r.incomplete, e.Incomplete...)
	r.deadlineHit = r.deadlineHit || e.DeadlineHit
	for _, a := range e.Assumptions {
		dup := false
		for _, b := range r.assumptions {
			dup = dup || a == b
		}
		if !dup {
			r.assumptions = append(r.assumptions, a)
		}
	}
	r.mu.Unlock()
}
