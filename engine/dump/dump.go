// Package dump prints any Go value as a deterministic tree (every field, exported or not,
// pointers followed cycle-safely, interfaces with their dynamic type, maps sorted) and finds
// byte slices that share memory with a given buffer.
package dump

import (
	"fmt"
	"net"
	"reflect"
	"sort"
	"strings"
	"unsafe"
)

// Options control normalisation.
type Options struct {
	// Normalise: nil and empty slices are equal; net.IP printed in 16-byte form; fields whose name
	// starts with "pad"/"zero"/"reserved" are skipped; fields listed in Skip are skipped.
	Normalise bool
	Skip      map[string]bool
	// ExportedOnly: unexported struct fields are not printed ("observable field values").
	ExportedOnly bool
	// FieldHook, when set, may print a struct field itself (return true) instead of the default.
	FieldHook func(structName, fieldName string, v reflect.Value) (string, bool)
}

var tIP = reflect.TypeOf(net.IP{})

// Dump returns the printed tree.
func Dump(v any, o Options) string {
	var b strings.Builder
	d := &dumper{o: o, seen: map[uintptr]bool{}, b: &b}
	d.val(reflect.ValueOf(v), 0)
	return b.String()
}

type dumper struct {
	o    Options
	seen map[uintptr]bool
	b    *strings.Builder
}

func (d *dumper) val(v reflect.Value, depth int) {
	if !v.IsValid() {
		d.b.WriteString("nil")
		return
	}
	if depth > 64 {
		d.b.WriteString("<deep>")
		return
	}
	switch v.Kind() {
	case reflect.Ptr:
		if v.IsNil() {
			d.b.WriteString("nil")
			return
		}
		p := v.Pointer()
		if d.seen[p] && v.Elem().Kind() == reflect.Struct {
			d.b.WriteString("<cycle>")
			return
		}
		d.seen[p] = true
		d.b.WriteString("&")
		d.val(v.Elem(), depth+1)
		delete(d.seen, p)
	case reflect.Interface:
		if v.IsNil() {
			d.b.WriteString("nil")
			return
		}
		fmt.Fprintf(d.b, "(%s)", v.Elem().Type())
		d.val(v.Elem(), depth+1)
	case reflect.Struct:
		t := v.Type()
		if d.o.ExportedOnly {
			// a struct that shows nothing but is a byte container (util.Buffer held by value: error data,
			// IPv4 options): what it holds is its observable value
			exported := 0
			for i := 0; i < t.NumField(); i++ {
				if t.Field(i).PkgPath == "" && !t.Field(i).Anonymous {
					exported++
				}
			}
			if exported == 0 {
				c := reflect.New(t).Elem()
				c.Set(v)
				if bb, ok := c.Addr().Interface().(interface{ Bytes() []byte }); ok {
					fmt.Fprintf(d.b, "%s{bytes:x%x}", t.Name(), bb.Bytes())
					return
				}
			}
		}
		d.b.WriteString(t.Name() + "{")
		for i := 0; i < t.NumField(); i++ {
			name := t.Field(i).Name
			if d.o.Skip[name] || d.o.Skip[t.Name()+"."+name] {
				continue
			}
			if d.o.ExportedOnly && t.Field(i).PkgPath != "" {
				continue
			}
			if d.o.Normalise {
				ln := strings.ToLower(name)
				if strings.HasPrefix(ln, "pad") || strings.HasPrefix(ln, "zero") || strings.HasPrefix(ln, "reserved") {
					continue
				}
			}
			d.b.WriteString(name + ":")
			if d.o.FieldHook != nil {
				if s, ok := d.o.FieldHook(t.Name(), name, v.Field(i)); ok {
					d.b.WriteString(s + " ")
					continue
				}
			}
			d.val(v.Field(i), depth+1)
			d.b.WriteString(" ")
		}
		d.b.WriteString("}")
	case reflect.Slice:
		if v.Type().Elem().Kind() == reflect.Uint8 {
			n := v.Len()
			if d.o.Normalise && v.Type() == tIP && n == 4 {
				d.b.WriteString("x00000000000000000000ffff")
				for i := 0; i < n; i++ {
					fmt.Fprintf(d.b, "%02x", v.Index(i).Uint())
				}
				return
			}
			if v.IsNil() && !d.o.Normalise {
				d.b.WriteString("nil")
				return
			}
			d.b.WriteString("x")
			for i := 0; i < n; i++ {
				fmt.Fprintf(d.b, "%02x", v.Index(i).Uint())
			}
			return
		}
		if v.IsNil() && !d.o.Normalise {
			d.b.WriteString("nil")
			return
		}
		d.b.WriteString("[")
		for i := 0; i < v.Len(); i++ {
			if i > 0 {
				d.b.WriteString(",")
			}
			d.val(v.Index(i), depth+1)
		}
		d.b.WriteString("]")
	case reflect.Array:
		if v.Type().Elem().Kind() == reflect.Uint8 {
			d.b.WriteString("x")
			for i := 0; i < v.Len(); i++ {
				fmt.Fprintf(d.b, "%02x", v.Index(i).Uint())
			}
			return
		}
		d.b.WriteString("[")
		for i := 0; i < v.Len(); i++ {
			if i > 0 {
				d.b.WriteString(",")
			}
			d.val(v.Index(i), depth+1)
		}
		d.b.WriteString("]")
	case reflect.Map:
		keys := v.MapKeys()
		sort.Slice(keys, func(i, j int) bool { return fmt.Sprint(keys[i]) < fmt.Sprint(keys[j]) })
		d.b.WriteString("map[")
		for _, k := range keys {
			fmt.Fprintf(d.b, "%v:", k)
			d.val(v.MapIndex(k), depth+1)
			d.b.WriteString(" ")
		}
		d.b.WriteString("]")
	case reflect.Bool:
		fmt.Fprint(d.b, v.Bool())
	case reflect.Int, reflect.Int8, reflect.Int16, reflect.Int32, reflect.Int64:
		fmt.Fprint(d.b, v.Int())
	case reflect.Uint, reflect.Uint8, reflect.Uint16, reflect.Uint32, reflect.Uint64, reflect.Uintptr:
		fmt.Fprintf(d.b, "%#x", v.Uint())
	case reflect.String:
		fmt.Fprintf(d.b, "%q", v.String())
	case reflect.Func, reflect.Chan, reflect.UnsafePointer:
		if v.IsNil() {
			d.b.WriteString("nil")
		} else {
			d.b.WriteString("<" + v.Kind().String() + ">")
		}
	default:
		fmt.Fprintf(d.b, "<%s>", v.Kind())
	}
}

// Overlaps walks a value and reports the paths of all byte slices / strings whose backing store
// intersects buf (used by C12: a parsed message must share no memory with its input).
func Overlaps(v any, buf []byte) []string {
	if cap(buf) == 0 {
		return nil
	}
	full := buf[:cap(buf)]
	lo := uintptr(unsafe.Pointer(&full[0]))
	hi := lo + uintptr(len(full))
	var out []string
	seen := map[uintptr]bool{}
	var walk func(v reflect.Value, path string, depth int)
	walk = func(v reflect.Value, path string, depth int) {
		if !v.IsValid() || depth > 64 {
			return
		}
		switch v.Kind() {
		case reflect.Ptr:
			if v.IsNil() || seen[v.Pointer()] {
				return
			}
			seen[v.Pointer()] = true
			walk(v.Elem(), path, depth+1)
		case reflect.Interface:
			if !v.IsNil() {
				walk(v.Elem(), path, depth+1)
			}
		case reflect.Struct:
			for i := 0; i < v.NumField(); i++ {
				walk(v.Field(i), path+"."+v.Type().Field(i).Name, depth+1)
			}
		case reflect.Slice:
			if v.IsNil() {
				return
			}
			if v.Cap() > 0 {
				sz := v.Type().Elem().Size()
				p := v.Pointer()
				end := p + uintptr(v.Cap())*sz
				if p < hi && end > lo && sz > 0 {
					out = append(out, fmt.Sprintf("%s (slice of %s, len %d cap %d, starts %d bytes into the input buffer)", path, v.Type().Elem(), v.Len(), v.Cap(), int64(p)-int64(lo)))
				}
			}
			k := v.Type().Elem().Kind()
			if k == reflect.Ptr || k == reflect.Interface || k == reflect.Struct || k == reflect.Slice {
				for i := 0; i < v.Len(); i++ {
					walk(v.Index(i), fmt.Sprintf("%s[%d]", path, i), depth+1)
				}
			}
		case reflect.Array:
			k := v.Type().Elem().Kind()
			if k == reflect.Ptr || k == reflect.Interface || k == reflect.Struct || k == reflect.Slice {
				for i := 0; i < v.Len(); i++ {
					walk(v.Index(i), fmt.Sprintf("%s[%d]", path, i), depth+1)
				}
			}
		case reflect.String:
			if v.Len() > 0 {
				p := uintptr(unsafe.Pointer(unsafe.StringData(v.String())))
				if p < hi && p+uintptr(v.Len()) > lo {
					out = append(out, path+" (string)")
				}
			}
		case reflect.Map:
			for _, k := range v.MapKeys() {
				walk(v.MapIndex(k), fmt.Sprintf("%s[%v]", path, k), depth+1)
			}
		}
	}
	walk(reflect.ValueOf(v), "msg", 0)
	return out
}

// SharedMemory walks two values and reports memory both can reach and that is writable through
// either: slices whose backing arrays (up to their capacity) intersect, and pointers to the same
// struct. Two values built independently of each other must share none (a write through one,
// e.g. a decoder filling a preallocated buffer, would show in the other).
func SharedMemory(a, b any) []string {
	type span struct {
		lo, hi uintptr
		path   string
	}
	var spans []span
	ptrs := map[uintptr]string{}
	var walk func(v reflect.Value, path string, depth int, record bool, out *[]string)
	seen := map[uintptr]bool{}
	walk = func(v reflect.Value, path string, depth int, record bool, out *[]string) {
		if !v.IsValid() || depth > 64 {
			return
		}
		switch v.Kind() {
		case reflect.Ptr:
			if v.IsNil() {
				return
			}
			p := v.Pointer()
			if v.Elem().Kind() == reflect.Struct && v.Elem().Type().Size() > 0 {
				if record {
					ptrs[p] = path
				} else if w, ok := ptrs[p]; ok {
					*out = append(*out, fmt.Sprintf("%s and %s point to the same %s", w, path, v.Elem().Type()))
				}
			}
			key := p ^ uintptr(depth)<<56
			if record {
				key ^= 1 << 55
			}
			if seen[key] {
				return
			}
			seen[key] = true
			walk(v.Elem(), path, depth+1, record, out)
		case reflect.Interface:
			if !v.IsNil() {
				walk(v.Elem(), path, depth+1, record, out)
			}
		case reflect.Struct:
			for i := 0; i < v.NumField(); i++ {
				walk(v.Field(i), path+"."+v.Type().Field(i).Name, depth+1, record, out)
			}
		case reflect.Slice:
			if v.IsNil() || v.Cap() == 0 {
				return
			}
			sz := v.Type().Elem().Size()
			if sz > 0 {
				lo := v.Pointer()
				hi := lo + uintptr(v.Cap())*sz
				if record {
					spans = append(spans, span{lo, hi, path})
				} else {
					for _, s := range spans {
						if lo < s.hi && hi > s.lo {
							*out = append(*out, fmt.Sprintf("%s (len %d cap %d) and %s share a backing array", s.path, v.Len(), v.Cap(), path))
							break
						}
					}
				}
			}
			k := v.Type().Elem().Kind()
			if k == reflect.Ptr || k == reflect.Interface || k == reflect.Struct || k == reflect.Slice {
				for i := 0; i < v.Len(); i++ {
					walk(v.Index(i), fmt.Sprintf("%s[%d]", path, i), depth+1, record, out)
				}
			}
		case reflect.Array:
			k := v.Type().Elem().Kind()
			if k == reflect.Ptr || k == reflect.Interface || k == reflect.Struct || k == reflect.Slice {
				for i := 0; i < v.Len(); i++ {
					walk(v.Index(i), fmt.Sprintf("%s[%d]", path, i), depth+1, record, out)
				}
			}
		case reflect.Map:
			for _, k := range v.MapKeys() {
				walk(v.MapIndex(k), fmt.Sprintf("%s[%v]", path, k), depth+1, record, out)
			}
		}
	}
	var out []string
	walk(reflect.ValueOf(a), "first", 0, true, &out)
	walk(reflect.ValueOf(b), "second", 0, false, &out)
	return out
}
