// Package wire is the reference model of the OpenFlow 1.3 / Nicira / ONF-bundle wire grammar,
// written from the specification text transcribed in DESIGN.md Appendix A. It imports nothing
// from libOpenflow. A message is a generic tree (N); one bidirectional description per element
// kind (see codec.go) yields the encoder, the strict decoder/walker and the field map.
package wire

import (
	"bytes"
	"fmt"
	"sort"
	"strings"
)

// N is a node of the model tree: kind, scalar fields, byte-string fields, single children and
// child lists. Field names follow the library's exported field names where it has one, so that
// the binding layer can map them mechanically; the layout is the specification's.
type N struct {
	K string
	U map[string]uint64
	B map[string][]byte
	S map[string]*N
	L map[string][]*N
}

func New(kind string) *N {
	return &N{K: kind, U: map[string]uint64{}, B: map[string][]byte{}, S: map[string]*N{}, L: map[string][]*N{}}
}

func (n *N) init() {
	if n.U == nil {
		n.U = map[string]uint64{}
	}
	if n.B == nil {
		n.B = map[string][]byte{}
	}
	if n.S == nil {
		n.S = map[string]*N{}
	}
	if n.L == nil {
		n.L = map[string][]*N{}
	}
}

func (n *N) Set(name string, v uint64) *N   { n.init(); n.U[name] = v; return n }
func (n *N) SetB(name string, b []byte) *N  { n.init(); n.B[name] = append([]byte{}, b...); return n }
func (n *N) SetS(name string, c *N) *N      { n.init(); n.S[name] = c; return n }
func (n *N) Add(name string, cs ...*N) *N   { n.init(); n.L[name] = append(n.L[name], cs...); return n }
func (n *N) SetL(name string, cs []*N) *N   { n.init(); n.L[name] = cs; return n }
func (n *N) Get(name string) uint64         { return n.U[name] }
func (n *N) Has(name string) bool           { _, ok := n.U[name]; return ok }

// Clone copies the tree deeply.
func (n *N) Clone() *N {
	if n == nil {
		return nil
	}
	c := New(n.K)
	for k, v := range n.U {
		c.U[k] = v
	}
	for k, v := range n.B {
		c.B[k] = append([]byte{}, v...)
	}
	for k, v := range n.S {
		c.S[k] = v.Clone()
	}
	for k, v := range n.L {
		for _, e := range v {
			c.L[k] = append(c.L[k], e.Clone())
		}
	}
	return c
}

// String prints the tree deterministically on one line.
func (n *N) String() string {
	if n == nil {
		return "<nil>"
	}
	var b strings.Builder
	n.write(&b)
	return b.String()
}

func (n *N) write(b *strings.Builder) {
	b.WriteString(n.K)
	b.WriteString("{")
	var ks []string
	for k := range n.U {
		ks = append(ks, k)
	}
	sort.Strings(ks)
	for _, k := range ks {
		fmt.Fprintf(b, "%s=%#x ", k, n.U[k])
	}
	ks = ks[:0]
	for k := range n.B {
		ks = append(ks, k)
	}
	sort.Strings(ks)
	for _, k := range ks {
		v := n.B[k]
		if len(v) > 24 {
			fmt.Fprintf(b, "%s=%x..(%d) ", k, v[:24], len(v))
		} else {
			fmt.Fprintf(b, "%s=%x ", k, v)
		}
	}
	ks = ks[:0]
	for k := range n.S {
		ks = append(ks, k)
	}
	sort.Strings(ks)
	for _, k := range ks {
		if n.S[k] == nil {
			continue
		}
		b.WriteString(k + "=")
		n.S[k].write(b)
		b.WriteString(" ")
	}
	ks = ks[:0]
	for k := range n.L {
		ks = append(ks, k)
	}
	sort.Strings(ks)
	for _, k := range ks {
		b.WriteString(k + "=[")
		for i, e := range n.L[k] {
			if i > 0 {
				b.WriteString(", ")
			}
			e.write(b)
		}
		b.WriteString("] ")
	}
	b.WriteString("}")
}

// Diff returns the path and description of the first difference between two trees ("" if equal).
// Absent scalar fields equal zero, absent byte fields equal empty, absent lists equal empty.
func Diff(want, got *N) string { return diff("", want, got) }

func diff(path string, a, b *N) string {
	if a == nil || b == nil {
		if a == b {
			return ""
		}
		return fmt.Sprintf("%s: one side is absent (want %v, got %v)", path, a, b)
	}
	if a.K != b.K {
		return fmt.Sprintf("%s: kind want %s, got %s", path, a.K, b.K)
	}
	p := path + a.K
	keys := map[string]bool{}
	for k := range a.U {
		keys[k] = true
	}
	for k := range b.U {
		keys[k] = true
	}
	for _, k := range sorted(keys) {
		if a.U[k] != b.U[k] {
			return fmt.Sprintf("%s.%s: want %#x, got %#x", p, k, a.U[k], b.U[k])
		}
	}
	keys = map[string]bool{}
	for k := range a.B {
		keys[k] = true
	}
	for k := range b.B {
		keys[k] = true
	}
	for _, k := range sorted(keys) {
		if !bytes.Equal(a.B[k], b.B[k]) {
			return fmt.Sprintf("%s.%s: want %s, got %s", p, k, short(a.B[k]), short(b.B[k]))
		}
	}
	keys = map[string]bool{}
	for k := range a.S {
		keys[k] = true
	}
	for k := range b.S {
		keys[k] = true
	}
	for _, k := range sorted(keys) {
		if d := diff(p+"."+k+"/", a.S[k], b.S[k]); d != "" {
			return d
		}
	}
	keys = map[string]bool{}
	for k := range a.L {
		keys[k] = true
	}
	for k := range b.L {
		keys[k] = true
	}
	for _, k := range sorted(keys) {
		la, lb := a.L[k], b.L[k]
		if len(la) != len(lb) {
			return fmt.Sprintf("%s.%s: want %d elements, got %d", p, k, len(la), len(lb))
		}
		for i := range la {
			if d := diff(fmt.Sprintf("%s.%s[%d]/", p, k, i), la[i], lb[i]); d != "" {
				return d
			}
		}
	}
	return ""
}

func sorted(m map[string]bool) []string {
	var ks []string
	for k := range m {
		ks = append(ks, k)
	}
	sort.Strings(ks)
	return ks
}

func short(b []byte) string {
	if len(b) > 20 {
		return fmt.Sprintf("%x..(%d bytes)", b[:20], len(b))
	}
	return fmt.Sprintf("%x", b)
}
