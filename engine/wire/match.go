package wire

import "fmt"

// OXM / NXM field table: (class, field) -> name, payload width in bytes (0 = variable), whether
// a mask is allowed. Transcribed from OpenFlow 1.3.5 Table 12 and OVS meta-flow.h (Appendix A).
type OxmInfo struct {
	Name     string
	Class    uint16
	Field    uint8
	Width    int
	Maskable bool
	MaxVar   int
}

var OxmTable = map[[2]uint16]*OxmInfo{}
var OxmByName = map[string]*OxmInfo{}

func oxm(class uint16, field uint8, name string, width int, maskable bool) {
	i := &OxmInfo{Name: name, Class: class, Field: field, Width: width, Maskable: maskable}
	OxmTable[[2]uint16{class, uint16(field)}] = i
	OxmByName[name] = i
}

func init() {
	basic := []struct {
		f uint8
		n string
		w int
		m bool
	}{
		{0, "OXM_OF_IN_PORT", 4, false}, {1, "OXM_OF_IN_PHY_PORT", 4, false}, {2, "OXM_OF_METADATA", 8, true},
		{3, "OXM_OF_ETH_DST", 6, true}, {4, "OXM_OF_ETH_SRC", 6, true}, {5, "OXM_OF_ETH_TYPE", 2, false},
		{6, "OXM_OF_VLAN_VID", 2, true}, {7, "OXM_OF_VLAN_PCP", 1, false}, {8, "OXM_OF_IP_DSCP", 1, false},
		{9, "OXM_OF_IP_ECN", 1, false}, {10, "OXM_OF_IP_PROTO", 1, false}, {11, "OXM_OF_IPV4_SRC", 4, true},
		{12, "OXM_OF_IPV4_DST", 4, true}, {13, "OXM_OF_TCP_SRC", 2, true}, {14, "OXM_OF_TCP_DST", 2, true},
		{15, "OXM_OF_UDP_SRC", 2, true}, {16, "OXM_OF_UDP_DST", 2, true}, {17, "OXM_OF_SCTP_SRC", 2, true},
		{18, "OXM_OF_SCTP_DST", 2, true}, {19, "OXM_OF_ICMPV4_TYPE", 1, false}, {20, "OXM_OF_ICMPV4_CODE", 1, false},
		{21, "OXM_OF_ARP_OP", 2, false}, {22, "OXM_OF_ARP_SPA", 4, true}, {23, "OXM_OF_ARP_TPA", 4, true},
		{24, "OXM_OF_ARP_SHA", 6, true}, {25, "OXM_OF_ARP_THA", 6, true}, {26, "OXM_OF_IPV6_SRC", 16, true},
		{27, "OXM_OF_IPV6_DST", 16, true}, {28, "OXM_OF_IPV6_FLABEL", 4, true}, {29, "OXM_OF_ICMPV6_TYPE", 1, false},
		{30, "OXM_OF_ICMPV6_CODE", 1, false}, {31, "OXM_OF_IPV6_ND_TARGET", 16, false}, {32, "OXM_OF_IPV6_ND_SLL", 6, false},
		{33, "OXM_OF_IPV6_ND_TLL", 6, false}, {34, "OXM_OF_MPLS_LABEL", 4, false}, {35, "OXM_OF_MPLS_TC", 1, false},
		{36, "OXM_OF_MPLS_BOS", 1, false}, {37, "OXM_OF_PBB_ISID", 3, true}, {38, "OXM_OF_TUNNEL_ID", 8, true},
		{39, "OXM_OF_IPV6_EXTHDR", 2, true},
		// accepted from later versions (OVS accepts them on 1.3 connections)
		{41, "OXM_OF_PBB_UCA", 1, false}, {42, "OXM_OF_TCP_FLAGS", 2, true}, {43, "OXM_OF_ACTSET_OUTPUT", 4, false},
	}
	for _, b := range basic {
		oxm(0x8000, b.f, b.n, b.w, b.m)
	}
	nxm0 := []struct {
		f uint8
		n string
		w int
	}{
		{0, "NXM_OF_IN_PORT", 2}, {1, "NXM_OF_ETH_DST", 6}, {2, "NXM_OF_ETH_SRC", 6}, {3, "NXM_OF_ETH_TYPE", 2},
		{4, "NXM_OF_VLAN_TCI", 2}, {5, "NXM_OF_IP_TOS", 1}, {6, "NXM_OF_IP_PROTO", 1}, {7, "NXM_OF_IP_SRC", 4},
		{8, "NXM_OF_IP_DST", 4}, {9, "NXM_OF_TCP_SRC", 2}, {10, "NXM_OF_TCP_DST", 2}, {11, "NXM_OF_UDP_SRC", 2},
		{12, "NXM_OF_UDP_DST", 2}, {13, "NXM_OF_ICMP_TYPE", 1}, {14, "NXM_OF_ICMP_CODE", 1}, {15, "NXM_OF_ARP_OP", 2},
		{16, "NXM_OF_ARP_SPA", 4}, {17, "NXM_OF_ARP_TPA", 4},
	}
	for _, b := range nxm0 {
		oxm(0x0000, b.f, b.n, b.w, true)
	}
	for i := 0; i < 16; i++ {
		oxm(0x0001, uint8(i), fmt.Sprintf("NXM_NX_REG%d", i), 4, true)
	}
	nxm1 := []struct {
		f uint8
		n string
		w int
	}{
		{16, "NXM_NX_TUN_ID", 8}, {17, "NXM_NX_ARP_SHA", 6}, {18, "NXM_NX_ARP_THA", 6}, {19, "NXM_NX_IPV6_SRC", 16},
		{20, "NXM_NX_IPV6_DST", 16}, {21, "NXM_NX_ICMPV6_TYPE", 1}, {22, "NXM_NX_ICMPV6_CODE", 1}, {23, "NXM_NX_ND_TARGET", 16},
		{24, "NXM_NX_ND_SLL", 6}, {25, "NXM_NX_ND_TLL", 6}, {26, "NXM_NX_IP_FRAG", 1}, {27, "NXM_NX_IPV6_LABEL", 4},
		{28, "NXM_NX_IP_ECN", 1}, {29, "NXM_NX_IP_TTL", 1}, {30, "NXM_NX_MPLS_TTL", 1}, {31, "NXM_NX_TUN_IPV4_SRC", 4},
		{32, "NXM_NX_TUN_IPV4_DST", 4}, {33, "NXM_NX_PKT_MARK", 4}, {34, "NXM_NX_TCP_FLAGS", 2}, {35, "NXM_NX_DP_HASH", 4},
		{36, "NXM_NX_RECIRC_ID", 4}, {37, "NXM_NX_CONJ_ID", 4}, {38, "NXM_NX_TUN_GBP_ID", 2}, {39, "NXM_NX_TUN_GBP_FLAGS", 1},
		{104, "NXM_NX_TUN_FLAGS", 2}, {105, "NXM_NX_CT_STATE", 4}, {106, "NXM_NX_CT_ZONE", 2}, {107, "NXM_NX_CT_MARK", 4},
		{108, "NXM_NX_CT_LABEL", 16}, {109, "NXM_NX_TUN_IPV6_SRC", 16}, {110, "NXM_NX_TUN_IPV6_DST", 16},
		{111, "NXM_NX_XXREG0", 16}, {112, "NXM_NX_XXREG1", 16}, {113, "NXM_NX_XXREG2", 16}, {114, "NXM_NX_XXREG3", 16},
		{119, "NXM_NX_CT_NW_PROTO", 1}, {120, "NXM_NX_CT_NW_SRC", 4}, {121, "NXM_NX_CT_NW_DST", 4},
		{122, "NXM_NX_CT_IPV6_SRC", 16}, {123, "NXM_NX_CT_IPV6_DST", 16}, {124, "NXM_NX_CT_TP_SRC", 2}, {125, "NXM_NX_CT_TP_DST", 2},
	}
	for _, b := range nxm1 {
		oxm(0x0001, b.f, b.n, b.w, true)
	}
	for i := 0; i < 8; i++ {
		oxm(0x0001, uint8(40+i), fmt.Sprintf("NXM_NX_TUN_METADATA%d", i), 0, true)
		OxmTable[[2]uint16{1, uint16(40 + i)}].MaxVar = 124
	}
}

// Match is ofp_match: type 1 (OXM), length excluding padding, OXM TLVs, zero padding to 8.
func Match(c *C, e *N) {
	e.K = "match"
	f := c.Begin("match")
	c.Const("match_type", 2, 1)
	c.Len(f, 2)
	c.Scope(f, Exact, 4)
	c.List(e, "Fields", Oxm)
	c.End(f, ExclPad8)
}

// Oxm is one OXM/NXM TLV. Tree: U Class, Field, HasMask, [ExperimenterID]; B Value, Mask.
func Oxm(c *C, e *N) {
	e.K = "oxm"
	f := c.Begin("oxm")
	c.URole(e, "Class", 2, "type")
	if c.Enc {
		c.mark("field_hasmask", 1, "type")
		c.putU(e.U["Field"]<<1|e.U["HasMask"]&1, 1)
	} else {
		c.need(1, "oxm field")
		v := c.getU(1)
		e.init()
		e.U["Field"], e.U["HasMask"] = v>>1, v&1
	}
	c.Len(f, 1)
	c.Scope(f, BodyOnly1, 0)
	if e.U["Class"] == 0xffff {
		c.URole(e, "ExperimenterID", 4, "type") // part of the field's identity, not a value to vary
	}
	if c.Enc {
		c.markN(e, "Value", len(e.B["Value"]), "bytes")
		c.buf = append(c.buf, e.B["Value"]...)
		if e.U["HasMask"] == 1 {
			c.markN(e, "Mask", len(e.B["Mask"]), "bytes")
			c.buf = append(c.buf, e.B["Mask"]...)
		}
		c.End(f, BodyOnly1)
		return
	}
	cls := uint16(e.U["Class"])
	lookupClass := cls
	if cls == 0xffff {
		// ONF experimenter fields reuse the basic numbering (tcp_flags 42, actset_output 43)
		if e.U["ExperimenterID"] != ONFVendor {
			c.fail("experimenter OXM with unknown experimenter id %#x", e.U["ExperimenterID"])
		}
		lookupClass = 0x8000
	}
	info := OxmTable[[2]uint16{lookupClass, uint16(e.U["Field"])}]
	if info == nil {
		c.fail("OXM class %#x field %d is not defined", cls, e.U["Field"])
	}
	left := c.end - c.pos
	w := info.Width
	if e.U["HasMask"] == 1 {
		if left%2 != 0 {
			c.fail("masked %s has an odd payload of %d bytes", info.Name, left)
		}
		left /= 2
	}
	if w == 0 {
		if left > info.MaxVar {
			c.fail("%s payload of %d bytes exceeds %d", info.Name, left, info.MaxVar)
		}
		w = left
	}
	if left != w {
		c.fail("%s is %d bytes wide, the TLV carries %d", info.Name, w, left)
	}
	c.B(e, "Value", w)
	if e.U["HasMask"] == 1 {
		c.B(e, "Mask", w)
	}
	c.End(f, BodyOnly1)
}

// HeaderWord packs a 32-bit NXM header (class<<16 | field<<9 | hasmask<<8 | length).
func HeaderWord(class uint16, field uint8, hasMask bool, length uint8) uint64 {
	v := uint64(class)<<16 | uint64(field)<<9 | uint64(length)
	if hasMask {
		v |= 1 << 8
	}
	return v
}

// checkHeaderWord verifies, when decoding, that a header word names a defined field with its
// registered length.
func (c *C) checkHeaderWord(name string, w uint64) {
	if c.Enc {
		return
	}
	info := OxmTable[[2]uint16{uint16(w >> 16), uint16(w >> 9 & 0x7f)}]
	if info == nil {
		c.fail("%s: header word %#08x names an undefined field", name, w)
	}
	l := int(w & 0xff)
	want := info.Width
	if w>>8&1 == 1 {
		want *= 2
	}
	if info.Width != 0 && l != want {
		c.fail("%s: header word %#08x carries length %d, %s is %d bytes wide", name, w, l, info.Name, want)
	}
}
