package wire

// Actions: standard (Appendix A "Actions") and Nicira (type 0xffff, vendor 0x2320, subtype).

var ActionCodes = NewCodes("action type", map[string]uint64{
	"act_output": 0, "act_copy_ttl_out": 11, "act_copy_ttl_in": 12, "act_set_mpls_ttl": 15, "act_dec_mpls_ttl": 16,
	"act_push_vlan": 17, "act_pop_vlan": 18, "act_push_mpls": 19, "act_pop_mpls": 20, "act_set_queue": 21,
	"act_group": 22, "act_set_nw_ttl": 23, "act_dec_nw_ttl": 24, "act_set_field": 25, "act_push_pbb": 26,
	"act_pop_pbb": 27, "act_experimenter": 0xffff,
})

var NXCodes = NewCodes("Nicira action subtype", map[string]uint64{
	"nx_resubmit": 1, "nx_reg_move": 6, "nx_reg_load": 7, "nx_note": 8, "nx_resubmit_table": 14, "nx_output_reg": 15,
	"nx_learn": 16, "nx_dec_ttl": 18, "nx_controller": 20, "nx_dec_ttl_cnt_ids": 21, "nx_reg_load2": 33,
	"nx_conjunction": 34, "nx_ct": 35, "nx_nat": 36, "nx_ct_clear": 43, "nx_ct_resubmit": 44,
})

func isNX(k string) bool { _, ok := NXCodes.ByKind[k]; return ok }

// Action is one action TLV.
func Action(c *C, e *N) {
	f := c.Begin("action")
	if c.Enc && isNX(e.K) {
		c.mark("type", 2, "type")
		c.putU(0xffff, 2)
	} else {
		c.Code(e, 2, ActionCodes)
	}
	c.Len(f, 2)
	c.Scope(f, InclPad8, 8)
	if c.Enc && isNX(e.K) || !c.Enc && e.K == "act_experimenter" {
		c.Const("vendor", 4, NXVendor)
		c.Code(e, 2, NXCodes)
		c.path[len(c.path)-1] = e.K
		nxAction(c, e, f)
		return
	}
	c.path[len(c.path)-1] = e.K
	switch e.K {
	case "act_output":
		c.U(e, "Port", 4)
		c.U(e, "MaxLen", 2)
		c.Pad(6)
	case "act_copy_ttl_out", "act_copy_ttl_in", "act_dec_mpls_ttl", "act_pop_vlan", "act_dec_nw_ttl", "act_pop_pbb":
		c.Pad(4)
	case "act_set_mpls_ttl":
		c.U(e, "MplsTtl", 1)
		c.Pad(3)
	case "act_push_vlan", "act_push_mpls", "act_push_pbb", "act_pop_mpls":
		c.U(e, "EtherType", 2)
		c.Pad(2)
	case "act_set_queue":
		c.U(e, "QueueId", 4)
	case "act_group":
		c.U(e, "GroupId", 4)
	case "act_set_nw_ttl":
		c.U(e, "NwTtl", 1)
		c.Pad(3)
	case "act_set_field":
		c.Sub(e, "Field", Oxm)
		c.End(f, InclPad8)
		return
	}
	c.endFixed(f, InclPad8)
}

func nxAction(c *C, e *N, f *Frame) {
	switch e.K {
	case "nx_resubmit":
		c.U(e, "InPort", 2)
		c.Pad(4) // table must be zero for NXAST_RESUBMIT, then 3 pad bytes
	case "nx_resubmit_table", "nx_ct_resubmit":
		c.U(e, "InPort", 2)
		c.U(e, "TableID", 1)
		c.Pad(3)
	case "nx_reg_move":
		c.U(e, "Nbits", 2)
		c.U(e, "SrcOfs", 2)
		c.U(e, "DstOfs", 2)
		c.URole(e, "SrcField", 4, "type")
		c.checkHeaderWord("src", e.U["SrcField"])
		c.URole(e, "DstField", 4, "type")
		c.checkHeaderWord("dst", e.U["DstField"])
	case "nx_reg_load":
		c.U(e, "OfsNbits", 2)
		c.URole(e, "DstReg", 4, "type")
		c.checkHeaderWord("dst", e.U["DstReg"])
		c.U(e, "Value", 8)
	case "nx_note":
		c.Rest(e, "Note")
		if !c.Enc && c.pos-f.start < 16 {
			c.fail("note action shorter than 16 bytes")
		}
		c.End(f, InclPad8)
		return
	case "nx_output_reg":
		c.U(e, "OfsNbits", 2)
		c.URole(e, "SrcField", 4, "type")
		c.checkHeaderWord("src", e.U["SrcField"])
		c.U(e, "MaxLen", 2)
		c.Pad(6)
	case "nx_learn":
		c.U(e, "IdleTimeout", 2)
		c.U(e, "HardTimeout", 2)
		c.U(e, "Priority", 2)
		c.U(e, "Cookie", 8)
		c.U(e, "Flags", 2)
		c.U(e, "TableID", 1)
		c.Pad(1)
		c.U(e, "FinIdleTimeout", 2)
		c.U(e, "FinHardTimeout", 2)
		if c.Enc {
			c.List(e, "LearnSpecs", learnSpec)
		} else {
			i := 0
			for c.end-c.pos >= 2 && (c.buf[c.pos] != 0 || c.buf[c.pos+1] != 0) {
				s := New("")
				c.path = append(c.path, "LearnSpecs[]")
				learnSpec(c, s)
				c.path = c.path[:len(c.path)-1]
				e.init()
				e.L["LearnSpecs"] = append(e.L["LearnSpecs"], s)
				i++
			}
			if c.end-c.pos >= 8 {
				c.fail("%d bytes of padding after the learn specs (at most 7 allowed)", c.end-c.pos)
			}
		}
		c.End(f, InclPad8)
		return
	case "nx_dec_ttl", "nx_ct_clear":
		c.Pad(6)
	case "nx_controller":
		c.U(e, "MaxLen", 2)
		c.U(e, "ControllerID", 2)
		c.U(e, "Reason", 1)
		c.Pad(1)
	case "nx_dec_ttl_cnt_ids":
		c.URole(e, "controllers", 2, "count")
		c.Pad(4)
		if c.Enc {
			ids := e.B["cntIDs"]
			c.mark("cntIDs", len(ids), "bytes")
			c.buf = append(c.buf, ids...)
		} else {
			n := int(e.U["controllers"])
			if c.pos+2*n > c.end {
				c.fail("n_controllers %d does not fit in the action", n)
			}
			c.B(e, "cntIDs", 2*n)
		}
		c.End(f, InclPad8)
		return
	case "nx_reg_load2":
		c.Sub(e, "DstField", Oxm)
		c.End(f, InclPad8)
		return
	case "nx_conjunction":
		c.U(e, "Clause", 1)
		c.U(e, "NClause", 1)
		c.U(e, "ID", 4)
	case "nx_ct":
		c.U(e, "Flags", 2)
		c.URole(e, "ZoneSrc", 4, "type")
		if e.U["ZoneSrc"] != 0 {
			c.checkHeaderWord("zone_src", e.U["ZoneSrc"])
		}
		c.U(e, "ZoneOfsNbits", 2)
		c.U(e, "RecircTable", 1)
		c.Pad(3)
		c.U(e, "Alg", 2)
		c.List(e, "Actions", Action)
	case "nx_nat":
		c.Pad(2)
		c.U(e, "Flags", 2)
		c.URole(e, "RangePresent", 2, "type")
		rp := e.U["RangePresent"]
		if !c.Enc && rp&^0x3f != 0 {
			c.fail("range_present %#x has undefined bits", rp)
		}
		if rp&1 != 0 {
			c.B(e, "IPv4Min", 4)
		}
		if rp&2 != 0 {
			c.B(e, "IPv4Max", 4)
		}
		if rp&4 != 0 {
			c.B(e, "IPv6Min", 16)
		}
		if rp&8 != 0 {
			c.B(e, "IPv6Max", 16)
		}
		if rp&16 != 0 {
			c.U(e, "ProtoMin", 2)
		}
		if rp&32 != 0 {
			c.U(e, "ProtoMax", 2)
		}
		c.End(f, InclPad8)
		return
	}
	c.endFixed(f, InclPad8)
}

// learnSpec: header (2): bits 0-10 n_bits, 11-12 destination (0 match, 1 load, 2 output),
// bit 13 source (0 field, 1 immediate). Tree: U Nbits, Dst, Src, SrcField, SrcOfs, DstField,
// DstOfs; B SrcValue.
func learnSpec(c *C, e *N) {
	e.K = "learn_spec"
	if c.Enc {
		c.mark("spec_header", 2, "type")
		c.putU(e.U["Src"]<<13|e.U["Dst"]<<11|e.U["Nbits"]&0x7ff, 2)
	} else {
		c.need(2, "learn spec header")
		h := c.getU(2)
		e.init()
		if h>>14 != 0 {
			c.fail("learn spec header %#04x has reserved bits set", h)
		}
		e.U["Src"], e.U["Dst"], e.U["Nbits"] = h>>13&1, h>>11&3, h&0x7ff
		if e.U["Dst"] == 3 {
			c.fail("learn spec destination type 3 is reserved")
		}
	}
	if e.U["Src"] == 1 {
		c.B(e, "SrcValue", int(2*((e.U["Nbits"]+15)/16)))
	} else {
		c.URole(e, "SrcField", 4, "type")
		c.checkHeaderWord("learn src", e.U["SrcField"])
		c.U(e, "SrcOfs", 2)
	}
	if e.U["Dst"] != 2 {
		c.URole(e, "DstField", 4, "type")
		c.checkHeaderWord("learn dst", e.U["DstField"])
		c.U(e, "DstOfs", 2)
	}
}
