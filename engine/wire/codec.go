package wire

import (
	"fmt"
	"strings"
)

// Mark is one entry of the field map produced while encoding: where a field sits and what role
// it plays. The deviation explorer uses it to find length-, count- and type-like fields.
type Mark struct {
	Path string
	Off  int
	W    int
	Role string // value | length | count | type | pad | const | bytes
	Node *N     `json:"-"` // the node and field the bytes came from (value/bytes roles)
	Name string
}

// C is the bidirectional codec: the same element description drives encoding (Enc) and strict
// decoding. Decoding uses only declared lengths and the code tables, checks alignment, zero
// padding, known codes, and exact arrival at every enclosing end.
type C struct {
	Enc   bool
	buf   []byte
	pos   int
	end   int
	Marks []Mark
	path  []string
}

// Err is a grammar error found while decoding.
type Err struct {
	Path string
	Off  int
	Msg  string
}

func (e *Err) Error() string { return fmt.Sprintf("%s (at offset %d, in %s)", e.Msg, e.Off, e.Path) }

func (c *C) fail(format string, a ...any) {
	panic(&Err{Path: strings.Join(c.path, "/"), Off: c.pos, Msg: fmt.Sprintf(format, a...)})
}

func (c *C) at() int {
	if c.Enc {
		return len(c.buf)
	}
	return c.pos
}

func (c *C) mark(name string, w int, role string) {
	if c.Enc {
		c.Marks = append(c.Marks, Mark{Path: strings.Join(c.path, "/") + "." + name, Off: len(c.buf), W: w, Role: role})
	}
}

func (c *C) markN(n *N, name string, w int, role string) {
	if c.Enc {
		c.Marks = append(c.Marks, Mark{Path: strings.Join(c.path, "/") + "." + name, Off: len(c.buf), W: w, Role: role, Node: n, Name: name})
	}
}

func (c *C) need(w int, what string) {
	if c.pos+w > c.end {
		c.fail("%s: needs %d bytes, %d left in the enclosing element", what, w, c.end-c.pos)
	}
}

func (c *C) putU(v uint64, w int) {
	for i := w - 1; i >= 0; i-- {
		c.buf = append(c.buf, byte(v>>(8*uint(i))))
	}
}

func (c *C) getU(w int) uint64 {
	var v uint64
	for i := 0; i < w; i++ {
		v = v<<8 | uint64(c.buf[c.pos+i])
	}
	c.pos += w
	return v
}

// U is an unsigned big-endian field of w bytes.
func (c *C) U(n *N, name string, w int) { c.URole(n, name, w, "value") }

func (c *C) URole(n *N, name string, w int, role string) {
	if c.Enc {
		c.markN(n, name, w, role)
		c.putU(n.U[name], w)
		return
	}
	c.need(w, name)
	n.init()
	n.U[name] = c.getU(w)
}

// B is a byte-string field of exactly w bytes.
func (c *C) B(n *N, name string, w int) {
	if c.Enc {
		c.markN(n, name, w, "bytes")
		b := n.B[name]
		for i := 0; i < w; i++ {
			if i < len(b) {
				c.buf = append(c.buf, b[i])
			} else {
				c.buf = append(c.buf, 0)
			}
		}
		return
	}
	c.need(w, name)
	n.init()
	n.B[name] = append([]byte{}, c.buf[c.pos:c.pos+w]...)
	c.pos += w
}

// Rest is a byte string that runs to the end of the enclosing element.
func (c *C) Rest(n *N, name string) {
	if c.Enc {
		c.mark(name, len(n.B[name]), "bytes")
		c.buf = append(c.buf, n.B[name]...)
		return
	}
	n.init()
	n.B[name] = append([]byte{}, c.buf[c.pos:c.end]...)
	c.pos = c.end
}

// Pad is w zero bytes.
func (c *C) Pad(w int) {
	if w == 0 {
		return
	}
	if c.Enc {
		c.mark("pad", w, "pad")
		for i := 0; i < w; i++ {
			c.buf = append(c.buf, 0)
		}
		return
	}
	c.need(w, "padding")
	for i := 0; i < w; i++ {
		if c.buf[c.pos+i] != 0 {
			c.fail("padding byte %d of %d is %#x, must be zero", i, w, c.buf[c.pos+i])
		}
	}
	c.pos += w
}

// Const is a field with a fixed value.
func (c *C) Const(name string, w int, v uint64) {
	if c.Enc {
		c.mark(name, w, "const")
		c.putU(v, w)
		return
	}
	c.need(w, name)
	if g := c.getU(w); g != v {
		c.pos -= w
		c.fail("%s is %#x, must be %#x", name, g, v)
	}
}

// Codes maps element kinds to wire codes and back.
type Codes struct {
	What   string
	ByKind map[string]uint64
	ByCode map[uint64]string
}

func NewCodes(what string, m map[string]uint64) *Codes {
	cs := &Codes{What: what, ByKind: m, ByCode: map[uint64]string{}}
	for k, v := range m {
		cs.ByCode[v] = k
	}
	return cs
}

// Code writes the code of n.K, or reads a code and sets n.K; an unknown code is a grammar error.
func (c *C) Code(n *N, w int, cs *Codes) {
	if c.Enc {
		v, ok := cs.ByKind[n.K]
		if !ok {
			panic(fmt.Sprintf("wire: kind %q has no %s code", n.K, cs.What))
		}
		c.mark("type", w, "type")
		c.putU(v, w)
		return
	}
	c.need(w, cs.What)
	v := c.getU(w)
	k, ok := cs.ByCode[v]
	if !ok {
		c.pos -= w
		c.fail("%s code %#x is not defined by OpenFlow 1.3 / the Nicira extensions", cs.What, v)
	}
	n.K = k
}

// Frame is an open length-prefixed element.
type Frame struct {
	start   int
	lenAt   int
	lenW    int
	outer   int
	decl    int
	hasLen  bool
	pathLen int
}

// Begin opens an element (pushes its name on the path).
func (c *C) Begin(name string) *Frame {
	f := &Frame{start: c.at(), outer: c.end, pathLen: len(c.path)}
	c.path = append(c.path, name)
	return f
}

// Len is the element's length field, counted from the element start.
func (c *C) Len(f *Frame, w int) {
	f.lenAt, f.lenW, f.hasLen = c.at(), w, true
	if c.Enc {
		c.mark("length", w, "length")
		c.putU(0, w)
		return
	}
	c.need(w, "length")
	f.decl = int(c.getU(w))
}

// LenMode says how the declared length relates to the bytes occupied.
type LenMode int

const (
	InclPad8  LenMode = iota // length includes padding and must be a multiple of 8 (actions, instructions, buckets)
	ExclPad8                 // length excludes padding; element padded with zeros to 8 (match, hello element)
	Exact                    // length is exactly the bytes occupied, no padding (top-level, stats records)
	BodyOnly1                // length counts only the bytes after the length field (OXM TLV payload)
)

// Scope narrows decoding to the declared extent of the element (call right after the fixed
// header of the element has been read). min is the smallest legal declared length.
func (c *C) Scope(f *Frame, mode LenMode, min int) {
	if c.Enc {
		return
	}
	decl := f.decl
	switch mode {
	case BodyOnly1:
		decl += c.pos - f.start
	}
	if decl < min {
		c.fail("declared length %d is below the minimum %d of this element", f.decl, min)
	}
	if mode == InclPad8 && decl%8 != 0 {
		c.fail("declared length %d is not a multiple of 8", f.decl)
	}
	if f.start+decl > f.outer {
		c.fail("declared length %d runs %d bytes past the end of the enclosing element", f.decl, f.start+decl-f.outer)
	}
	if f.start+decl < c.pos {
		c.fail("declared length %d ends inside the element's fixed header", f.decl)
	}
	c.end = f.start + decl
}

// End closes the element: when encoding, pads and patches the length; when decoding, requires
// that the body ended exactly at the declared length (allowing only zero padding as the mode
// permits) and steps over trailing alignment padding.
func (c *C) End(f *Frame, mode LenMode) {
	if c.Enc {
		n := len(c.buf) - f.start
		switch mode {
		case InclPad8:
			c.Pad((8 - n%8) % 8)
			n = len(c.buf) - f.start
		case BodyOnly1:
			n = len(c.buf) - (f.lenAt + f.lenW)
		}
		if f.hasLen {
			for i := 0; i < f.lenW; i++ {
				c.buf[f.lenAt+i] = byte(uint64(n) >> (8 * uint(f.lenW-1-i)))
			}
		}
		if mode == ExclPad8 {
			c.Pad((8 - n%8) % 8)
		}
		c.path = c.path[:f.pathLen]
		return
	}
	if c.pos < c.end {
		left := c.end - c.pos
		if mode == InclPad8 && left < 8 {
			c.Pad(left)
		} else {
			c.fail("%d bytes inside the declared length are not accounted for by the element's fields", left)
		}
	}
	c.end = f.outer
	if mode == ExclPad8 {
		n := c.pos - f.start
		c.Pad((8 - n%8) % 8)
	}
	c.path = c.path[:f.pathLen]
}

// List is a sequence of elements running to the end of the enclosing scope.
func (c *C) List(n *N, name string, elem func(c *C, e *N)) {
	if c.Enc {
		for i, e := range n.L[name] {
			c.path = append(c.path, fmt.Sprintf("%s[%d]", name, i))
			elem(c, e)
			c.path = c.path[:len(c.path)-1]
		}
		return
	}
	n.init()
	i := 0
	var out []*N
	for c.pos < c.end {
		e := New("")
		c.path = append(c.path, fmt.Sprintf("%s[%d]", name, i))
		before := c.pos
		elem(c, e)
		if c.pos <= before {
			c.fail("list element consumed no bytes")
		}
		c.path = c.path[:len(c.path)-1]
		out = append(out, e)
		i++
	}
	if len(out) > 0 {
		n.L[name] = out
	}
}

// Sub is a single nested element.
func (c *C) Sub(n *N, name string, elem func(c *C, e *N)) {
	if c.Enc {
		e := n.S[name]
		if e == nil {
			e = New("")
		}
		c.path = append(c.path, name)
		elem(c, e)
		c.path = c.path[:len(c.path)-1]
		return
	}
	n.init()
	e := New("")
	c.path = append(c.path, name)
	elem(c, e)
	c.path = c.path[:len(c.path)-1]
	n.S[name] = e
}

// Encode serialises a top-level message.
func Encode(n *N) (b []byte, marks []Mark) {
	c := &C{Enc: true}
	Message(c, n)
	return c.buf, c.Marks
}

// EncodeWith serialises an arbitrary element with its description.
func EncodeWith(n *N, elem func(c *C, e *N)) ([]byte, []Mark) {
	c := &C{Enc: true}
	elem(c, n)
	return c.buf, c.Marks
}

// Decode parses a top-level message strictly; this is the TLV walker of property C02.
func Decode(b []byte) (n *N, err error) { return DecodeWith(b, Message) }

func DecodeWith(b []byte, elem func(c *C, e *N)) (n *N, err error) {
	c := &C{buf: b, end: len(b)}
	defer func() {
		if r := recover(); r != nil {
			if e, ok := r.(*Err); ok {
				n, err = nil, e
				return
			}
			panic(r)
		}
	}()
	n = New("")
	elem(c, n)
	if c.pos != len(b) {
		c.fail("%d bytes follow the end of the element", len(b)-c.pos)
	}
	return n, nil
}
