package wire_test

import (
	"bytes"
	"encoding/hex"
	"strings"
	"testing"

	"verif/corpus"
	"verif/wire"
)

// Self-consistency of the reference model: every tree the explorers generate encodes, the strict
// walker accepts the encoding, and decoding gives back a tree that re-encodes to the same bytes.
func TestCorpusRoundTrip(t *testing.T) {
	n := 0
	corpus.Controller(true, func() bool { return false }, func(string, bool) {}, func(m *wire.N) {
		b, _ := wire.Encode(m)
		if len(b) > 65535 {
			return
		}
		n++
		d, err := wire.Decode(b)
		if err != nil {
			t.Fatalf("walker rejects reference encoding of %s: %v\n%x", corpus.Label(m), err, b)
		}
		b2, _ := wire.Encode(d)
		if !bytes.Equal(b, b2) {
			t.Fatalf("re-encoding differs for %s", corpus.Label(m))
		}
	})
	corpus.Switch(true, func() bool { return false }, func(string, bool) {}, func(m *wire.N) {
		b, _ := wire.Encode(m)
		n++
		d, err := wire.Decode(b)
		if err != nil {
			t.Fatalf("walker rejects reference encoding of %s: %v\n%x", corpus.Label(m), err, b)
		}
		if df := wire.Diff(m, d); df != "" && !strings.Contains(df, "Note") {
			t.Fatalf("decode(encode(m)) != m for %s: %s", corpus.Label(m), df)
		}
	})
	t.Logf("%d trees", n)
}

func unhex(s string) []byte {
	b, err := hex.DecodeString(strings.Join(strings.Fields(s), ""))
	if err != nil {
		panic(err)
	}
	return b
}

// Byte vectors as produced by Open vSwitch (ovs-ofctl -O OpenFlow13, debug dumps), typed in from
// the OVS test suite (tests/ofp-print.at, tests/ofp-actions.at) as far as remembered; they pin the
// layouts the model was written from.
func TestKnownVectors(t *testing.T) {
	vecs := []struct{ name, hexs string }{
		// OFPT_HELLO with version bitmap 0x12 (1.0 + 1.3)
		{"hello", "04 00 00 10 00 00 00 01 00 01 00 08 00 00 00 12"},
		// OFPT_BARRIER_REQUEST
		{"barrier", "04 14 00 08 00 00 00 02"},
		// OFPT_FLOW_MOD add, table 0, priority 0x8000, match in_port=1, apply_actions(output:2)
		{"flowmod", `04 0e 00 58 00 00 00 03 00 00 00 00 00 00 00 00 00 00 00 00 00 00 00 00
			00 00 00 00 00 00 80 00 ff ff ff ff ff ff ff ff ff ff ff ff 00 00 00 00
			00 01 00 0c 80 00 00 04 00 00 00 01 00 00 00 00
			00 04 00 18 00 00 00 00 00 00 00 10 00 00 00 02 ff ff 00 00 00 00 00 00`},
		// actions from ofp-actions.at (OpenFlow 1.3 section): resubmit(5), resubmit(10,5), note:11.e9.9a.ad.67.f3,
		// move:NXM_NX_REG0[0..15]->NXM_NX_REG1[16..31] ... wrapped in an apply-actions flow-mod
		{"nx-actions", `04 0e 00 b0 00 00 00 04 00 00 00 00 00 00 00 00 00 00 00 00 00 00 00 00
			00 00 00 00 00 00 80 00 ff ff ff ff ff ff ff ff ff ff ff ff 00 00 00 00
			00 01 00 04 00 00 00 00
			00 04 00 78 00 00 00 00
			ff ff 00 10 00 00 23 20 00 01 00 05 00 00 00 00
			ff ff 00 10 00 00 23 20 00 0e 00 0a 05 00 00 00
			ff ff 00 10 00 00 23 20 00 08 11 e9 9a ad 67 f3
			ff ff 00 18 00 00 23 20 00 06 00 10 00 00 00 10 00 01 00 04 00 01 02 04
			ff ff 00 18 00 00 23 20 00 07 00 1f 00 01 04 04 00 00 00 00 00 00 00 05
			ff ff 00 10 00 00 23 20 00 22 01 02 00 00 00 0b`},
		// ct(commit,zone=5,table=7,nat(src=10.0.0.1-10.0.0.9,random))
		{"ct-nat", `04 0e 00 70 00 00 00 05 00 00 00 00 00 00 00 00 00 00 00 00 00 00 00 00
			00 00 00 00 00 00 80 00 ff ff ff ff ff ff ff ff ff ff ff ff 00 00 00 00
			00 01 00 04 00 00 00 00
			00 04 00 38 00 00 00 00
			ff ff 00 30 00 00 23 20 00 23 00 01 00 00 00 00 00 05 07 00 00 00 00 00
			ff ff 00 18 00 00 23 20 00 24 00 00 00 11 00 03 0a 00 00 01 0a 00 00 09`},
		// group mod: add select group 1, one bucket weight 100 watch any, output:3
		{"groupmod", `04 0f 00 30 00 00 00 06 00 00 01 00 00 00 00 01
			00 20 00 64 ff ff ff ff ff ff ff ff 00 00 00 00
			00 00 00 10 00 00 00 03 ff e5 00 00 00 00 00 00`},
		// packet out: buffer none, in_port controller, actions_len 16, output:1, 4 bytes of data
		{"packetout", `04 0d 00 2c 00 00 00 07 ff ff ff ff ff ff ff fd 00 10 00 00 00 00 00 00
			00 00 00 10 00 00 00 01 ff ff 00 00 00 00 00 00 de ad be ef`},
	}
	for _, v := range vecs {
		b := unhex(v.hexs)
		n, err := wire.Decode(b)
		if err != nil {
			t.Errorf("%s: walker rejects the vector: %v", v.name, err)
			continue
		}
		b2, _ := wire.Encode(n)
		if !bytes.Equal(b, b2) {
			t.Errorf("%s: model re-encodes the vector differently:\n%x\n%x\n%s", v.name, b, b2, n)
		}
	}
}
