package wire

// OpenFlow 1.3 messages (DESIGN.md Appendix A).

var MsgCodes = NewCodes("message type", map[string]uint64{
	"hello": 0, "error": 1, "echo_request": 2, "echo_reply": 3, "experimenter": 4,
	"features_request": 5, "features_reply": 6, "get_config_request": 7, "get_config_reply": 8, "set_config": 9,
	"packet_in": 10, "flow_removed": 11, "port_status": 12, "packet_out": 13, "flow_mod": 14, "group_mod": 15,
	"port_mod": 16, "table_mod": 17, "multipart_request": 18, "multipart_reply": 19,
	"barrier_request": 20, "barrier_reply": 21,
	"queue_get_config_request": 22, "queue_get_config_reply": 23, "role_request": 24, "role_reply": 25,
	"get_async_request": 26, "get_async_reply": 27, "set_async": 28, "meter_mod": 29,
})

func init() {
	// several kinds share a type code
	MsgCodes.ByKind["error_exp"] = 1
}

const (
	NXVendor  = 0x00002320
	ONFVendor = 0x4f4e4600
)

// Message is a complete OpenFlow message: header + body.
func Message(c *C, n *N) {
	f := c.Begin("msg")
	// the header carries version 4, except that a hello (and the error that answers a failed
	// version negotiation) carries the sender's own highest version: U "Version" when it is not 4
	if c.Enc {
		if v, ok := n.U["Version"]; ok && v != 4 {
			c.mark("version", 1, "const")
			c.putU(v, 1)
		} else {
			c.Const("version", 1, 4)
		}
	} else {
		c.need(2, "header")
		if v, t := uint64(c.buf[c.pos]), c.buf[c.pos+1]; v != 4 && (t == 0 || t == 1) && v >= 1 && v <= 6 {
			n.init()
			n.U["Version"] = v
			c.pos++
		} else {
			c.Const("version", 1, 4)
		}
	}
	c.Code(n, 1, MsgCodes)
	c.Len(f, 2)
	c.U(n, "Xid", 4)
	c.Scope(f, Exact, 8)
	c.path[len(c.path)-1] = n.K
	switch n.K {
	case "hello":
		c.List(n, "Elements", helloElem)
	case "error", "error_exp":
		if c.Enc {
			if n.K == "error_exp" {
				n.init()
				n.U["Type"] = 0xffff
			}
		}
		c.U(n, "Type", 2)
		if !c.Enc && n.U["Type"] == 0xffff {
			n.K = "error_exp"
		}
		c.U(n, "Code", 2)
		if n.K == "error_exp" {
			c.U(n, "ExperimenterID", 4)
		}
		c.Rest(n, "Data")
	case "echo_request", "echo_reply":
		c.Rest(n, "Data")
	case "experimenter":
		experimenter(c, n)
	case "features_request", "get_config_request", "barrier_request", "barrier_reply":
	case "features_reply":
		c.B(n, "DPID", 8)
		c.U(n, "Buffers", 4)
		c.U(n, "NumTables", 1)
		c.U(n, "AuxilaryId", 1)
		c.Pad(2)
		c.U(n, "Capabilities", 4)
		c.U(n, "Actions", 4) // "reserved" in 1.3; the library calls it Actions
	case "get_config_reply", "set_config":
		c.U(n, "Flags", 2)
		c.U(n, "MissSendLen", 2)
	case "packet_in":
		c.U(n, "BufferId", 4)
		c.U(n, "TotalLen", 2)
		c.U(n, "Reason", 1)
		c.U(n, "TableId", 1)
		c.U(n, "Cookie", 8)
		c.Sub(n, "Match", Match)
		c.Pad(2)
		c.Rest(n, "Data")
	case "flow_removed":
		c.U(n, "Cookie", 8)
		c.U(n, "Priority", 2)
		c.U(n, "Reason", 1)
		c.U(n, "TableId", 1)
		c.U(n, "DurationSec", 4)
		c.U(n, "DurationNSec", 4)
		c.U(n, "IdleTimeout", 2)
		c.U(n, "HardTimeout", 2)
		c.U(n, "PacketCount", 8)
		c.U(n, "ByteCount", 8)
		c.Sub(n, "Match", Match)
	case "port_status":
		c.U(n, "Reason", 1)
		c.Pad(7)
		c.Sub(n, "Desc", Port)
	case "packet_out":
		c.U(n, "BufferId", 4)
		c.U(n, "InPort", 4)
		al := c.at()
		if c.Enc {
			c.mark("ActionsLen", 2, "length")
			c.putU(0, 2)
		} else {
			c.need(2, "actions_len")
			n.init()
			n.U["ActionsLen"] = c.getU(2)
		}
		c.Pad(6)
		if c.Enc {
			st := len(c.buf)
			c.List(n, "Actions", Action)
			l := len(c.buf) - st
			c.buf[al], c.buf[al+1] = byte(l>>8), byte(l)
		} else {
			l := int(n.U["ActionsLen"])
			delete(n.U, "ActionsLen")
			if c.pos+l > c.end {
				c.fail("actions_len %d runs past the end of the message", l)
			}
			save := c.end
			c.end = c.pos + l
			c.List(n, "Actions", Action)
			c.end = save
		}
		c.Rest(n, "Data")
	case "flow_mod":
		c.U(n, "Cookie", 8)
		c.U(n, "CookieMask", 8)
		c.U(n, "TableId", 1)
		c.U(n, "Command", 1)
		c.U(n, "IdleTimeout", 2)
		c.U(n, "HardTimeout", 2)
		c.U(n, "Priority", 2)
		c.U(n, "BufferId", 4)
		c.U(n, "OutPort", 4)
		c.U(n, "OutGroup", 4)
		c.U(n, "Flags", 2)
		c.Pad(2)
		c.Sub(n, "Match", Match)
		c.List(n, "Instructions", Instruction)
	case "group_mod":
		c.U(n, "Command", 2)
		c.U(n, "Type", 1)
		c.Pad(1)
		c.U(n, "GroupId", 4)
		c.List(n, "Buckets", Bucket)
	case "port_mod":
		c.U(n, "PortNo", 4)
		c.Pad(4)
		c.B(n, "HWAddr", 6)
		c.Pad(2)
		c.U(n, "Config", 4)
		c.U(n, "Mask", 4)
		c.U(n, "Advertise", 4)
		c.Pad(4)
	case "table_mod":
		c.U(n, "TableId", 1)
		c.Pad(3)
		c.U(n, "Config", 4)
	case "multipart_request":
		c.URole(n, "Type", 2, "type")
		c.U(n, "Flags", 2)
		c.Pad(4)
		switch n.U["Type"] {
		case 0, 3, 7, 8, 11, 13:
		case 1, 2:
			c.Sub(n, "Body", flowStatsRequest(n.U["Type"]))
		case 4:
			c.Sub(n, "Body", func(c *C, e *N) {
				e.K = "port_stats_request"
				c.U(e, "PortNo", 4)
				c.Pad(4)
			})
		case 5:
			c.Sub(n, "Body", func(c *C, e *N) {
				e.K = "queue_stats_request"
				c.U(e, "PortNo", 4)
				c.U(e, "QueueId", 4)
			})
		default:
			c.Rest(n, "Data")
		}
	case "multipart_reply":
		c.URole(n, "Type", 2, "type")
		c.U(n, "Flags", 2)
		c.Pad(4)
		switch n.U["Type"] {
		case 0:
			c.List(n, "Body", func(c *C, e *N) {
				e.K = "desc_stats"
				c.B(e, "MfrDesc", 256)
				c.B(e, "HWDesc", 256)
				c.B(e, "SWDesc", 256)
				c.B(e, "SerialNum", 32)
				c.B(e, "DPDesc", 256)
			})
		case 1:
			c.List(n, "Body", FlowStats)
		case 2:
			c.List(n, "Body", func(c *C, e *N) {
				e.K = "aggregate_stats"
				c.U(e, "PacketCount", 8)
				c.U(e, "ByteCount", 8)
				c.U(e, "FlowCount", 4)
				c.Pad(4)
			})
		case 3:
			c.List(n, "Body", func(c *C, e *N) {
				e.K = "table_stats"
				c.U(e, "TableId", 1)
				c.Pad(3)
				c.U(e, "ActiveCount", 4)
				c.U(e, "LookupCount", 8)
				c.U(e, "MatchedCount", 8)
			})
		case 4:
			c.List(n, "Body", func(c *C, e *N) {
				e.K = "port_stats"
				c.U(e, "PortNo", 4)
				c.Pad(4)
				for _, f := range []string{"RxPackets", "TxPackets", "RxBytes", "TxBytes", "RxDropped", "TxDropped", "RxErrors", "TxErrors", "RxFrameErr", "RxOverErr", "RxCRCErr", "Collisions"} {
					c.U(e, f, 8)
				}
				c.U(e, "DurationSec", 4)
				c.U(e, "DurationNSec", 4)
			})
		case 5:
			c.List(n, "Body", func(c *C, e *N) {
				e.K = "queue_stats"
				c.U(e, "PortNo", 4)
				c.U(e, "QueueId", 4)
				c.U(e, "TxBytes", 8)
				c.U(e, "TxPackets", 8)
				c.U(e, "TxErrors", 8)
				c.U(e, "DurationSec", 4)
				c.U(e, "DurationNSec", 4)
			})
		case 13:
			c.List(n, "Body", Port)
		default:
			c.Rest(n, "Data")
		}
	default:
		c.Rest(n, "Data")
	}
	c.End(f, Exact)
}

func flowStatsRequest(t uint64) func(c *C, e *N) {
	return func(c *C, e *N) {
		e.K = "flow_stats_request"
		if t == 2 {
			e.K = "aggregate_stats_request"
		}
		c.U(e, "TableId", 1)
		c.Pad(3)
		c.U(e, "OutPort", 4)
		c.U(e, "OutGroup", 4)
		c.Pad(4)
		c.U(e, "Cookie", 8)
		c.U(e, "CookieMask", 8)
		c.Sub(e, "Match", Match)
	}
}

// FlowStats is one ofp_flow_stats record.
func FlowStats(c *C, e *N) {
	e.K = "flow_stats"
	f := c.Begin("flow_stats")
	c.Len(f, 2)
	c.U(e, "TableId", 1)
	c.Pad(1)
	c.Scope(f, Exact, 56)
	c.U(e, "DurationSec", 4)
	c.U(e, "DurationNSec", 4)
	c.U(e, "Priority", 2)
	c.U(e, "IdleTimeout", 2)
	c.U(e, "HardTimeout", 2)
	c.U(e, "Flags", 2)
	c.Pad(4)
	c.U(e, "Cookie", 8)
	c.U(e, "PacketCount", 8)
	c.U(e, "ByteCount", 8)
	c.Sub(e, "Match", Match)
	c.List(e, "Instructions", Instruction)
	c.End(f, Exact)
}

// Port is ofp_port (64 bytes).
func Port(c *C, e *N) {
	e.K = "port"
	c.U(e, "PortNo", 4)
	c.Pad(4)
	c.B(e, "HWAddr", 6)
	c.Pad(2)
	c.B(e, "Name", 16)
	for _, f := range []string{"Config", "State", "Curr", "Advertised", "Supported", "Peer", "CurrSpeed", "MaxSpeed"} {
		c.U(e, f, 4)
	}
}

func helloElem(c *C, e *N) {
	f := c.Begin("hello_elem")
	c.URole(e, "Type", 2, "type")
	c.Len(f, 2)
	c.Scope(f, Exact, 4)
	if e.U["Type"] == 1 {
		e.K = "hello_elem_versionbitmap"
		if !c.Enc && (c.end-c.pos)%4 != 0 {
			c.fail("version bitmap element body is %d bytes, not a multiple of 4", c.end-c.pos)
		}
	} else {
		e.K = "hello_elem_unknown"
	}
	c.Rest(e, "Bitmaps")
	c.End(f, ExclPad8)
}

// Bucket is ofp_bucket.
func Bucket(c *C, e *N) {
	e.K = "bucket"
	f := c.Begin("bucket")
	c.Len(f, 2)
	c.U(e, "Weight", 2)
	c.Scope(f, InclPad8, 16)
	c.U(e, "WatchPort", 4)
	c.U(e, "WatchGroup", 4)
	c.Pad(4)
	c.List(e, "Actions", Action)
	c.End(f, InclPad8)
}

var InstrCodes = NewCodes("instruction type", map[string]uint64{
	"instr_goto_table": 1, "instr_write_metadata": 2, "instr_write_actions": 3, "instr_apply_actions": 4,
	"instr_clear_actions": 5, "instr_meter": 6,
})

func Instruction(c *C, e *N) {
	f := c.Begin("instr")
	c.Code(e, 2, InstrCodes)
	c.path[len(c.path)-1] = e.K
	c.Len(f, 2)
	c.Scope(f, InclPad8, 8)
	switch e.K {
	case "instr_goto_table":
		c.U(e, "TableId", 1)
		c.Pad(3)
	case "instr_write_metadata":
		c.Pad(4)
		c.U(e, "Metadata", 8)
		c.U(e, "MetadataMask", 8)
	case "instr_write_actions", "instr_apply_actions", "instr_clear_actions":
		c.Pad(4)
		c.List(e, "Actions", Action)
	case "instr_meter":
		c.U(e, "MeterId", 4)
	}
	c.endFixed(f, InclPad8)
}

// endFixed closes an element whose fields are all modelled: no unexplained padding allowed.
func (c *C) endFixed(f *Frame, mode LenMode) {
	if !c.Enc && c.pos != c.end {
		c.fail("declared length %d, but the element's fields occupy %d bytes", f.decl, c.pos-f.start)
	}
	c.End(f, mode)
}

// ---- experimenter messages -------------------------------------------------------------------

func experimenter(c *C, n *N) {
	c.URole(n, "Vendor", 4, "type")
	c.URole(n, "ExperimenterType", 4, "type")
	key := [2]uint64{n.U["Vendor"], n.U["ExperimenterType"]}
	switch key {
	case [2]uint64{NXVendor, 20}:
		c.Sub(n, "VendorData", func(c *C, e *N) {
			e.K = "nx_set_controller_id"
			c.Pad(6)
			c.U(e, "ID", 2)
		})
	case [2]uint64{NXVendor, 24}:
		c.Sub(n, "VendorData", func(c *C, e *N) {
			e.K = "nx_tlv_table_mod"
			c.U(e, "Command", 2)
			c.Pad(6)
			c.List(e, "TlvMaps", tlvMap)
		})
	case [2]uint64{NXVendor, 25}:
	case [2]uint64{NXVendor, 26}:
		c.Sub(n, "VendorData", func(c *C, e *N) {
			e.K = "nx_tlv_table_reply"
			c.U(e, "MaxSpace", 4)
			c.U(e, "MaxFields", 2)
			c.Pad(10)
			c.List(e, "TlvMaps", tlvMap)
		})
	case [2]uint64{ONFVendor, 2300}:
		c.Sub(n, "VendorData", func(c *C, e *N) {
			e.K = "bundle_ctrl"
			c.U(e, "BundleID", 4)
			c.U(e, "Type", 2)
			c.U(e, "Flags", 2)
			c.List(e, "Properties", bundleProp)
		})
	case [2]uint64{ONFVendor, 2301}:
		c.Sub(n, "VendorData", func(c *C, e *N) {
			e.K = "bundle_add"
			c.U(e, "BundleID", 4)
			c.Pad(2)
			c.U(e, "Flags", 2)
			// one complete OpenFlow message, delimited by its own header length
			if c.Enc {
				at := len(c.buf)
				c.Sub(e, "Message", Message)
				if len(e.L["Properties"]) > 0 {
					// "if there is one property or more, 'message' is followed by exactly
					// (message.length + 7)/8*8 - message.length bytes of all-zero bytes"
					c.Pad((8 - (len(c.buf)-at)%8) % 8)
				}
			} else {
				c.need(8, "embedded message header")
				l := int(c.buf[c.pos+2])<<8 | int(c.buf[c.pos+3])
				if l < 8 || c.pos+l > c.end {
					c.fail("embedded message declares length %d, %d bytes available", l, c.end-c.pos)
				}
				save := c.end
				c.end = c.pos + l
				c.Sub(e, "Message", Message)
				c.end = save
				if c.pos < c.end {
					c.Pad((8 - l%8) % 8)
					if c.pos >= c.end {
						c.fail("%d zero bytes follow the embedded message but no property does (the padding exists only in front of a property)", (8-l%8)%8)
					}
				}
			}
			c.List(e, "Properties", bundleProp)
		})
	default:
		c.Rest(n, "Data")
	}
}

func tlvMap(c *C, e *N) {
	e.K = "tlv_map"
	c.U(e, "OptClass", 2)
	c.U(e, "OptType", 1)
	c.U(e, "OptLength", 1)
	c.U(e, "Index", 2)
	c.Pad(2)
}

func bundleProp(c *C, e *N) {
	e.K = "bundle_prop_experimenter"
	f := c.Begin("bundle_prop")
	c.Const("type", 2, 0xffff)
	c.Len(f, 2)
	c.Scope(f, Exact, 12)
	c.U(e, "ExperimenterID", 4)
	c.U(e, "ExperimenterType", 4)
	c.Rest(e, "Data")
	c.End(f, ExclPad8)
}
