//go:build verif

// Package vatomic replaces "sync/atomic": every operation is one scheduling point followed by
// the real atomic operation.
package vatomic

import (
	"sync/atomic"
	"unsafe"

	rt "github.com/contiv/libOpenflow/verifrt"
)

func AddInt32(p *int32, d int32) int32                 { rt.Access(p, true); return atomic.AddInt32(p, d) }
func AddInt64(p *int64, d int64) int64                 { rt.Access(p, true); return atomic.AddInt64(p, d) }
func AddUint32(p *uint32, d uint32) uint32             { rt.Access(p, true); return atomic.AddUint32(p, d) }
func AddUint64(p *uint64, d uint64) uint64             { rt.Access(p, true); return atomic.AddUint64(p, d) }
func AddUintptr(p *uintptr, d uintptr) uintptr         { rt.Access(p, true); return atomic.AddUintptr(p, d) }
func LoadInt32(p *int32) int32                         { rt.Access(p, false); return atomic.LoadInt32(p) }
func LoadInt64(p *int64) int64                         { rt.Access(p, false); return atomic.LoadInt64(p) }
func LoadUint32(p *uint32) uint32                      { rt.Access(p, false); return atomic.LoadUint32(p) }
func LoadUint64(p *uint64) uint64                      { rt.Access(p, false); return atomic.LoadUint64(p) }
func LoadUintptr(p *uintptr) uintptr                   { rt.Access(p, false); return atomic.LoadUintptr(p) }
func LoadPointer(p *unsafe.Pointer) unsafe.Pointer     { rt.Access(p, false); return atomic.LoadPointer(p) }
func StoreInt32(p *int32, v int32)                     { rt.Access(p, true); atomic.StoreInt32(p, v) }
func StoreInt64(p *int64, v int64)                     { rt.Access(p, true); atomic.StoreInt64(p, v) }
func StoreUint32(p *uint32, v uint32)                  { rt.Access(p, true); atomic.StoreUint32(p, v) }
func StoreUint64(p *uint64, v uint64)                  { rt.Access(p, true); atomic.StoreUint64(p, v) }
func StoreUintptr(p *uintptr, v uintptr)               { rt.Access(p, true); atomic.StoreUintptr(p, v) }
func StorePointer(p *unsafe.Pointer, v unsafe.Pointer) { rt.Access(p, true); atomic.StorePointer(p, v) }
func SwapInt32(p *int32, v int32) int32                { rt.Access(p, true); return atomic.SwapInt32(p, v) }
func SwapInt64(p *int64, v int64) int64                { rt.Access(p, true); return atomic.SwapInt64(p, v) }
func SwapUint32(p *uint32, v uint32) uint32            { rt.Access(p, true); return atomic.SwapUint32(p, v) }
func SwapUint64(p *uint64, v uint64) uint64            { rt.Access(p, true); return atomic.SwapUint64(p, v) }
func CompareAndSwapInt32(p *int32, o, n int32) bool {
	rt.Access(p, true)
	return atomic.CompareAndSwapInt32(p, o, n)
}
func CompareAndSwapInt64(p *int64, o, n int64) bool {
	rt.Access(p, true)
	return atomic.CompareAndSwapInt64(p, o, n)
}
func CompareAndSwapUint32(p *uint32, o, n uint32) bool {
	rt.Access(p, true)
	return atomic.CompareAndSwapUint32(p, o, n)
}
func CompareAndSwapUint64(p *uint64, o, n uint64) bool {
	rt.Access(p, true)
	return atomic.CompareAndSwapUint64(p, o, n)
}
func CompareAndSwapPointer(p *unsafe.Pointer, o, n unsafe.Pointer) bool {
	rt.Access(p, true)
	return atomic.CompareAndSwapPointer(p, o, n)
}

type Int32 struct{ v atomic.Int32 }

func (a *Int32) Load() int32                    { rt.Access(a, false); return a.v.Load() }
func (a *Int32) Store(x int32)                  { rt.Access(a, true); a.v.Store(x) }
func (a *Int32) Add(d int32) int32              { rt.Access(a, true); return a.v.Add(d) }
func (a *Int32) Swap(x int32) int32             { rt.Access(a, true); return a.v.Swap(x) }
func (a *Int32) CompareAndSwap(o, n int32) bool { rt.Access(a, true); return a.v.CompareAndSwap(o, n) }

type Int64 struct{ v atomic.Int64 }

func (a *Int64) Load() int64                    { rt.Access(a, false); return a.v.Load() }
func (a *Int64) Store(x int64)                  { rt.Access(a, true); a.v.Store(x) }
func (a *Int64) Add(d int64) int64              { rt.Access(a, true); return a.v.Add(d) }
func (a *Int64) Swap(x int64) int64             { rt.Access(a, true); return a.v.Swap(x) }
func (a *Int64) CompareAndSwap(o, n int64) bool { rt.Access(a, true); return a.v.CompareAndSwap(o, n) }

type Uint32 struct{ v atomic.Uint32 }

func (a *Uint32) Load() uint32         { rt.Access(a, false); return a.v.Load() }
func (a *Uint32) Store(x uint32)       { rt.Access(a, true); a.v.Store(x) }
func (a *Uint32) Add(d uint32) uint32  { rt.Access(a, true); return a.v.Add(d) }
func (a *Uint32) Swap(x uint32) uint32 { rt.Access(a, true); return a.v.Swap(x) }
func (a *Uint32) CompareAndSwap(o, n uint32) bool {
	rt.Access(a, true)
	return a.v.CompareAndSwap(o, n)
}

type Uint64 struct{ v atomic.Uint64 }

func (a *Uint64) Load() uint64         { rt.Access(a, false); return a.v.Load() }
func (a *Uint64) Store(x uint64)       { rt.Access(a, true); a.v.Store(x) }
func (a *Uint64) Add(d uint64) uint64  { rt.Access(a, true); return a.v.Add(d) }
func (a *Uint64) Swap(x uint64) uint64 { rt.Access(a, true); return a.v.Swap(x) }
func (a *Uint64) CompareAndSwap(o, n uint64) bool {
	rt.Access(a, true)
	return a.v.CompareAndSwap(o, n)
}

type Bool struct{ v atomic.Bool }

func (a *Bool) Load() bool                    { rt.Access(a, false); return a.v.Load() }
func (a *Bool) Store(x bool)                  { rt.Access(a, true); a.v.Store(x) }
func (a *Bool) Swap(x bool) bool              { rt.Access(a, true); return a.v.Swap(x) }
func (a *Bool) CompareAndSwap(o, n bool) bool { rt.Access(a, true); return a.v.CompareAndSwap(o, n) }

type Value struct{ v atomic.Value }

func (a *Value) Load() any                    { rt.Access(a, false); return a.v.Load() }
func (a *Value) Store(x any)                  { rt.Access(a, true); a.v.Store(x) }
func (a *Value) Swap(x any) any               { rt.Access(a, true); return a.v.Swap(x) }
func (a *Value) CompareAndSwap(o, n any) bool { rt.Access(a, true); return a.v.CompareAndSwap(o, n) }

type Pointer[T any] struct{ v atomic.Pointer[T] }

func (a *Pointer[T]) Load() *T     { rt.Access(a, false); return a.v.Load() }
func (a *Pointer[T]) Store(x *T)   { rt.Access(a, true); a.v.Store(x) }
func (a *Pointer[T]) Swap(x *T) *T { rt.Access(a, true); return a.v.Swap(x) }
func (a *Pointer[T]) CompareAndSwap(o, n *T) bool {
	rt.Access(a, true)
	return a.v.CompareAndSwap(o, n)
}
