//go:build verif

package verifrt

import (
	"fmt"
	"time"
)

// Explorer enumerates schedules of one scenario depth-first: run a prefix, follow the default
// policy to the end, then branch on every later point whose alternatives stay within the
// preemption bound (iterative context bounding; Bound < 0 means no bound).
type Explorer struct {
	Bound    int
	MaxSteps int // horizon in scheduling points per execution
	MaxExecs int64
	Deadline time.Time
	Prio     func(name string) int
	// LateSite: threads whose pending operation is at such a site are scheduled after all others by
	// the default policy (e.g. "the peer reads slowly": whoever is about to write to the connection waits)
	LateSite func(site string) bool
	// Setup is called before each execution (fresh scenario state); Body runs as thread 0;
	// Check runs after quiescence while every thread is still parked (so it may inspect anything).
	Setup func()
	Body  func()
	Check func(x *Exec)
	// KeyFn, when set, enables state caching: a state whose key was seen is not expanded again.
	KeyFn func() uint64
	// Symmetric: threads spawned at the same site are interchangeable in the state key.
	Symmetric bool
	// Deviations: the bound counts departures from the default policy (any choice other than the
	// first alternative) instead of preemptions.
	Deviations bool

	// results
	Execs       int64
	Transitions int64
	Points      int64
	MaxDepth    int
	States      int64
	Cut         int64
	Restarts    int
	Capped      bool
	HarnessErr  error
	written     map[uintptr]bool
	seen        map[uint64]bool
}

func cost(tr []Point, upto int) int {
	c := 0
	for i := 0; i < upto && i < len(tr); i++ {
		p := tr[i]
		if p.PrevEnabled && p.Chosen >= p.PrevCount {
			c++
		}
	}
	return c
}

func devCost(tr []Point, upto int) int {
	c := 0
	for i := 0; i < upto && i < len(tr); i++ {
		if tr[i].Chosen != 0 {
			c++
		}
	}
	return c
}

// RunOne executes a single schedule and returns the execution (already torn down).
func (e *Explorer) RunOne(prefix []int) *Exec {
	if e.written == nil {
		e.written = map[uintptr]bool{}
	}
	ResetVirtualTime()
	if e.Setup != nil {
		e.Setup()
	}
	x := &Exec{parked: make(chan *Thread), closed: map[uintptr]bool{}, Prefix: prefix, MaxSteps: e.MaxSteps,
		Prio: e.Prio, LateSite: e.LateSite, written: e.written, KeyFn: e.KeyFn, seen: e.seen, Symmetric: e.Symmetric, Bounded: e.Bound >= 0}
	x.run(e.Body)
	if x.diverged != "" {
		e.HarnessErr = fmt.Errorf("%s", x.diverged)
	}
	if !x.Stopped && e.Check != nil && x.diverged == "" {
		e.Check(x)
	}
	if err := x.teardown(); err != nil && e.HarnessErr == nil {
		e.HarnessErr = err
	}
	e.Execs++
	e.Transitions += int64(x.Steps)
	e.Points += int64(len(x.Trace))
	if len(x.Trace) > e.MaxDepth {
		e.MaxDepth = len(x.Trace)
	}
	if x.Stopped {
		e.Cut++
	}
	return x
}

// Run explores the scenario. It returns false if it stopped early (cap or deadline).
func (e *Explorer) Run() bool {
restart:
	if e.KeyFn != nil {
		e.seen = map[uint64]bool{}
	}
	stack := [][]int{nil}
	for len(stack) > 0 {
		if e.HarnessErr != nil {
			return false
		}
		if (e.MaxExecs > 0 && e.Execs >= e.MaxExecs) || (!e.Deadline.IsZero() && e.Execs%64 == 0 && time.Now().After(e.Deadline)) {
			e.Capped = true
			return false
		}
		prefix := stack[len(stack)-1]
		stack = stack[:len(stack)-1]
		x := e.RunOne(prefix)
		if x.newWrites {
			// a package-level variable turned out to be written: accesses to it are scheduling
			// points from now on, and schedules explored so far did not have them.
			e.Restarts++
			goto restart
		}
		tr := x.Trace
		for i := len(tr) - 1; i >= len(prefix); i-- {
			p := tr[i]
			base := cost(tr, i)
			if e.Deviations {
				base = devCost(tr, i)
			}
			for alt := p.N - 1; alt >= 1; alt-- {
				if alt == p.Chosen {
					continue
				}
				c := base
				if e.Deviations {
					c++
				} else if p.PrevEnabled && alt >= p.PrevCount {
					c++
				}
				if e.Bound >= 0 && c > e.Bound {
					continue
				}
				np := make([]int, i+1)
				for k := 0; k < i; k++ {
					np[k] = tr[k].Chosen
				}
				np[i] = alt
				stack = append(stack, np)
			}
		}
	}
	if e.KeyFn != nil {
		e.States = int64(len(e.seen))
	}
	return true
}
