//go:build verif

// Package vsync replaces "sync" in the instrumented packages: same API shape, every blocking
// operation is a scheduling point of the verifrt scheduler; without an installed execution the
// real primitives are used.
package vsync

import (
	"sync"

	rt "github.com/contiv/libOpenflow/verifrt"
)

type Locker = sync.Locker

type Mutex struct {
	real   sync.Mutex
	locked bool
}

func (m *Mutex) Lock() {
	if !rt.Active() {
		if rt.Sequential() {
			if !m.real.TryLock() {
				rt.SeqBlock("Lock of a mutex that is held while nothing else runs that could release it")
			}
			rt.SeqAcquire(m, m.real.Unlock)
			return
		}
		m.real.Lock()
		return
	}
	rt.Wait("mutex.Lock", func() bool { return !m.locked })
	m.locked = true
}

func (m *Mutex) TryLock() bool {
	if !rt.Active() {
		return m.real.TryLock()
	}
	rt.Yield("mutex.TryLock")
	if m.locked {
		return false
	}
	m.locked = true
	return true
}

func (m *Mutex) Unlock() {
	if !rt.Active() {
		if rt.Sequential() {
			rt.SeqRelease(m)
		}
		m.real.Unlock()
		return
	}
	if !m.locked {
		panic("sync: unlock of unlocked mutex")
	}
	m.locked = false
}

type RWMutex struct {
	real    sync.RWMutex
	writer  bool
	readers int
}

func (m *RWMutex) Lock() {
	if !rt.Active() {
		if rt.Sequential() {
			if !m.real.TryLock() {
				rt.SeqBlock("Lock of a read-write mutex that is held while nothing else runs that could release it")
			}
			rt.SeqAcquire(m, m.real.Unlock)
			return
		}
		m.real.Lock()
		return
	}
	rt.Wait("rwmutex.Lock", func() bool { return !m.writer && m.readers == 0 })
	m.writer = true
}
func (m *RWMutex) Unlock() {
	if !rt.Active() {
		if rt.Sequential() {
			rt.SeqRelease(m)
		}
		m.real.Unlock()
		return
	}
	if !m.writer {
		panic("sync: Unlock of unlocked RWMutex")
	}
	m.writer = false
}
func (m *RWMutex) RLock() {
	if !rt.Active() {
		if rt.Sequential() {
			if !m.real.TryRLock() {
				rt.SeqBlock("RLock of a read-write mutex that is write-locked while nothing else runs that could release it")
			}
			return
		}
		m.real.RLock()
		return
	}
	rt.Wait("rwmutex.RLock", func() bool { return !m.writer })
	m.readers++
}
func (m *RWMutex) RUnlock() {
	if !rt.Active() {
		m.real.RUnlock()
		return
	}
	if m.readers <= 0 {
		panic("sync: RUnlock of unlocked RWMutex")
	}
	m.readers--
}
func (m *RWMutex) RLocker() Locker { return (*rlocker)(m) }

type rlocker RWMutex

func (r *rlocker) Lock()   { (*RWMutex)(r).RLock() }
func (r *rlocker) Unlock() { (*RWMutex)(r).RUnlock() }

type WaitGroup struct {
	real sync.WaitGroup
	n    int
}

func (w *WaitGroup) Add(d int) {
	if !rt.Active() {
		w.real.Add(d)
		return
	}
	w.n += d
	if w.n < 0 {
		panic("sync: negative WaitGroup counter")
	}
}
func (w *WaitGroup) Done() { w.Add(-1) }
func (w *WaitGroup) Wait() {
	if !rt.Active() {
		w.real.Wait()
		return
	}
	rt.Wait("waitgroup.Wait", func() bool { return w.n == 0 })
}

type Once struct {
	real sync.Once
	m    Mutex
	done bool
}

func (o *Once) Do(f func()) {
	if !rt.Active() {
		o.real.Do(f)
		return
	}
	rt.Yield("once.Do")
	if o.done {
		return
	}
	o.m.Lock()
	defer o.m.Unlock()
	if !o.done {
		defer func() { o.done = true }()
		f()
	}
}

type Cond struct {
	L       Locker
	real    *sync.Cond
	waiters []*bool
}

func NewCond(l Locker) *Cond { return &Cond{L: l, real: sync.NewCond(l)} }
func (c *Cond) Wait() {
	if !rt.Active() {
		c.real.Wait()
		return
	}
	woken := false
	c.waiters = append(c.waiters, &woken)
	c.L.Unlock()
	rt.Wait("cond.Wait", func() bool { return woken })
	c.L.Lock()
}
func (c *Cond) Signal() {
	if !rt.Active() {
		c.real.Signal()
		return
	}
	if len(c.waiters) > 0 {
		*c.waiters[0] = true
		c.waiters = c.waiters[1:]
	}
}
func (c *Cond) Broadcast() {
	if !rt.Active() {
		c.real.Broadcast()
		return
	}
	for _, w := range c.waiters {
		*w = true
	}
	c.waiters = nil
}

// Map and Pool keep their real implementations behind one scheduling point per call.
type Map struct{ real sync.Map }

func (m *Map) Load(k any) (any, bool)      { rt.Yield("map.Load"); return m.real.Load(k) }
func (m *Map) Store(k, v any)              { rt.Yield("map.Store"); m.real.Store(k, v) }
func (m *Map) Delete(k any)                { rt.Yield("map.Delete"); m.real.Delete(k) }
func (m *Map) Range(f func(k, v any) bool) { rt.Yield("map.Range"); m.real.Range(f) }
func (m *Map) LoadOrStore(k, v any) (any, bool) {
	rt.Yield("map.LoadOrStore")
	return m.real.LoadOrStore(k, v)
}
func (m *Map) LoadAndDelete(k any) (any, bool) {
	rt.Yield("map.LoadAndDelete")
	return m.real.LoadAndDelete(k)
}

// Pool under the scheduler keeps a plain LIFO so that reuse is deterministic and maximal (the
// worst case for code that forgets to reset pooled objects).
type Pool struct {
	New   func() any
	items []any
	real  sync.Pool
}

func (p *Pool) Get() any {
	if !rt.Active() {
		p.real.New = p.New
		return p.real.Get()
	}
	rt.Yield("pool.Get")
	if n := len(p.items); n > 0 {
		v := p.items[n-1]
		p.items = p.items[:n-1]
		return v
	}
	if p.New != nil {
		return p.New()
	}
	return nil
}
func (p *Pool) Put(v any) {
	if !rt.Active() {
		p.real.Put(v)
		return
	}
	rt.Yield("pool.Put")
	p.items = append(p.items, v)
}
