//go:build verif

// Package vtime replaces "time" in the instrumented packages. Under an installed execution the
// clock is virtual and frozen, Sleep is a scheduling point, and tickers/timers never fire (the
// only timer in the library is a 10-minute ticker on the shutdown path; executions explored
// here are far shorter - recorded as an assumption in the evidence).
package vtime

import (
	"time"

	rt "github.com/contiv/libOpenflow/verifrt"
)

type (
	Duration = time.Duration
	Time     = time.Time
	Month    = time.Month
	Weekday  = time.Weekday
	Location = time.Location
)

const (
	Nanosecond  = time.Nanosecond
	Microsecond = time.Microsecond
	Millisecond = time.Millisecond
	Second      = time.Second
	Minute      = time.Minute
	Hour        = time.Hour
	RFC3339     = time.RFC3339
	RFC3339Nano = time.RFC3339Nano
)

var UTC = time.UTC
var Local = time.Local

var epoch = time.Unix(1700000000, 0)

func Now() Time {
	if !rt.Active() {
		return time.Now()
	}
	return epoch
}
func Since(t Time) Duration { return Now().Sub(t) }
func Until(t Time) Duration { return t.Sub(Now()) }
func Unix(s, n int64) Time  { return time.Unix(s, n) }
func Date(y int, m Month, d, h, mi, s, n int, l *Location) Time {
	return time.Date(y, m, d, h, mi, s, n, l)
}
func ParseDuration(s string) (Duration, error) { return time.ParseDuration(s) }

func Sleep(d Duration) {
	if !rt.Active() {
		time.Sleep(d)
		return
	}
	rt.Yield("time.Sleep")
}

type Ticker struct {
	C    <-chan Time
	real *time.Ticker
}

func NewTicker(d Duration) *Ticker {
	if !rt.Active() {
		t := time.NewTicker(d)
		return &Ticker{C: t.C, real: t}
	}
	return &Ticker{C: make(chan Time, 1)}
}
func (t *Ticker) Stop() {
	if t.real != nil {
		t.real.Stop()
	}
}
func (t *Ticker) Reset(d Duration) {
	if t.real != nil {
		t.real.Reset(d)
	}
}
func Tick(d Duration) <-chan Time { return NewTicker(d).C }

type Timer struct {
	C    <-chan Time
	real *time.Timer
}

func NewTimer(d Duration) *Timer {
	if !rt.Active() {
		t := time.NewTimer(d)
		return &Timer{C: t.C, real: t}
	}
	return &Timer{C: make(chan Time, 1)}
}
func (t *Timer) Stop() bool {
	if t.real != nil {
		return t.real.Stop()
	}
	return true
}
func (t *Timer) Reset(d Duration) bool {
	if t.real != nil {
		return t.real.Reset(d)
	}
	return true
}
func After(d Duration) <-chan Time { return NewTimer(d).C }
func AfterFunc(d Duration, f func()) *Timer {
	if !rt.Active() {
		t := time.AfterFunc(d, f)
		return &Timer{real: t}
	}
	return &Timer{C: make(chan Time, 1)}
}
