//go:build verif

// Package vtime replaces "time" in the instrumented packages. Under an installed execution the
// clock is virtual: it stands still while threads run, Sleep is a scheduling point, and tickers
// and timers are registered with the scheduler (verifrt.RegisterTimer). They fire only if the
// harness runs a clock thread, which moves time on to the next timer when everything else has come
// to rest; harnesses without one never see a timer fire (the only timer in the library is a
// 10-minute ticker on the shutdown path).
package vtime

import (
	"time"

	rt "github.com/contiv/libOpenflow/verifrt"
)

type (
	Duration = time.Duration
	Time     = time.Time
	Month    = time.Month
	Weekday  = time.Weekday
	Location = time.Location
)

const (
	Nanosecond  = time.Nanosecond
	Microsecond = time.Microsecond
	Millisecond = time.Millisecond
	Second      = time.Second
	Minute      = time.Minute
	Hour        = time.Hour
	RFC3339     = time.RFC3339
	RFC3339Nano = time.RFC3339Nano
)

var UTC = time.UTC
var Local = time.Local

var epoch = time.Unix(1700000000, 0)

func Now() Time {
	if !rt.Active() {
		return time.Now()
	}
	return rt.VirtualNow()
}
func Since(t Time) Duration { return Now().Sub(t) }
func Until(t Time) Duration { return t.Sub(Now()) }
func Unix(s, n int64) Time  { return time.Unix(s, n) }
func Date(y int, m Month, d, h, mi, s, n int, l *Location) Time {
	return time.Date(y, m, d, h, mi, s, n, l)
}
func ParseDuration(s string) (Duration, error) { return time.ParseDuration(s) }

func Sleep(d Duration) {
	if !rt.Active() {
		time.Sleep(d)
		return
	}
	rt.Yield("time.Sleep")
}

type Ticker struct {
	C    <-chan Time
	real *time.Ticker
	v    *rt.VTimer
}

func NewTicker(d Duration) *Ticker {
	if !rt.Active() {
		t := time.NewTicker(d)
		return &Ticker{C: t.C, real: t}
	}
	ch := make(chan Time, 1)
	return &Ticker{C: ch, v: rt.RegisterTimer(ch, d, d)}
}
func (t *Ticker) Stop() {
	if t.real != nil {
		t.real.Stop()
	}
	if t.v != nil {
		t.v.Stop()
	}
}
func (t *Ticker) Reset(d Duration) {
	if t.real != nil {
		t.real.Reset(d)
	}
	if t.v != nil {
		t.v.Reset(d)
	}
}
func Tick(d Duration) <-chan Time { return NewTicker(d).C }

type Timer struct {
	C    <-chan Time
	real *time.Timer
	v    *rt.VTimer
}

func NewTimer(d Duration) *Timer {
	if !rt.Active() {
		t := time.NewTimer(d)
		return &Timer{C: t.C, real: t}
	}
	ch := make(chan Time, 1)
	return &Timer{C: ch, v: rt.RegisterTimer(ch, d, 0)}
}
func (t *Timer) Stop() bool {
	if t.real != nil {
		return t.real.Stop()
	}
	if t.v != nil {
		return t.v.Stop()
	}
	return true
}
func (t *Timer) Reset(d Duration) bool {
	if t.real != nil {
		return t.real.Reset(d)
	}
	if t.v != nil {
		return t.v.Reset(d)
	}
	return true
}
func After(d Duration) <-chan Time { return NewTimer(d).C }
func AfterFunc(d Duration, f func()) *Timer {
	if !rt.Active() {
		t := time.AfterFunc(d, f)
		return &Timer{real: t}
	}
	return &Timer{C: make(chan Time, 1)}
}
