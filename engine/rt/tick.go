//go:build verif

// Package verifrt is the runtime that the instrumented copy of libOpenflow calls into. It is
// added to the repository's module as a virtual package by `go build -overlay`; nothing of it
// is committed to the repository. With no budget armed and no explorer installed every entry
// point is a counter increment or the plain Go operation.
package verifrt

import (
	"runtime"
	"strings"
)

// Tick accounting (rewrite R1): a call is inserted at every function entry and loop body of the
// five library packages. The counter is process-global: workers that arm a budget run their
// executions on one goroutine.
var (
	ticks  int64
	budget int64 = 1<<62 - 1
)

// BudgetExceeded is the panic value raised when an armed step budget is exhausted.
type BudgetExceeded struct{ Steps int64 }

func (b BudgetExceeded) Error() string { return "verif: step budget exceeded" }

// Tick is called by instrumented code.
func Tick() {
	ticks++
	if ticks > budget {
		s := ticks
		if exceededAt == "" {
			exceededAt = callChain(2)
			exceededSteps = s
		}
		// the library recovers panics in places (Parse, ofbase.Header.Decode): give deferred code
		// some room, then raise the panic again until the execution has unwound
		budget = ticks + 256
		panic(BudgetExceeded{Steps: s})
	}
}

var (
	exceededAt    string
	exceededSteps int64
)

// Exceeded reports whether the armed budget was exhausted since the last Arm, and where.
func Exceeded() (bool, string, int64) { return exceededAt != "", exceededAt, exceededSteps }

// callChain names the libOpenflow functions on the current stack, innermost first.
func callChain(skip int) string {
	pc := make([]uintptr, 48)
	n := runtime.Callers(skip+1, pc)
	fr := runtime.CallersFrames(pc[:n])
	var out []string
	for {
		f, more := fr.Next()
		if i := strings.Index(f.Function, "libOpenflow/"); i >= 0 && !strings.Contains(f.Function, "/verifrt") {
			name := f.Function[i+len("libOpenflow/"):]
			if len(out) == 0 || out[len(out)-1] != name {
				out = append(out, name)
			}
		}
		if !more || len(out) >= 6 {
			break
		}
	}
	return strings.Join(out, "<")
}

// CallChain is callChain for harnesses (used inside recover handlers).
func CallChain() string { return callChain(2) }

// Arm resets the counter and sets a budget for the next execution.
func Arm(n int64) { ticks = 0; budget = n; exceededAt = ""; exceededSteps = 0 }

// Disarm removes the budget and returns the steps used since Arm.
func Disarm() int64 { budget = 1<<62 - 1; return ticks }

// Ticks returns the steps counted since the last Arm.
func Ticks() int64 { return ticks }

// Sequential mode. The deviation explorers run one library call at a time on one goroutine; nothing
// else runs instrumented code. A lock that is found held can then never be released: acquiring it
// would block for ever. Instead of blocking, the attempt is recorded (SeqBlocked) and the call is
// unwound with a panic; locks acquired and not released when the call returns are known (SeqHeld)
// and can be released by force so that the following executions start clean.

type BlockedForever struct{ What string }

func (b BlockedForever) Error() string { return "verif: " + b.What }

var (
	sequential bool
	seqBlocked string
	seqHeld    = map[any]func(){}
	seqSites   = map[any]string{}
)

func SetSequential(on bool) { sequential = on; seqBlocked = "" }
func Sequential() bool     { return sequential }

// SeqClear forgets a recorded blocking attempt (before the next execution).
func SeqClear() { seqBlocked = "" }

// SeqBlocked returns the blocking attempt recorded since the last SeqClear ("" if none).
func SeqBlocked() string { return seqBlocked }

// SeqBlock records that the caller would block for ever and unwinds it.
func SeqBlock(what string) {
	if seqBlocked == "" {
		seqBlocked = what + " in " + callChain(3)
	}
	panic(BlockedForever{what})
}

func SeqAcquire(key any, release func()) {
	seqHeld[key] = release
	seqSites[key] = callChain(3)
}
func SeqRelease(key any) { delete(seqHeld, key); delete(seqSites, key) }

// SeqHeld lists where the locks that are still held were acquired.
func SeqHeld() []string {
	var out []string
	for _, s := range seqSites {
		out = append(out, s)
	}
	return out
}

// SeqForceRelease releases every lock still held.
func SeqForceRelease() {
	for k, f := range seqHeld {
		f()
		delete(seqHeld, k)
		delete(seqSites, k)
	}
}
