//go:build verif

// Package verifrt is the runtime that the instrumented copy of libOpenflow calls into. It is
// added to the repository's module as a virtual package by `go build -overlay`; nothing of it
// is committed to the repository. With no budget armed and no explorer installed every entry
// point is a counter increment or the plain Go operation.
package verifrt

// Tick accounting (rewrite R1): a call is inserted at every function entry and loop body of the
// five library packages. The counter is process-global: workers that arm a budget run their
// executions on one goroutine.
var (
	ticks  int64
	budget int64 = 1<<62 - 1
)

// BudgetExceeded is the panic value raised when an armed step budget is exhausted.
type BudgetExceeded struct{ Steps int64 }

func (b BudgetExceeded) Error() string { return "verif: step budget exceeded" }

// Tick is called by instrumented code.
func Tick() {
	ticks++
	if ticks > budget {
		s := ticks
		budget = 1<<62 - 1 // disarm so that deferred code can run
		panic(BudgetExceeded{Steps: s})
	}
}

// Arm resets the counter and sets a budget for the next execution.
func Arm(n int64) { ticks = 0; budget = n }

// Disarm removes the budget and returns the steps used since Arm.
func Disarm() int64 { budget = 1<<62 - 1; return ticks }

// Ticks returns the steps counted since the last Arm.
func Ticks() int64 { return ticks }
