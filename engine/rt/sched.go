//go:build verif

package verifrt

// Cooperative scheduler (rewrite R2/R3). Goroutines created through Go become threads of an
// Exec; exactly one runs at a time; before every visible operation (channel send/receive/
// select/close, lock, atomic, access to a package-level variable that is written somewhere,
// environment call) the running thread publishes the operation and parks; the explorer picks,
// among the transitions that are enabled, which one fires next. Values travel through the real
// channels (or by hand-off for unbuffered ones); the scheduler only decides order.

import (
	"fmt"
	"reflect"
	"runtime"
	"sort"
	"strings"
	"time"
)

type opKind uint8

const (
	opStart opKind = iota
	opComm         // send / receive / select
	opClose
	opWait   // blocks until cond() holds (locks, wait groups, environment)
	opAccess // shared-variable access / atomic / yield: always enabled
	opResume // continuation of a sender after an unbuffered rendezvous: always enabled, forced
)

type commCase struct {
	send   bool
	ch     uintptr
	capN   int
	lenFn  func() int
	doRecv func() (any, bool)
	doSend func()
	val    any
}

type op struct {
	kind       opKind
	cases      []commCase
	hasDefault bool
	cond       func() bool
	addr       uintptr
	site       string
	label      string
	idle       bool // opWait only: enabled only when no other thread has an enabled transition
}

type commResult struct {
	idx    int
	val    any
	ok     bool
	direct bool // value handed over by the scheduler (unbuffered rendezvous); do not touch the real channel
}

// Thread is one goroutine under the scheduler.
type Thread struct {
	ID    int
	Name  string
	wake  chan struct{}
	op    *op
	res   commResult
	done  bool
	kill  bool
	fresh bool // has fired no unforced transition yet (symmetry reduction)
	Steps int
	hist  uint64
}

// Transition is one enabled step: a thread, for communications the case index (-1 = default)
// and, for unbuffered rendezvous, the partner thread and its case.
type Transition struct {
	T        *Thread
	Case     int
	Partner  *Thread
	PCase    int
	forced   bool
	describe string
}

// Point is one recorded scheduling decision.
type Point struct {
	N           int  // number of alternatives offered
	Chosen      int  // index taken
	PrevEnabled bool // the previously running thread had an enabled transition here
	PrevCount   int  // how many of the leading alternatives belong to the previously running thread
	Desc        string
}

// Event is something the harness wants to know about at the end of an execution.
type Event struct {
	Kind   string // "panic", "fatal", "deadlock", "livelock", "leak"
	Thread string
	Detail string
}

// Exec is one controlled execution.
type Exec struct {
	threads  []*Thread
	running  *Thread
	prev     *Thread
	parked   chan *Thread
	closed   map[uintptr]bool
	Prefix   []int
	Trace    []Point
	Events   []Event
	MaxSteps int
	Prio     func(name string) int
	LateSite func(site string) bool
	tearing  bool
	diverged string
	// shared-variable bookkeeping, owned by the explorer and persistent across executions
	written   map[uintptr]bool
	newWrites bool
	Steps     int
	// optional global state key hook for state caching
	KeyFn func() uint64
	seen  map[uint64]bool
	// Stopped is set when the execution was cut because its state was already visited.
	Stopped bool
	stopAt  int
	// UserLog collects harness observations that are part of the state key.
	obs uint64
	// canonical channel numbering (addresses differ between executions) and shadow queues of the
	// digests of the values queued in each buffered channel (part of the state key)
	chanNo map[uintptr]int
	shadow map[uintptr][]uint64
	// Symmetric, when set, makes the state key independent of the order of threads that were
	// spawned at the same site (they run the same code; their state is history + pending operation)
	Symmetric bool
	Bounded   bool
}

type killSentinel struct{}

// FatalSentinel is what the harness's logrus ExitFunc panics with.
type FatalSentinel struct{ Code int }

var cur *Exec

// Active reports whether a controlled execution is installed.
func Active() bool { return cur != nil }

func site(skip int) string {
	_, f, l, ok := runtime.Caller(skip)
	if !ok {
		return "?"
	}
	if i := strings.LastIndex(f, "/"); i >= 0 {
		f = f[i+1:]
	}
	return fmt.Sprintf("%s:%d", f, l)
}

func chanID(ch any) uintptr {
	v := reflect.ValueOf(ch)
	if !v.IsValid() || v.IsNil() {
		return 0
	}
	return v.Pointer()
}

// chNo returns the canonical number of a channel in this execution: named channels keep the number
// the harness gave them, others are numbered in order of first use.
func (x *Exec) chNo(ch uintptr) int {
	if ch == 0 {
		return 0
	}
	if x.chanNo == nil {
		x.chanNo = map[uintptr]int{}
	}
	n, ok := x.chanNo[ch]
	if !ok {
		n = 1000 + len(x.chanNo)
		x.chanNo[ch] = n
	}
	return n
}

// NameChan gives a channel a stable number for state keys (call from Setup/Body before use).
func NameChan(ch any, n int) {
	x := cur
	if x == nil {
		return
	}
	if x.chanNo == nil {
		x.chanNo = map[uintptr]int{}
	}
	x.chanNo[chanID(ch)] = n
}

// ---- thread side ---------------------------------------------------------------------------

func (x *Exec) park(o *op) *Thread {
	t := x.running
	if t == nil || x.tearing {
		panic(killSentinel{})
	}
	t.op = o
	x.parked <- t
	<-t.wake
	if t.kill {
		panic(killSentinel{})
	}
	return t
}

// Go starts f as a new thread (or a plain goroutine when no execution is installed).
func Go(f func()) {
	x := cur
	if x == nil {
		go f()
		return
	}
	x.spawn(site(2), f)
}

// GoNamed is Go with an explicit thread name (harness threads).
func GoNamed(name string, f func()) {
	x := cur
	if x == nil {
		go f()
		return
	}
	x.spawn(name, f)
}

func (x *Exec) spawn(name string, f func()) *Thread {
	t := &Thread{ID: len(x.threads), Name: name, wake: make(chan struct{}), fresh: true}
	t.op = &op{kind: opStart, site: name}
	x.threads = append(x.threads, t)
	go func() {
		<-t.wake
		defer func() {
			r := recover()
			t.done = true
			if r != nil {
				switch v := r.(type) {
				case killSentinel:
				case FatalSentinel:
					x.Events = append(x.Events, Event{Kind: "fatal", Thread: t.Name, Detail: fmt.Sprint(v.Code)})
				default:
					buf := make([]byte, 4096)
					buf = buf[:runtime.Stack(buf, false)]
					x.Events = append(x.Events, Event{Kind: "panic", Thread: t.Name, Detail: fmt.Sprintf("%v\n%s", r, buf)})
				}
			}
			x.parked <- t
		}()
		if t.kill {
			return
		}
		f()
	}()
	return t
}

func commOp(x *Exec, o *op) commResult {
	t := x.park(o)
	r := t.res
	if r.direct {
		return r
	}
	if r.idx < 0 {
		return r
	}
	c := &o.cases[r.idx]
	if c.send {
		c.doSend()
		if c.capN > 0 && !x.closed[c.ch] {
			if x.shadow == nil {
				x.shadow = map[uintptr][]uint64{}
			}
			x.shadow[c.ch] = append(x.shadow[c.ch], Digest(c.val))
		}
		return r
	}
	r.val, r.ok = c.doRecv()
	if q := x.shadow[c.ch]; len(q) > 0 {
		x.shadow[c.ch] = q[1:]
	}
	t.hist = mix(t.hist, Digest(r.val))
	return r
}

// Send is `ch <- v`.
func Send[C ~chan T | ~chan<- T, T any](ch C, v T) {
	x := cur
	if x == nil {
		ch <- v
		return
	}
	o := &op{kind: opComm, site: site(2), cases: []commCase{{send: true, ch: chanID(ch), capN: cap(ch),
		lenFn: func() int { return len(ch) }, doSend: func() { ch <- v }, val: v}}}
	commOp(x, o)
}

func recvCase[C ~chan T | ~<-chan T, T any](ch C) commCase {
	return commCase{ch: chanID(ch), capN: cap(ch), lenFn: func() int { return len(ch) },
		doRecv: func() (any, bool) { v, ok := <-ch; return v, ok }}
}

// Recv is `<-ch`.
func Recv[C ~chan T | ~<-chan T, T any](ch C) T {
	x := cur
	if x == nil {
		return <-ch
	}
	r := commOp(x, &op{kind: opComm, site: site(2), cases: []commCase{recvCase[C, T](ch)}})
	v, _ := r.val.(T)
	return v
}

// Recv2 is `v, ok := <-ch`.
func Recv2[C ~chan T | ~<-chan T, T any](ch C) (T, bool) {
	x := cur
	if x == nil {
		v, ok := <-ch
		return v, ok
	}
	r := commOp(x, &op{kind: opComm, site: site(2), cases: []commCase{recvCase[C, T](ch)}})
	v, _ := r.val.(T)
	return v, r.ok
}

// Close is `close(ch)`.
func Close[C ~chan T | ~chan<- T, T any](ch C) {
	x := cur
	if x == nil {
		close(ch)
		return
	}
	id := chanID(ch)
	x.park(&op{kind: opClose, site: site(2), addr: id})
	close(ch)
	x.closed[id] = true
}

// Case is one arm of a rewritten select statement.
type Case struct{ c commCase }

// RecvCase builds a receive arm.
func RecvCase[C ~chan T | ~<-chan T, T any](ch C) Case { return Case{recvCase[C, T](ch)} }

// SendCase builds a send arm.
func SendCase[C ~chan T | ~chan<- T, T any](ch C, v T) Case {
	return Case{commCase{send: true, ch: chanID(ch), capN: cap(ch), lenFn: func() int { return len(ch) },
		doSend: func() { ch <- v }, val: v}}
}

// Select is a rewritten select statement: returns the index of the arm that fired (-1 for
// default), and for receive arms the value and the comma-ok flag.
func Select(hasDefault bool, cases ...Case) (int, any, bool) {
	x := cur
	if x == nil {
		return plainSelect(hasDefault, cases)
	}
	o := &op{kind: opComm, site: site(2), hasDefault: hasDefault}
	for _, c := range cases {
		o.cases = append(o.cases, c.c)
	}
	r := commOp(x, o)
	return r.idx, r.val, r.ok
}

// plainSelect is the pass-through implementation (no execution installed): poll the arms in
// order, sleeping briefly between rounds when there is no default.
func plainSelect(hasDefault bool, cases []Case) (int, any, bool) {
	for {
		for i, c := range cases {
			if c.c.ch == 0 {
				continue
			}
			if c.c.send {
				if c.c.lenFn() < c.c.capN {
					c.c.doSend()
					return i, nil, false
				}
			} else if c.c.lenFn() > 0 {
				v, ok := c.c.doRecv()
				return i, v, ok
			}
		}
		if hasDefault {
			return -1, nil, false
		}
		time.Sleep(50 * time.Microsecond)
	}
}

// As converts the value delivered by Select back to the element type of the arm's channel.
func As[C ~chan T | ~<-chan T, T any](ch C, v any) T {
	t, _ := v.(T)
	return t
}

// Wait blocks the calling thread until cond holds (evaluated by the scheduler while every
// thread is parked). label names the operation for traces.
func Wait(label string, cond func() bool) {
	x := cur
	if x == nil {
		for !cond() {
			time.Sleep(50 * time.Microsecond)
		}
		return
	}
	x.park(&op{kind: opWait, site: label, cond: cond, label: label})
}

// WaitIdle blocks the calling thread until cond holds AND no other thread can take a step: the place
// of things that happen "when everything has come to rest" (virtual time moving on to the next timer).
func WaitIdle(label string, cond func() bool) {
	x := cur
	if x == nil {
		return
	}
	x.park(&op{kind: opWait, site: label, cond: cond, label: label, idle: true})
}

// Yield is an always-enabled scheduling point.
func Yield(label string) {
	x := cur
	if x == nil {
		runtime.Gosched()
		return
	}
	x.park(&op{kind: opAccess, site: label, label: label})
}

// Access is inserted before statements touching a package-level variable (rewrite R3) and is
// called by the atomic shims. Variables that no thread has ever written need no scheduling
// point: reads commute. The first write to a variable makes the explorer start over with
// points at every access to it.
func Access(p any, write bool) {
	x := cur
	if x == nil || x.running == nil {
		return
	}
	a := reflect.ValueOf(p).Pointer()
	if write && !x.written[a] {
		x.written[a] = true
		x.newWrites = true
	}
	if !x.written[a] {
		return
	}
	x.park(&op{kind: opAccess, site: site(2), addr: a})
}

// Observe folds a harness observation into the running thread's history (state key).
func Observe(v uint64) {
	x := cur
	if x == nil || x.running == nil {
		return
	}
	x.running.hist = mix(x.running.hist, v)
}

// ---- scheduler side ------------------------------------------------------------------------

func (x *Exec) parkedWith(ch uintptr, send bool, not *Thread) []Transition {
	var out []Transition
	for _, s := range x.threads {
		if s == not || s.done || s.op == nil || s.op.kind != opComm {
			continue
		}
		for j := range s.op.cases {
			if s.op.cases[j].ch == ch && s.op.cases[j].send == send {
				out = append(out, Transition{T: s, Case: j})
			}
		}
	}
	return out
}

func (x *Exec) enabledOf(t *Thread) []Transition {
	o := t.op
	switch o.kind {
	case opStart, opResume:
		return []Transition{{T: t, forced: true}}
	case opClose, opAccess:
		return []Transition{{T: t}}
	case opWait:
		if o.cond() {
			return []Transition{{T: t}}
		}
		return nil
	}
	var out []Transition
	for i := range o.cases {
		c := &o.cases[i]
		if c.ch == 0 {
			continue
		}
		if c.send {
			if x.closed[c.ch] || (c.capN > 0 && c.lenFn() < c.capN) {
				out = append(out, Transition{T: t, Case: i})
			}
			// unbuffered sends fire from the receiver's side
			continue
		}
		if c.lenFn() > 0 || x.closed[c.ch] {
			out = append(out, Transition{T: t, Case: i})
		} else if c.capN == 0 {
			for _, p := range x.parkedWith(c.ch, true, t) {
				out = append(out, Transition{T: t, Case: i, Partner: p.T, PCase: p.Case})
			}
		}
	}
	if len(out) == 0 && o.hasDefault {
		// a select with default is never blocked; but an unbuffered send arm may have a waiting receiver
		for i := range o.cases {
			c := &o.cases[i]
			if c.send && c.capN == 0 && c.ch != 0 && len(x.parkedWith(c.ch, false, t)) > 0 {
				return nil // let the receiver side fire the rendezvous first; default stays available afterwards
			}
		}
		out = append(out, Transition{T: t, Case: -1})
	}
	return out
}

func opSig(t *Thread) string {
	o := t.op
	var b strings.Builder
	x := cur
	fmt.Fprintf(&b, "%s|%d|%s", t.Name, o.kind, o.site)
	if o.kind == opClose && x != nil {
		fmt.Fprintf(&b, "|%d", x.chNo(o.addr))
	}
	for _, c := range o.cases {
		n := 0
		if x != nil {
			n = x.chNo(c.ch)
		}
		fmt.Fprintf(&b, "|%v:%d", c.send, n)
		if c.send {
			fmt.Fprintf(&b, "=%x", Digest(c.val))
		}
	}
	return b.String()
}

func (x *Exec) enabled() []Transition {
	var ts []*Thread
	for _, t := range x.threads {
		if !t.done && t.op != nil {
			ts = append(ts, t)
		}
	}
	prio := func(t *Thread) int {
		if x.Prio != nil {
			return x.Prio(t.Name)
		}
		return 0
	}
	late := func(t *Thread) bool { return x.LateSite != nil && t.op != nil && x.LateSite(t.op.site) }
	sort.SliceStable(ts, func(i, j int) bool {
		a, b := ts[i], ts[j]
		if la, lb := late(a), late(b); la != lb {
			return lb // a thread whose pending operation is at a "late" site runs after everybody else
		}
		if (a == x.prev) != (b == x.prev) {
			return a == x.prev
		}
		if pa, pb := prio(a), prio(b); pa != pb {
			return pa < pb
		}
		return a.ID < b.ID
	})
	var out []Transition
	freshSeen := map[string]bool{}
	for _, t := range ts {
		if t.fresh && t.op.kind != opStart {
			s := opSig(t)
			if freshSeen[s] {
				continue // interchangeable with a lower-numbered unused thread
			}
			freshSeen[s] = true
		}
		out = append(out, x.enabledOf(t)...)
	}
	// idle waiters run only when nobody else can
	busy := false
	for _, tr := range out {
		if !(tr.T.op.kind == opWait && tr.T.op.idle) {
			busy = true
			break
		}
	}
	if busy {
		kept := out[:0]
		for _, tr := range out {
			if !(tr.T.op.kind == opWait && tr.T.op.idle) {
				kept = append(kept, tr)
			}
		}
		out = kept
	}
	return out
}

func (x *Exec) fire(tr Transition) {
	t := tr.T
	o := t.op
	if !tr.forced {
		t.fresh = false
	}
	if o.kind != opResume {
		// a thread resumed after a rendezvous keeps the result its partner's transition gave it
		t.res = commResult{idx: tr.Case}
	}
	if o.kind == opComm && tr.Partner != nil {
		s := tr.Partner
		t.res = commResult{idx: tr.Case, val: s.op.cases[tr.PCase].val, ok: true, direct: true}
		t.hist = mix(t.hist, Digest(t.res.val))
		s.res = commResult{idx: tr.PCase, direct: true}
		s.op = &op{kind: opResume, site: s.op.site}
		s.fresh = false
	}
	t.op = nil
	t.Steps++
	x.Steps++
	x.running = t
	if !tr.forced {
		x.prev = t
	}
	t.wake <- struct{}{}
	<-x.parked
	x.running = nil
}

func (x *Exec) describe(tr Transition) string {
	o := tr.T.op
	s := fmt.Sprintf("T%d(%s) ", tr.T.ID, tr.T.Name)
	switch o.kind {
	case opComm:
		if tr.Case < 0 {
			s += "select-default@" + o.site
		} else if o.cases[tr.Case].send {
			s += fmt.Sprintf("send[%d]@%s", tr.Case, o.site)
		} else {
			s += fmt.Sprintf("recv[%d]@%s", tr.Case, o.site)
		}
		if tr.Partner != nil {
			s += fmt.Sprintf(" <-T%d", tr.Partner.ID)
		}
	case opClose:
		s += "close@" + o.site
	case opWait:
		s += "wait:" + o.label
	case opAccess:
		s += "access@" + o.site
	}
	return s
}

// run executes body as thread 0 under the schedule prefix, then the default policy (first
// alternative in canonical order), until no transition is enabled or MaxSteps is reached.
func (x *Exec) run(body func()) {
	cur = x
	x.spawn("main", body)
	for {
		en := x.enabled()
		if len(en) == 0 {
			break
		}
		var forced *Transition
		for i := range en {
			if en[i].forced {
				forced = &en[i]
				break
			}
		}
		if forced != nil {
			x.fire(*forced)
			continue
		}
		if x.MaxSteps > 0 && len(x.Trace) >= x.MaxSteps {
			x.Events = append(x.Events, Event{Kind: "livelock", Detail: fmt.Sprintf("horizon of %d scheduling points reached", x.MaxSteps)})
			break
		}
		if x.KeyFn != nil && len(x.Trace) >= len(x.Prefix) {
			k := x.stateKey()
			if x.seen[k] {
				x.Stopped = true
				break
			}
			x.seen[k] = true
		}
		i := len(x.Trace)
		choice := 0
		if i < len(x.Prefix) {
			choice = x.Prefix[i]
			if choice >= len(en) {
				x.diverged = fmt.Sprintf("replay divergence at point %d: choice %d of %d", i, choice, len(en))
				break
			}
		}
		pc := 0
		for _, tr := range en {
			if tr.T == x.prev {
				pc++
			}
		}
		x.Trace = append(x.Trace, Point{N: len(en), Chosen: choice, PrevEnabled: pc > 0, PrevCount: pc, Desc: x.describe(en[choice])})
		x.fire(en[choice])
	}
}

// Blocked lists the threads that are still parked at the end, with their pending operation.
func (x *Exec) Blocked() []string {
	var out []string
	for _, t := range x.threads {
		if !t.done && t.op != nil {
			out = append(out, fmt.Sprintf("T%d(%s)@%s", t.ID, t.Name, t.op.site))
		}
	}
	return out
}

// BlockedThreads returns name and site of each parked thread.
func (x *Exec) BlockedThreads() (names, sites []string) {
	for _, t := range x.threads {
		if !t.done && t.op != nil {
			names = append(names, t.Name)
			sites = append(sites, t.op.site)
		}
	}
	return
}

func (x *Exec) teardown() error {
	x.tearing = true
	for _, t := range x.threads {
		if t.done {
			continue
		}
		t.kill = true
		x.running = t
		select {
		case t.wake <- struct{}{}:
		case <-time.After(10 * time.Second):
			return fmt.Errorf("thread %s did not accept kill", t.Name)
		}
		select {
		case <-x.parked:
		case <-time.After(10 * time.Second):
			return fmt.Errorf("thread %s did not unwind", t.Name)
		}
	}
	x.running = nil
	cur = nil
	return nil
}

func mix(h, v uint64) uint64 {
	h ^= v + 0x9e3779b97f4a7c15 + (h << 6) + (h >> 2)
	h *= 0xff51afd7ed558ccd
	h ^= h >> 33
	return h
}

// Digest maps a value travelling through a channel to a number for the state key. The harness
// may replace it; the default distinguishes by printed form.
var Digest = func(v any) uint64 {
	if v == nil {
		return 1
	}
	s := fmt.Sprintf("%T%v", v, v)
	var h uint64 = 1469598103934665603
	for i := 0; i < len(s); i++ {
		h = (h ^ uint64(s[i])) * 1099511628211
	}
	return h
}

// stateKey combines, per thread, its observation history and pending operation, plus the
// harness-supplied key of everything else (channel contents, connection position, ...).
func (x *Exec) stateKey() uint64 {
	h := x.KeyFn()
	// channel contents, in canonical channel order
	type cq struct {
		no int
		q  []uint64
	}
	var qs []cq
	for ch, q := range x.shadow {
		if len(q) > 0 {
			qs = append(qs, cq{x.chNo(ch), q})
		}
	}
	sort.Slice(qs, func(i, j int) bool { return qs[i].no < qs[j].no })
	for _, c := range qs {
		h = mix(h, uint64(c.no)<<20|uint64(len(c.q)))
		for _, v := range c.q {
			h = mix(h, v)
		}
	}
	var closed []int
	for ch := range x.closed {
		closed = append(closed, x.chNo(ch))
	}
	sort.Ints(closed)
	for _, c := range closed {
		h = mix(h, uint64(c)+0xc105ed)
	}
	threadHash := func(t *Thread) uint64 {
		th := strHash(t.Name)
		if t.done {
			return mix(th, 1)
		}
		th = mix(th, t.hist)
		if t.op != nil {
			th = mix(th, strHash(opSig(t)))
		}
		return th
	}
	if x.Symmetric {
		hs := make([]uint64, 0, len(x.threads))
		for _, t := range x.threads {
			hs = append(hs, threadHash(t))
		}
		sort.Slice(hs, func(i, j int) bool { return hs[i] < hs[j] })
		for _, v := range hs {
			h = mix(h, v)
		}
	} else {
		for _, t := range x.threads {
			h = mix(h, threadHash(t))
		}
	}
	if x.Bounded && x.prev != nil {
		// under a preemption bound the identity of the last running thread is part of the state
		h = mix(h, threadHash(x.prev)+77)
	}
	return h
}

func strHash(s string) uint64 {
	var h uint64 = 1469598103934665603
	for i := 0; i < len(s); i++ {
		h = (h ^ uint64(s[i])) * 1099511628211
	}
	return h
}

// NameChanID is NameChan for a channel known only by its pointer value.
func NameChanID(p uintptr, n int) {
	x := cur
	if x == nil || p == 0 {
		return
	}
	if x.chanNo == nil {
		x.chanNo = map[uintptr]int{}
	}
	x.chanNo[p] = n
}

// BlockedOp describes the pending operation of a thread that is parked at the end of an execution.
type BlockedOp struct {
	Thread string
	Site   string
	Kind   string // "comm", "wait", "close", "access"
	Recv   []int  // canonical numbers of the channels it waits to receive from
	Send   []int  // ... to send to
}

// BlockedOps lists the parked threads with their pending operations (canonical channel numbers).
func (x *Exec) BlockedOps() []BlockedOp {
	var out []BlockedOp
	for _, t := range x.threads {
		if t.done || t.op == nil {
			continue
		}
		b := BlockedOp{Thread: t.Name, Site: t.op.site}
		switch t.op.kind {
		case opComm:
			b.Kind = "comm"
			for _, c := range t.op.cases {
				if c.ch == 0 {
					continue
				}
				if c.send {
					b.Send = append(b.Send, x.chNo(c.ch))
				} else {
					b.Recv = append(b.Recv, x.chNo(c.ch))
				}
			}
		case opWait:
			b.Kind = "wait"
		case opClose:
			b.Kind = "close"
		default:
			b.Kind = "access"
		}
		out = append(out, b)
	}
	return out
}
