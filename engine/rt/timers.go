//go:build verif

package verifrt

import (
	"sort"
	"time"
)

// Virtual time. Under an installed execution the clock stands still while threads run; timers and
// tickers created through the time shim are registered here. A harness thread (the "clock") may move
// the clock on to the next pending timer when everything else has come to rest (WaitIdle) and fire it.

type VTimer struct {
	ch      chan time.Time
	at      time.Duration
	period  time.Duration
	stopped bool
}

var (
	vNow    time.Duration
	vTimers []*VTimer
	vEpoch  = time.Unix(1700000000, 0)
)

// ResetVirtualTime is called at the start of every controlled execution.
func ResetVirtualTime() { vNow = 0; vTimers = nil }

// VirtualNow is the current virtual time.
func VirtualNow() time.Time { return vEpoch.Add(vNow) }

// RegisterTimer registers a timer (period 0) or ticker firing d from now on ch.
func RegisterTimer(ch chan time.Time, d, period time.Duration) *VTimer {
	t := &VTimer{ch: ch, at: vNow + d, period: period}
	vTimers = append(vTimers, t)
	return t
}

func (t *VTimer) Stop() bool {
	was := !t.stopped
	t.stopped = true
	return was
}

func (t *VTimer) Reset(d time.Duration) bool {
	was := !t.stopped
	t.stopped = false
	t.at = vNow + d
	return was
}

// PendingTimer returns the earliest timer due within the given span of virtual time from now.
func PendingTimer(within time.Duration) *VTimer {
	var live []*VTimer
	for _, t := range vTimers {
		if !t.stopped && t.at <= vNow+within {
			live = append(live, t)
		}
	}
	if len(live) == 0 {
		return nil
	}
	sort.SliceStable(live, func(i, j int) bool { return live[i].at < live[j].at })
	return live[0]
}

// FireTimer moves the clock to the timer's deadline and delivers its tick (dropped, like the real
// ones, when the channel still holds the previous tick). Called by a harness thread.
func FireTimer(t *VTimer) {
	if t.at > vNow {
		vNow = t.at
	}
	if t.period > 0 {
		t.at = vNow + t.period
	} else {
		t.stopped = true
	}
	Select(true, SendCase(t.ch, VirtualNow()))
}
